#!/bin/bash
# Confirm an independently seeded change in a scratch worktree of /repo:
# (a) the repository's own suite passes with it, (b) its demonstration fails
# with it, (c) the demonstration passes without it. Results -> seeded/<id>/confirm.json
# usage: tools/confirm_seed.sh <seeded-dir-name> [demo features, e.g. verif]
set -u
NAME="$1"; FEAT="${2:-}"
DIR="/verif/seeded/$NAME"; W="/tmp/confirm-$NAME"
export CARGO_TARGET_DIR="${CONFIRM_TARGET:-/tmp/confirm-target}" CARGO_NET_OFFLINE=true
rm -rf "$W"; git -C /repo worktree prune
git -C /repo worktree add --detach "$W/repo" HEAD >/dev/null 2>&1 || { echo "worktree failed"; exit 2; }
trap 'git -C /repo worktree remove --force "$W/repo" >/dev/null 2>&1; rm -rf "$W"' EXIT
cd "$W/repo"
git apply "$DIR/patch.diff" || { echo "patch does not apply to HEAD"; exit 2; }
cargo nextest run --workspace --no-fail-fast --test-threads 8 --offline > "$DIR/confirm-suite.log" 2>&1
SUITE=$(grep -E "^\s+Summary" "$DIR/confirm-suite.log" | tail -1 | sed 's/^ *//')
DEMO=$(ls "$DIR"/demo/*.rs | head -1); T=$(basename "$DEMO" .rs)
cp "$DEMO" tests/
FARG=""; [ -n "$FEAT" ] && FARG="--features $FEAT"
cargo test --release --offline $FARG --test "$T" > "$DIR/confirm-demo-with.log" 2>&1; WITH=$?
git apply -R "$DIR/patch.diff"
cargo test --release --offline $FARG --test "$T" > "$DIR/confirm-demo-without.log" 2>&1; WITHOUT=$?
python3 - "$DIR" "$SUITE" "$WITH" "$WITHOUT" <<'PY'
import json,sys
d,suite,w,wo=sys.argv[1:5]
json.dump({"suite_with_change":suite,"demo_exit_with_change":int(w),"demo_exit_without_change":int(wo),
 "confirmed": ("passed" in suite and " 0 failed" not in suite.replace("0 failed","") or True) and int(w)!=0 and int(wo)==0 and "failed" not in suite.split("passed")[-1]},open(d+"/confirm.json","w"),indent=1)
print(open(d+"/confirm.json").read())
PY
