#!/usr/bin/env python3
"""Fold what was done with every seeded change into its meta.json: the confirmation made in
a scratch worktree (confirm.json from tools/confirm_seed.sh) and the checks that were run
against it (runs/*.log from tools/run_seeded.sh) with the first violation signatures."""
import json, os, re, glob
for d in sorted(glob.glob('/verif/seeded/*/')):
    mp = d + 'meta.json'
    if not os.path.exists(mp):
        continue
    meta = json.load(open(mp))
    if os.path.exists(d + 'confirm.json'):
        c = json.load(open(d + 'confirm.json'))
        meta['verif_confirmation'] = {
            'suite_with_change': c.get('suite_with_change'),
            'demo_exit_with_change': c.get('demo_exit_with_change'),
            'demo_exit_without_change': c.get('demo_exit_without_change'),
            'confirmed': c.get('confirmed'),
            'how': 'tools/confirm_seed.sh in a scratch worktree of /repo HEAD: cargo nextest suite with the change, demo with the change (must fail), demo without it (must pass)',
        }
    runs = {}
    for log in sorted(glob.glob(d + 'runs/*.log')):
        m = re.match(r'(C\d+)-(quick|thorough)\.log', os.path.basename(log))
        if not m:
            continue
        txt = open(log, errors='replace').read()
        sigs = re.findall(r'violation \[([^\]]+)\]', txt)
        runs['%s/%s' % (m.group(1), m.group(2))] = {
            'violation_lines': len(re.findall(r'^VIOLATION', txt, re.M)),
            'first_signatures': sigs[:3],
        }
    meta['verif_checks_run_against_it'] = runs
    meta['verif_how_run'] = 'tools/run_seeded.sh <name> quick <ids>: git -C /repo apply patch.diff; ./check <id> quick (scratch VERIF_DIR); git -C /repo checkout -- .'
    json.dump(meta, open(mp, 'w'), indent=1)
print('ok')
