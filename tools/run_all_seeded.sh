#!/bin/bash
# Regression over every kept seeded change: apply it, run the checks that are
# recorded as catching it (quick tier; the property's own check when it is among them), expect exit 1.
# usage: tools/run_all_seeded.sh [name ...]
cd /verif
NAMES="$@"; [ -z "$NAMES" ] && NAMES=$(ls seeded)
FAIL=0
for n in $NAMES; do
  [ -f seeded/$n/patch.diff ] || continue
  IDS=$(python3 - "$n" <<'PY'
import json,sys
m=json.load(open(f'/verif/seeded/{sys.argv[1]}/meta.json'))
ids=[k.split('/')[0] for k,v in m.get('verif_checks_run_against_it',{}).items() if v.get('violation_lines',0)>0]
prop=m.get('property','')
# the property's own check first
ids=sorted(set(ids), key=lambda x: (x!=prop, x))
print(' '.join(ids[:1]))
PY
)
  [ -z "$IDS" ] && { echo "$n: no catching check recorded"; FAIL=1; continue; }
  OUT=$(tools/run_seeded.sh $n quick $IDS 2>&1 | grep -E "exit=")
  echo "$OUT"
  echo "$OUT" | grep -q "exit=1" || { echo "  !! $n not caught"; FAIL=1; }
done
exit $FAIL
