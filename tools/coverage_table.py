#!/usr/bin/env python3
"""Rebuild the as-built coverage table in DESIGN.md (between COVERAGE-TABLE markers).

quick columns: /verif/evidence/<id>.json (committed, written by the checks themselves)
thorough columns: docs/thorough_runs.json, which `tools/coverage_table.py --ingest <log>`
fills from the summary lines a thorough sweep prints ("[Cnn] tier=thorough states=...").
"""
import json, re, sys, os
V = os.path.dirname(os.path.dirname(os.path.abspath(__file__)))
TH = os.path.join(V, "docs", "thorough_runs.json")

def ingest(path):
    cur = json.load(open(TH)) if os.path.exists(TH) else {}
    pat = re.compile(r"^\[(C\d\d)\] tier=thorough states=(\d+) transitions=(\d+) validated=(\d+) evals=(\d+) distinct=(\d+) violations=(\d+) known=(\d+) wall=([\d.]+)s")
    for line in open(path, errors="replace"):
        m = pat.match(line)
        if m:
            cur[m.group(1)] = dict(states=int(m.group(2)), transitions=int(m.group(3)), validated=int(m.group(4)),
                                   distinct=int(m.group(6)), violations=int(m.group(7)), known=int(m.group(8)), wall_s=float(m.group(9)),
                                   source=os.path.basename(os.path.dirname(path)) + "/" + os.path.basename(path))
    json.dump(cur, open(TH, "w"), indent=1, sort_keys=True)

def table():
    man = json.load(open(os.path.join(V, "MANIFEST.json")))
    th = json.load(open(TH)) if os.path.exists(TH) else {}
    rows = ["| id | deciding technique | quick: states / transitions / bound to impl / distinct / wall | thorough: states / transitions / bound to impl / distinct / wall | findings |",
            "|---|---|---|---|---|"]
    for c in man["checks"]:
        pid = c["property_id"]
        ev = json.load(open(os.path.join(V, "evidence", pid + ".json")))
        cov = ev["coverage"]
        q = "%d / %d / %d / %d / %.0fs%s" % (cov["states"], cov["transitions"], cov["traces_validated_against_impl"], cov["distinct_nontrivial"], ev["wall_s"], "" if cov.get("exhaustive", True) else " (strided, see evidence `capped`)") if ev["tier"] == "quick" else "(evidence file holds a thorough run)"
        t = th.get(pid)
        ts = "%d / %d / %d / %d / %.0fs" % (t["states"], t["transitions"], t["validated"], t["distinct"], t["wall_s"]) if t else "not yet run to completion"
        kf = cov.get("known_findings_reported", 0)
        rows.append("| %s | %s | %s | %s | %s |" % (pid, c["technique"], q, ts, ("%d known" % kf) if kf else "—"))
    return "\n".join(rows)

if __name__ == "__main__":
    if len(sys.argv) == 3 and sys.argv[1] == "--ingest":
        ingest(sys.argv[2])
    p = os.path.join(V, "DESIGN.md")
    s = open(p).read()
    b, e = "<!-- COVERAGE-TABLE-BEGIN -->", "<!-- COVERAGE-TABLE-END -->"
    if b in s:
        s = s[: s.index(b) + len(b)] + "\n" + table() + "\n" + s[s.index(e):]
        open(p, "w").write(s)
    else:
        print(table())
