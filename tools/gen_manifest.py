#!/usr/bin/env python3
"""Regenerates /verif/MANIFEST.json from the table below (single source of truth)."""
import json, subprocess, os

# id -> (category, technique, level text, level note, design ref) for CLAIMED checks
CLAIMED = {}
NOT_YET = {}

def claim(i, cat, technique, text, note, ref):
    CLAIMED[i] = (cat, technique, text, note, ref)

claim("C05", "model_checking",
      "bounded exhaustive enumeration of raw-row layouts x wire assignments, real prover/verifier vs independent row model M1",
      "Every enumerated (layout, assignment) pair - all arithmetic selector tuples over a small coefficient set, every custom-gate family alone / pairwise / all at once, first / middle / last-row-of-full-domain placement, every single-wire perturbation, copy-constraint breaks on every wire-column pair, size mismatches - is executed on the real Prover::prove + Verifier::verify and must agree with the independent row model M1 (accept iff satisfied, CircuitUnsatisfied / InvalidCircuitSize otherwise, never a panic, never an unverifiable proof). Vacuity gates require each of the 17 identity components to be the only failing one in at least one case.",
      "Trusts M1 (DESIGN Appendix A.1) as the statement of the gate identities, dusk-bls12_381/dusk-jubjub field and curve arithmetic, and treats separation-challenge cancellations (~2^-250) as impossible. Field values come from constructed assignments and small perturbations, not the whole field.",
      "DESIGN.md §5 C05")

ALL = [f"C{i:02d}" for i in range(1, 21)]

def main():
    here = os.path.dirname(os.path.abspath(__file__))
    root = os.path.dirname(here)
    repo_commits = subprocess.run(["git", "-C", "/repo", "log", "--format=%H %s"], capture_output=True, text=True).stdout.strip().splitlines()
    hooks = [l.split()[0] for l in repo_commits if " verif hooks:" in l or l.split(" ",1)[1].startswith("verif hooks")]
    checks = []
    for i in ALL:
        if i not in CLAIMED:
            continue
        cat, tech, text, note, ref = CLAIMED[i]
        checks.append({
            "property_id": i,
            "quick_cmd": f"./check {i} quick",
            "thorough_cmd": f"./check {i} thorough",
            "evidence_file": f"/verif/evidence/{i}.json",
            "replay_cmd_template": f"./check {i} quick --replay {{path}}",
            "engine": "vp",
            "level_claimed": {"category": cat, "text": text, "design_ref": ref},
            "level_note": note,
            "technique": tech,
        })
    na = [{"property_id": i, "reason": NOT_YET.get(i, "check not built yet in this round (planned in DESIGN.md §5); the technique applies, nothing is claimed until the check exists")} for i in ALL if i not in CLAIMED]
    m = {
        "version": 1,
        "setup_cmd": "cd /verif/harness && CARGO_NET_OFFLINE=true cargo build --offline --profile verif",
        "hooks": {
            "guard": "cargo feature `verif` of dusk-plonk (off by default)",
            "enable": "the harness depends on dusk-plonk = { path = \"/repo\", features = [\"verif\", \"legacy-proving\"] }; every check rebuilds it incrementally from /repo's working tree",
            "baseline_off_cmd": "cd /repo && cargo nextest run --workspace --no-fail-fast --test-threads 8 --offline || cargo test --workspace --no-fail-fast --offline",
            "source_commits": hooks,
            "add_only": True,
        },
        "engines": [
            {"name": "vp", "path": "/verif/harness", "serves_properties": sorted(CLAIMED.keys()),
             "kind_free_text": "Rust harness: bounded exhaustive enumerators (operation sequences, raw rows, witness deviations, byte faults) executed on the real dusk-plonk code and compared case by case with independent reference models M1-M5"},
        ],
        "checks": checks,
        "not_applicable": na,
        "notes": "Exit codes: 0 held (possibly with KNOWN-FINDING lines), 1 violation (VIOLATION lines), >=2 machinery failure (never a verdict). known_findings.json lists recorded defects and fixed entries.",
    }
    with open(os.path.join(root, "MANIFEST.json"), "w") as f:
        json.dump(m, f, indent=1)
    print("claimed:", sorted(CLAIMED.keys()))

if __name__ == "__main__":
    main()
