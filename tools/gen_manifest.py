#!/usr/bin/env python3
"""Regenerates /verif/MANIFEST.json from the table below (single source of truth)."""
import json, subprocess, os

# id -> (category, technique, level text, level note, design ref) for CLAIMED checks
CLAIMED = {}
NOT_YET = {}

def claim(i, cat, technique, text, note, ref):
    CLAIMED[i] = (cat, technique, text, note, ref)

claim("C05", "model_checking",
      "bounded exhaustive enumeration of raw-row layouts x wire assignments, real prover/verifier vs independent row model M1",
      "Every enumerated (layout, assignment) pair - all arithmetic selector tuples over a small coefficient set, every custom-gate family alone / pairwise / all at once, first / middle / last-row-of-full-domain placement, every single-wire perturbation, copy-constraint breaks on every wire-column pair, size mismatches, instances that emit other selectors than the compiled description (none / plain arithmetic / another family) on the same rows, base cases again inside worker pools of 3 / 6 (thorough 2, 3, 5, 6, 7, 12) threads, and a copy class of 1200 (thorough also 2400) positions split in two at every position - is executed on the real Prover::prove + Verifier::verify and must agree with the independent row model M1 (accept iff satisfied, CircuitUnsatisfied / InvalidCircuitSize otherwise, never a panic, never an unverifiable proof). Vacuity gates require each of the 17 identity components to be the only failing one in at least one case.",
      "Trusts M1 (DESIGN Appendix A.1) as the statement of the gate identities, dusk-bls12_381/dusk-jubjub field and curve arithmetic, and treats separation-challenge cancellations (~2^-250) as impossible. Field values come from constructed assignments and small perturbations, not the whole field.",
      "DESIGN.md §5 C05")

claim("C06", "model_checking",
      "exhaustive enumeration of RNG scripts (each of the 14 draws replaced by 1, -1, rho and 0; every pair forced equal; zero pairs; all-zero) x circuits, real prover vs independent reference prover M3 byte for byte plus mask algebra",
      "For every script the real prover must draw exactly 14 x 64 bytes via fill_bytes in protocol order, its proof must be byte-identical to the naive reference prover M3 (own DFT, schoolbook arithmetic, explicit commitments, literal transcript table), every opening must equal the unmasked value (interpolated from the witness table by definition) plus the prescribed (b0+b1X[+b2X^2])*Z_H mask, changing draw i must move exactly the commitments the protocol order predicts by exactly delta*(P_{n+e}-P_e), and proofs from disjoint scripts share no commitment or evaluation; a zero draw is a draw like any other (exactly 14 draws consumed, proof equal to M3's whenever one is produced); entropy outages of the RNG's fallible interface (3 / 8 refused try_fill_bytes calls at each draw position) leave the proof unchanged.",
      "Trusts M3 (own code, bound to the real prover by byte equality on every script), dusk-bls12_381 arithmetic and merlin. Decides the masking structure for the enumerated scripts and small circuits (n <= 64); the statistical zero-knowledge consequence is not re-proved.",
      "DESIGN.md §5 C06")

claim("C09", "model_checking",
      "deviation-bounded exhaustive exploration (E2) of the range gadget for every width x boundary value, every assignment decided by the row model M1, verdicts replayed on the real prover",
      "For every width (quick: 22 residue-class representatives incl. 0,1,254,255,256; thorough: all 0..=256), every entry point (bit-counted, deprecated bit-pair-counted, runtime seam) and every boundary value, the honest assignment and every bound-1 deviation of the gadget's own allocations (bound 2 for widths <= 12 in thorough), re-run through the real witness generator, is decided by M1: satisfiable iff canonical value < 2^w, and no deviation makes an out-of-range value satisfiable. Both entry points must emit identical gates for equal widths. Non-initial states: the composer's constant witnesses ZERO / ONE as the checked value, and a witness already range-checked to another width (every ordered pair of widths: satisfiable iff below the smaller bound). Model verdicts (honest, every model-satisfiable deviation, unsatisfiable samples per failing component) are replayed on the real prover+verifier.",
      "Trusts M1 (bound to the prover by C05) and the boundary value alphabet; adversary limited to <= 1 (2) deviating allocations with honest recomputation afterwards.",
      "DESIGN.md §5 C09")

claim("C11", "model_checking",
      "deviation-bounded exhaustive exploration (E2) of truncate / decomposition for every N x boundary value incl. all integer representatives x + k r, decided by M1, verdicts replayed on the real prover",
      "component_truncate::<N> (N = 0..=254) must be satisfiable for every input and return canonical(x) mod 2^N under the honest assignment, every bound-1 deviation and the alias split (low', high') of x + r on allocation pairs; component_decomposition::<N> (N = 1..=256) must be satisfiable iff canonical(x) < 2^N and return exactly its bits - the bit vectors of every other integer representative x + k r < 2^N (the complete adversary space given the boolean rows) must be unsatisfiable. Also: out-of-range splits (low +- 2^N, high -+ 1), the constant witnesses ZERO / ONE as inputs, inputs range-checked beforehand (conjunction of both relations) and a second application to the same witness. Model verdicts replayed on the real prover+verifier.",
      "Trusts M1 (bound to the prover by C05), the 320-bit integer spec M5, and the boundary value alphabet.",
      "DESIGN.md §5 C11")

claim("C19", "model_checking",
      "exhaustive enumeration of domain sizes x input lengths x vector families x real thread-pool sizes, and of all small polynomials / inversion vectors, real kernels vs naive definitions M4",
      "Every FFT kernel (plain/coset, forward/inverse) on every size 2^0..2^8 plus 2^12, 2^13 (thorough: 2^0..2^14), lengths {0,1,n/2,n-1,n,n+1,2n}, vector families and pools of 1..17 threads equals the O(n^2) definition (recursive reference + Horner spot checks above 2^10), is thread-count independent and is inverted by its inverse; polynomial add/sub/mul/scale/eval/ruffini agree with schoolbook arithmetic on all 85 coefficient vectors of length <= 3 over {0,1,-1,2} (all 7225 pairs); batch inversion on all 341 vectors of length <= 4; vanishing / Lagrange / barycentric / fused evaluations equal their product definitions inside and outside the domain.",
      "Trusts dusk-bls12_381 field arithmetic and the constants ROOT_OF_UNITY/GENERATOR; kernels are reached through the feature-gated wrappers dusk_plonk::verif::kernels. Thread counts are real rayon pools (task-order exploration is C18's shim). Inverse transforms of vectors longer than the domain are outside the statement (informational).",
      "DESIGN.md §5 C19")

claim("C20", "model_checking",
      "exhaustive enumeration of SRS degrees, trim sizes, polynomial lengths, opening points and batch corruptions, real KZG code vs explicit sums and pairing equations (M4)",
      "For SRS degrees 1..=8,24 (thorough 1..=24) and the large parameter set setup(8200) (thorough: 4090, 8200, 12300, 16390): P_0 = g and e(P_{i+1},h) = e(P_i,x_h) for all i; commitments of polynomials of 31..4097 (thorough ..8199) coefficients equal the explicit sum (multi-scalar-multiplication size classes); every trim size keeps a prefix of >= n+7 points or fails exactly beyond capacity; commitments equal the explicit sum, are additive, map zero to the identity and fail beyond the key degree; single, aggregated and batched openings pass iff every claimed evaluation is Horner-true (each position corrupted in turn: wrong evaluation, wrong witness, swapped commitments, point mismatch, empty and length-mismatched batches).",
      "Trusts dusk-bls12_381 group/pairing arithmetic; Fiat-Shamir collisions (~2^-250) assumed not to occur; empty aggregate is outside the statement (informational).",
      "DESIGN.md §5 C20")

claim("C03", "model_checking",
      "exhaustive enumeration of (verifier, proof, public inputs) triples - all 8064 single-bit flips, every field replacement, coordinated +T / -T cofactor-torsion shifts of commitment pairs, public-input edits, adaptive openings, cross-circuit and cross-version presentations - real verifier vs independent reference verifier M2",
      "On every enumerated triple the real Verifier::verify_with_version accepts iff the naive reference verifier M2 accepts (own transcript table, Z_H / L_1 / PI(z) from their definitions, linearisation commitment term by term, two independent pairings), and the two decoders agree on decodability; never a panic. Quick: 3 circuits x V3 (+V1 on one) with all 8064 flips, other (circuit, version) pairs one flip per byte; thorough: 6 circuits x V1/V2/V3, all flips. Vacuity gates: >= 1 accept per (circuit, version), >= 1 decodable-but-rejected flip per field.",
      "Trusts M2 (DESIGN Appendix A.2/A.3) as the statement of the protocol, dusk-bls12_381 pairings/group arithmetic and merlin. V1-accepted proofs are derived from V2 proofs by the harness because the crate cannot produce them.",
      "DESIGN.md §5 C03")

claim("C04", "model_checking",
      "exhaustive cross product of statement edits (public-input values/permutations/resizes, near-miss circuits, label edits, version pairs) on valid proofs, real verifier vs expectation derived from byte-equality of verifier descriptions and M2",
      "For circuits with 0..4 public-input rows every PI position x alternative value, every permutation, truncation and extension, every mechanically generated near-miss verifier (one selector, one wire, one PI row added/removed/moved, one constraint more/fewer), 69 label edits and every ordered version pair must be rejected with an error unless the verifier description bytes, label, version and PI vector are all identical; never a panic; proving under V1 returns UnsupportedProvingVersion.",
      "Expectation 'same description' = byte equality of Verifier::to_bytes(); version-pair expectations come from M2. One benign literal deviation (relocated zero-valued PI row) is a recorded known finding.",
      "DESIGN.md §5 C04")

claim("C10", "model_checking",
      "deviation-bounded exhaustive exploration (E2) of the AND/XOR gadget for every pair count x input pair incl. the per-operand x + r alias adversary, decided by the row model M1, verdicts replayed on the real prover",
      "For both operations, pair counts (quick: boundary set; thorough: all 0..=127) and boundary input pairs, the honest assignment, every bound-1 deviation of the gadget's allocations and the alias adversary (all accumulators/products/outputs recomputed for the integer x + r with the matching high part) are decided by M1: always satisfiable for honest inputs and every satisfying assignment returns AND/XOR of the low 2p bits of the canonical values. Also: forged product wires solved to cancel against the op identity, op(x, x) on one witness with a foreign right operand, the constant witnesses ZERO / ONE as operands, operands range-checked beforehand, a second application to the same witnesses. Model verdicts replayed on the real prover+verifier.",
      "Trusts M1 (bound to the prover by C05), the integer spec M5, and the boundary alphabet.",
      "DESIGN.md §5 C10")

claim("C17", "fault_enumeration",
      "structure-aware exhaustive byte-fault enumeration (bit flips, every length field x value set, every truncation point, extensions, field splices, hand-built invalid elements, pairs of adjacent G1 elements shifted by +T / -T (cofactor torsion), re-packed MessagePack/deflate payloads, deflate bombs) over every checked decoder, in isolated child processes with a counting allocator and watchdog",
      "Every enumerated faulted encoding of provers, verifiers, proofs, public parameters, commit keys (compressed and raw, reached through the public decoders) and compressed circuits is decoded by the real code in a build with debug assertions and overflow checks: it must return Ok or Err - no panic, abort or hang (per-case watchdog in child processes), peak allocation <= 2 x the valid peak + 1 MiB (compressed circuits: bounded by the parameters' capacity); whatever is accepted must re-encode to bytes a strict independent parser accepts (canonical scalars, on-curve prime-order points, flags in {0,1}, non-identity opening keys) and must be usable for proving / verifying / compiling without panicking.",
      "Fault depth 1 (quick) / 2 on integer fields (thorough); bulk data of large provers is strided (coverage per object and operator family is listed in the evidence). Trusts the strict parser and dusk-bls12_381 point validation predicates.",
      "DESIGN.md §5 C17")

claim("C07", "model_checking",
      "exhaustive enumeration of every public component x const-generic width x boundary value tuples (incl. malformed points), layout of each run compared with the all-zero instance; bound-1 internal deviations for totality",
      "For every public composer component, every width it accepts (quick: residue-class representatives; thorough: all widths) and every value tuple over the boundary alphabets incl. torsion / off-curve / pole-inducing coordinates and extended representations with Z = 0 or inconsistent T, the emitted layout (selectors, wiring, PI rows, counts) equals the one of the all-zero instance or the component returns Err - never a panic; bound-1 deviations inside representative gadgets neither panic nor change the layout; Compiler::compile::<C>() keys equal compile_with_circuit(&instance) keys.",
      "Values come from the boundary alphabets, not the whole field; constant parameters legitimately shape the layout and are held fixed. Runs in a build with debug assertions and overflow checks.",
      "DESIGN.md §5 C07")

claim("C08", "model_checking",
      "exhaustive enumeration of selector tuples x PI modes x wirings for the general gate (emitted row vs documented row, prover replay) and deviation-bounded exploration (E2, bound 2) of every named component over input tuples, decided by M1",
      "append_gate over all selector tuples in {0,1,-1}^6 (thorough {0,1,-1,2}^6) x {no PI, PI=0, PI=rho} x 5 wirings emits exactly the documented row (selectors kept, q_arith=1, PI row recorded even when zero); one satisfied and one violated assignment per tuple is replayed on the real prover+verifier; gate_add / gate_mul / append_evaluated_output (q_O in {1,-1,2,0}) / assert_equal / assert_equal_constant / append_constant / append_public / component_boolean / component_select(_one/_zero) over input tuples from F_s: satisfiable iff the documented relation holds, and under every bound-1 and bound-2 deviation of their own allocations every satisfying assignment returns the spec value. Also with aliased operands (one witness on several inputs), with the composer's constant witnesses ZERO / ONE as operands, and after the component was already applied to the same witnesses; constant-carrying components (append_constant, append_public, assert_equal_constant) additionally after every sequence (quick: length <= 2, thorough: <= 3) over a 12-letter alphabet of constant-carrying operations with the same and other constants, the history's allocations being adversary-controlled too.",
      "Documented relations are transcribed from each component's rustdoc; M1 (bound to the prover by C05) decides deviations; values from F_s.",
      "DESIGN.md §5 C08")

claim("C12", "model_checking",
      "deviation-bounded exploration (E2, bound 2 + solved-for forgery triples) of the curve-group components over subgroup point pairs / bits / scalars, decided by M1 against own affine Edwards arithmetic, verdicts replayed on the real prover",
      "component_add_point / sub / neg / select_identity / select_point over all ordered pairs of {O, G, 2G, -G, rho G} (incl. P+(-P), P+P, P+O), bits {0,1,2,-1}, and component_mul_point over scalars {0,1,2,r_J-1,r_J,r_J+1,2^252-1,rho,2^252,-1}: always satisfiable on subgroup inputs, every satisfying assignment (all bound-1/2 deviations, forged helper x1*y2 with x3,y3 solved from the remaining identities) returns the native group result; select_identity unsatisfiable for non-boolean bits; scalars >= 2^252 unsatisfiable. Also with aliased operands, with Composer::IDENTITY (coordinates are the constant witnesses) as an operand of every component, and after a first application to the same witnesses; every variable-base addition row of every case is attacked in each operand role the gadget allocated itself with the second root of the row's two identities (off-curve in general). mul_point generic deviations are strided (reported in the evidence).",
      "Own affine twisted-Edwards arithmetic (M5) is the group-law specification; M1 bound to the prover by C05; inputs pinned.",
      "DESIGN.md §5 C12")

claim("C13", "model_checking",
      "exhaustive (P, Q) products over subgroup points, all 8 torsion cosets, off-curve pairs and the complete on-curve preimage set of [8], through the real torsion-free gates, decided by M1; direct entry points over extended representations",
      "For P in {subgroup points} u {S + T : T in E[8] \\ {O}} u {off-curve pairs} and prover-chosen Q in {[8^-1]P + T' for all 8 T'} u {other on-curve points} u {off-curve pairs}: assert_torsion_free_gates(P, Q) (+ bound-1 deviations) is M1-satisfiable iff Q is on-curve and [8]Q = P, hence for some Q iff P is an on-curve subgroup member; append_constant_point / the generator check accept exactly members (generator: non-identity) over normal / scaled-Z / Z=0 / inconsistent-T representations and every entry point rejects Z = 0 with an error, no panic ; the coordinates append_constant_point / append_public_point allocate cannot be moved (bound-1/2 deviations, also when the point flows into a component) - on a fresh composer and after every history of valid earlier calls (constant identity / G, generator G, combinations), with off-curve neighbours that share a coordinate (or its parity) with a member among the candidates.",
      "Own affine Edwards arithmetic and torsion-point construction (M5); structural classes of P and Q, not all field pairs; inconsistent-T representations of valid points may be accepted or rejected (informational).",
      "DESIGN.md §5 C13")

claim("C14", "model_checking",
      "exhaustive enumeration of prover-chosen signed-digit vectors (single-digit deviations, same-integer rewrites, encodings of s+q, s+-r_J, s+2^253) x scalars x generators through the fixed-base seam plus bound-1 allocation deviations, decided by M1",
      "component_mul_generator and the signed-digit seam over generators {G, G_nums, rho G (Z != 1), G rescaled by -1} (the last two through the public entry point only in quick) and scalar witnesses {0,1,2,r_J-1,r_J,r_J+1,2^252-1,2^252,-1,rho}: satisfiable iff the scalar is canonical (< r_J) and the digit vector (three leading zeros) encodes it as an integer; every satisfying assignment returns [s]G; no digit vector encoding s plus a multiple of either modulus, and no bound-1 deviation of accumulators / xy_alpha / canonicity range checks, yields another point. Non-initial states: the scalar witness range-checked beforehand to 64 / 251 / 252 / 253 / 254 bits or already multiplied by the same / another generator (satisfiable iff canonical AND the history's relation holds, through the public entry point and the seam with honest and binary digits), and after every sequence of up to three earlier multiplications over four generators. Verdicts of principal vectors replayed on the real prover.",
      "Own affine Edwards arithmetic (M5) and NAF code; M1 bound to the prover by C05. Quick tier strides digit positions and allocation ordinals (reported).",
      "DESIGN.md §5 C14")

claim("C01", "model_checking",
      "breadth-first exploration of composer operation sequences (E1) and an exhaustive size sweep around every power of two, each state decided by M1 and pushed through the real pipeline on three routes",
      "Every constraint count within +-8 of 2^k (quick: full window for k <= 6, boundary sizes for k = 7..9; thorough: full window k = 3..12) in shapes {filler, PI on first user row / row c-2 / last row of a full domain / adjacent rows, custom-gate row on the last row} x SRS capacities {minimal admitting, minimal+1, ample} x 2 labels, and every E1 program (all single operations, ordered pairs, depth 3 on a reduced cheap alphabet in thorough; chained and shared operands), and the named circuits of C15 (selector values from the compressor's built-in tables, PI patterns per tuple): when M1 says the instance is satisfied, compilation, proving, the returned public-input vector and verification must all succeed on the direct, compressed and serialized routes.",
      "M1 (bound to the prover by C05) decides which states are satisfied; RNG draws scripted non-zero; sizes above 2^12 and depth > 3 not explored.",
      "DESIGN.md §5 C01")

claim("C15", "model_checking",
      "exhaustive comparison of the compressed and direct compile routes over all E1 program states / named circuits x SRS capacities, plus handcrafted boundary descriptions in a child process with a counting allocator",
      "For every E1 program state and a named list (unused witnesses, repeated / distinct selector tuples, selectors equal to the built-in table entries, zero-valued PIs, PI on first / last row) a description with 66 000 distinct selector scalars (vector headers beyond 16 bits), all 27 public-input patterns (none / non-zero / zero-valued) over three consecutive uses of one selector tuple, and transcript labels of boundary lengths (0..65536, zero / 0xff bytes) at capacities {min-1, min, min+1, ample}: Prover and Verifier bytes from compile_with_compressed equal those of direct compilation and both routes succeed or fail for exactly the same capacities; handcrafted descriptions (constraints = max / max+1, trailing bytes 1..8, each index at bound / bound-1, non-increasing PIs, witness count 1e12, announced lengths 2^31, 1 GiB deflate bomb) are accepted / rejected as specified with peak allocation <= 2 x the valid peak + 1 MiB.",
      "Own MessagePack encoder validated by byte-identical re-encoding of real descriptions; capacity rule stated independently.",
      "DESIGN.md §5 C15")

claim("C16", "model_checking",
      "exhaustive round-trip enumeration over E1 program states, boundary-size circuits, handcrafted layouts and SRS degrees; proof canonicity over all 8064 single-bit flips and hand-built non-canonical encodings",
      "For every explored circuit: Prover / Verifier encode -> decode -> encode is byte-identical and serialized_size exact; the decoded prover produces the identical proof from the same RNG script; the decoded verifier returns the same verdict on the honest proof, one flipped bit per proof field and PI edits; every decodable proof string re-encodes to itself (all 8064 flips + non-canonical scalars / points rejected); PublicParameters (checked and raw forms; degrees 1..33, around 256-point blocks, 1017..1300, thorough up to 5000) re-encode identically and compile to identical keys. Includes a layout whose multiplication selector is identically zero (polynomial lengths differ), constraint counts exactly on powers of two, and labels of boundary lengths (0..65536, zero / 0xff bytes) stored in the prover encoding.",
      "Behavioural equality observed on the listed presentations, not all proofs.",
      "DESIGN.md §5 C16")

claim("C18", "model_checking",
      "deviation-bounded exhaustive exploration of parallel-region task orders / join orders / reduction shapes / thread counts and hash-map iteration orders of the real code under controllable rayon and hashbrown shims, plus an exhaustive preemption-bounded controlled-scheduler exploration (E6) of concurrent calls through the process-wide label cache",
      "(a) [patch.crates-io] replaces rayon and hashbrown for the whole dependency graph by shims whose task order, join order, reduction shape, reported thread count and map iteration order an explorer chooses: bound 0, thread sweep {1,2,3,4,5,8,16,17,32}, whole-run policies, and bound 1 (every region / site of the 2^5 circuit x every policy; class representatives + stride on 2^9; thorough: full bound 1 on 2^9, bound 2 on 2^5, representatives on 2^10 / 2^12) over compile, prove, verify and compress: Prover / Verifier / proof / PI / compressed bytes must be identical to the canonical schedule; the shim build's reference bytes equal the real build's. (b) fresh processes (OS-random hash seeds, RAYON_NUM_THREADS), (c) real pools of 1..=17 threads on padded AND domain-filling circuits (constraints = 2^k exactly, k = 9..12) whose selectors include scalars of the compressor's pre-agreed table, (d) alloc-only build (separate workspace without std/rayon) give identical bytes; (e) E6: a controlled scheduler (one runnable thread at a time, scheduling points at operation boundaries and at the label-cache lock region hook) explores every schedule of 2-3 threads x 1-2 prove / verify / compile calls up to 2 (thorough 3) preemptions: every call returns what it returns sequentially; (f) 16 free-running threads on shared keys; (g) the 2^5 proof equals the reference prover M3.",
      "Parallel tasks are atomic for the shim explorer (safe Rust closures, no shared mutable state on these paths - the explorer re-scans the sources for static/Cell/Atomic/Mutex/unsafe and records the set); (b),(c),(f) observe OS schedules and are conformance passes, not the deciding step. Policies are a finite alphabet (identity, reverse, rotate, odd-before-even, last-first, ...), which orders every pair of tasks / entries both ways.",
      "DESIGN.md §5 C18, E5, E5b, E6")

claim("C02", "model_checking",
      "exhaustive enumeration of an adversary strategy menu (forced real prover on every violating bound-1 deviation, reference adversarial prover, copy-constraint breaks, solved-for forged evaluations for all 15 slots, all field-wise splices, degenerate proofs, adaptive z without transcript binding) over 8 base circuits x V1/V2/V3, every adversarial proof presented to the real verifier and cross-checked with the reference verifier M2",
      "S1: every M1-unsatisfied single-wire deviation (pairs in thorough) of each base circuit through the REAL prover forced past its unsatisfied-circuit check (remainder dropped); S2: the same through the reference prover M3 with drop_remainder; S3: assignments that satisfy every row but break one compiled copy constraint (every wire-column pair; a 1200-position copy class split next to every multiple of 1024 positions); S4: proofs of a violated instance with one of the 15 evaluations solved so that the linearisation balances (every slot where the identity is linear; shapes for V1, V2, V3 and for verifiers that would forget that evaluation); S5: every single-field splice, every crossover, every round group of two valid proofs; S6: all-identity / all-generator / z = 1 / identity-witness proofs and wrong PIs; S7: adaptive z(X) betting that z_comm is not absorbed. Every presentation must be rejected with an error under V2 and V3 (never accepted, never a panic); controls and trivial splices must be accepted; the real verdict must equal M2's.",
      "Decides the enumerated strategy menu on small circuits (n <= 64), not all polynomial-time adversaries. V1 (documented legacy profile) accepts forged SELECTOR evaluations: recorded known finding F5 (signature S4/forged-selector-eval/V1-accepted/*); any other acceptance is a violation. Trusts M1, M2, M3.",
      "DESIGN.md §5 C02")

ALL = [f"C{i:02d}" for i in range(1, 21)]

def main():
    here = os.path.dirname(os.path.abspath(__file__))
    root = os.path.dirname(here)
    repo_commits = subprocess.run(["git", "-C", "/repo", "log", "--format=%H %s"], capture_output=True, text=True).stdout.strip().splitlines()
    hooks = [l.split()[0] for l in repo_commits if " verif hooks:" in l or l.split(" ",1)[1].startswith("verif hooks")]
    checks = []
    for i in ALL:
        if i not in CLAIMED:
            continue
        cat, tech, text, note, ref = CLAIMED[i]
        checks.append({
            "property_id": i,
            "quick_cmd": f"./check {i} quick",
            "thorough_cmd": f"./check {i} thorough",
            "evidence_file": f"/verif/evidence/{i}.json",
            "replay_cmd_template": f"./check {i} quick --replay {{path}}",
            "engine": "vp",
            "level_claimed": {"category": cat, "text": text, "design_ref": ref},
            "level_note": note,
            "technique": tech,
        })
    na = [{"property_id": i, "reason": NOT_YET.get(i, "check not built yet in this round (planned in DESIGN.md §5); the technique applies, nothing is claimed until the check exists")} for i in ALL if i not in CLAIMED]
    m = {
        "version": 1,
        "setup_cmd": "cd /verif/harness && CARGO_NET_OFFLINE=true cargo build --offline --profile verif && cd /verif/harness-sched && CARGO_NET_OFFLINE=true cargo build --offline --profile verif && cd /verif/harness-nostd && CARGO_NET_OFFLINE=true cargo build --offline --profile verif",
        "hooks": {
            "guard": "cargo feature `verif` of dusk-plonk (off by default)",
            "enable": "the harness depends on dusk-plonk = { path = \"/repo\", features = [\"verif\", \"legacy-proving\"] }; every check rebuilds it incrementally from /repo's working tree",
            "baseline_off_cmd": "cd /repo && cargo nextest run --workspace --no-fail-fast --test-threads 8 --offline || cargo test --workspace --no-fail-fast --offline",
            "source_commits": hooks,
            "add_only": True,
        },
        "engines": [
            {"name": "vp", "path": "/verif/harness", "serves_properties": sorted(CLAIMED.keys()),
             "kind_free_text": "Rust harness: bounded exhaustive enumerators (operation sequences, raw rows, witness deviations, byte faults) executed on the real dusk-plonk code and compared case by case with independent reference models M1-M5"},
            {"name": "vp-sched", "path": "/verif/harness-sched", "serves_properties": ["C18"],
             "kind_free_text": "second cargo workspace: [patch.crates-io] rayon + hashbrown shims (virtual scheduler / controllable iteration order) and a deviation-bounded schedule explorer over the real dusk-plonk code"},
            {"name": "vp-alloc", "path": "/verif/harness-nostd", "serves_properties": ["C18"],
             "kind_free_text": "third cargo workspace: dusk-plonk built without std (alloc-only, serial code paths); emits key / proof hashes compared with the std build"},
        ],
        "checks": checks,
        "not_applicable": na,
        "notes": "Exit codes: 0 held (possibly with KNOWN-FINDING lines), 1 violation (VIOLATION lines), >=2 machinery failure (never a verdict). known_findings.json lists recorded defects and fixed entries.",
    }
    with open(os.path.join(root, "MANIFEST.json"), "w") as f:
        json.dump(m, f, indent=1)
    print("claimed:", sorted(CLAIMED.keys()))

if __name__ == "__main__":
    main()
