#!/bin/bash
# Apply a seeded property-breaking change to /repo, run the given checks
# against it, record which fired, and undo the change straight afterwards.
# usage: tools/run_seeded.sh <seeded-dir-name> <tier> <Cnn> [<Cnn> ...]
set -u
cd /verif
NAME="$1"; TIER="$2"; shift 2
DIR="/verif/seeded/$NAME"
[ -f "$DIR/patch.diff" ] || { echo "no $DIR/patch.diff"; exit 2; }
if [ -n "$(git -C /repo status --porcelain)" ]; then echo "/repo working tree is not clean"; exit 2; fi
git -C /repo apply "$DIR/patch.diff" || { echo "patch does not apply"; exit 2; }
trap 'git -C /repo checkout -- . ; rm -f /verif/replays/*.json' EXIT
mkdir -p "$DIR/runs"
RES="{"
for ID in "$@"; do
  # keep the unchanged-tree evidence: run with a scratch output dir
  OUT=$(mktemp -d /tmp/seedrun.XXXXXX); mkdir -p "$OUT/evidence" "$OUT/replays"; cp /verif/known_findings.json "$OUT/"
  VERIF_DIR="$OUT" ./check "$ID" "$TIER" > "$DIR/runs/$ID-$TIER.log" 2>&1
  CODE=$?
  NV=$(grep -c '^VIOLATION' "$DIR/runs/$ID-$TIER.log")
  echo "$NAME: $ID $TIER exit=$CODE violations=$NV"
  grep '^VIOLATION' "$DIR/runs/$ID-$TIER.log" | head -3 | sed "s#$OUT#<out>#"
  RES="$RES\"$ID/$TIER\": {\"exit\": $CODE, \"violation_lines\": $NV},"
  rm -rf "$OUT"
done
RES="${RES%,}}"
echo "$RES" > "$DIR/runs/last.json"
