#!/usr/bin/env python3
"""Rebuild the seeded-changes table in DESIGN.md from /verif/seeded/*/ (meta.json, confirm.json, runs/*.log)."""
import json, os, re, glob
root='/verif'
rows=[]
for d in sorted(glob.glob(root+'/seeded/*/')):
    name=os.path.basename(d.rstrip('/'))
    try: meta=json.load(open(d+'meta.json'))
    except Exception: continue
    conf={}
    if os.path.exists(d+'confirm.json'): conf=json.load(open(d+'confirm.json'))
    caught=[]; missed=[]
    for log in sorted(glob.glob(d+'runs/*.log')):
        m=re.match(r'(C\d+)-(quick|thorough)\.log', os.path.basename(log))
        if not m: continue
        txt=open(log,errors='replace').read()
        sigs=re.findall(r'violation \[([^\]]+)\]', txt)
        nv=len(re.findall(r'^VIOLATION', txt, re.M))
        if nv: caught.append(f"{m.group(1)} {m.group(2)} ({nv}: `{sigs[0][:70] if sigs else ''}`)")
        else: missed.append(f"{m.group(1)} {m.group(2)}")
    summ=meta.get('summary','').replace('|','/').replace('\n',' ')
    need=meta.get('needs_to_manifest','').replace('|','/').replace('\n',' ')
    if len(summ)>260: summ=summ[:257]+'...'
    if len(need)>200: need=need[:197]+'...'
    c = 'suite %s; demo fails with / passes without: %s' % (conf.get('suite_with_change','?'), 'yes' if conf.get('demo_exit_with_change',0)!=0 and conf.get('demo_exit_without_change',1)==0 else 'NOT CONFIRMED') if conf else 'not yet confirmed'
    rows.append(f"| {name} | {meta.get('property','?')} | {summ} | {need} | {c} | {'; '.join(caught) or '—'} | {'; '.join(missed) or '—'} |")
table="| seeded change | property | what it does | needs to manifest | confirmation (own scratch worktree) | caught by | not fired |\n|---|---|---|---|---|---|---|\n"+"\n".join(rows)
p=root+'/DESIGN.md'; s=open(p).read()
block="<!-- SEEDED-TABLE-BEGIN -->\n"+table+"\n<!-- SEEDED-TABLE-END -->"
if 'SEEDED_TABLE_PLACEHOLDER' in s: s=s.replace('SEEDED_TABLE_PLACEHOLDER',block)
else: s=re.sub(r'<!-- SEEDED-TABLE-BEGIN -->.*?<!-- SEEDED-TABLE-END -->', lambda m: block, s, flags=re.S)
open(p,'w').write(s)
print(table)
