//! M2 — reference verifier (DESIGN §3, Appendix A.2 / A.3).
//!
//! Deliberately naive and independent: the inputs are BYTES
//! (`Verifier::to_bytes()`, `Proof::to_bytes()`) plus the public-input vector;
//! nothing of dusk-plonk is called. Trusted base: dusk-bls12_381 field / group /
//! pairing primitives (single-element decoding included) and merlin.
//!
//! What is stated here and nowhere shared with the code under test:
//!   * the byte layouts of verifier and proof,
//!   * the Fiat-Shamir transcript as a literal table of steps (`transcript_table`),
//!   * Z_H(z), L_i(z), PI(z) from their definitions (O(n) products over the domain),
//!   * the five widget identities, the permutation term, the quotient shares,
//!   * F, E and the final check as two independent `pairing()` calls.

use dusk_bls12_381::{pairing, BlsScalar, G1Affine, G1Projective, G2Affine, ROOT_OF_UNITY, TWO_ADACITY};
use merlin::Transcript;

use crate::fe::Fe;

// ---------------------------------------------------------------------------
// Layouts
// ---------------------------------------------------------------------------

/// Order of the 15 verifier-key commitments as serialized by
/// `impl Serializable for VerifierKey` (u64 LE `n`, then these, 48 bytes each).
pub const Q_M: usize = 0;
pub const Q_L: usize = 1;
pub const Q_R: usize = 2;
pub const Q_O: usize = 3;
pub const Q_F: usize = 4;
pub const Q_C: usize = 5;
pub const Q_ARITH: usize = 6;
pub const Q_LOGIC: usize = 7;
pub const Q_RANGE: usize = 8;
pub const Q_FIXED: usize = 9;
pub const Q_VAR: usize = 10;
pub const S_SIGMA_1: usize = 11;
pub const S_SIGMA_2: usize = 12;
pub const S_SIGMA_3: usize = 13;
pub const S_SIGMA_4: usize = 14;
pub const VK_COMM_NAMES: [&str; 15] = [
    "q_m", "q_l", "q_r", "q_o", "q_f", "q_c", "q_arith", "q_logic", "q_range", "q_fixed_group_add",
    "q_variable_group_add", "s_sigma_1", "s_sigma_2", "s_sigma_3", "s_sigma_4",
];

/// Proof commitments in serialized order (48 bytes each, offsets 0..528).
pub const A_COMM: usize = 0;
pub const B_COMM: usize = 1;
pub const C_COMM: usize = 2;
pub const D_COMM: usize = 3;
pub const Z_COMM: usize = 4;
pub const T_LOW_COMM: usize = 5;
pub const T_MID_COMM: usize = 6;
pub const T_HIGH_COMM: usize = 7;
pub const T_FOURTH_COMM: usize = 8;
pub const W_Z_COMM: usize = 9;
pub const W_ZW_COMM: usize = 10;
pub const COMM_NAMES: [&str; 11] = [
    "a_comm", "b_comm", "c_comm", "d_comm", "z_comm", "t_low_comm", "t_mid_comm", "t_high_comm", "t_fourth_comm",
    "w_z_chall_comm", "w_z_chall_w_comm",
];

/// Proof evaluations in serialized order (32 bytes LE each, offsets 528..1008).
pub const A_EVAL: usize = 0;
pub const B_EVAL: usize = 1;
pub const C_EVAL: usize = 2;
pub const D_EVAL: usize = 3;
pub const A_W_EVAL: usize = 4;
pub const B_W_EVAL: usize = 5;
pub const D_W_EVAL: usize = 6;
pub const Q_ARITH_EVAL: usize = 7;
pub const Q_C_EVAL: usize = 8;
pub const Q_L_EVAL: usize = 9;
pub const Q_R_EVAL: usize = 10;
pub const S_SIGMA_1_EVAL: usize = 11;
pub const S_SIGMA_2_EVAL: usize = 12;
pub const S_SIGMA_3_EVAL: usize = 13;
/// permutation polynomial evaluated at z*omega
pub const Z_EVAL: usize = 14;
pub const EVAL_NAMES: [&str; 15] = [
    "a_eval", "b_eval", "c_eval", "d_eval", "a_w_eval", "b_w_eval", "d_w_eval", "q_arith_eval", "q_c_eval", "q_l_eval",
    "q_r_eval", "s_sigma_1_eval", "s_sigma_2_eval", "s_sigma_3_eval", "z_eval",
];

pub const PROOF_SIZE: usize = 11 * 48 + 15 * 32;
pub const N_FIELDS: usize = 26;

/// Name of proof field `f` (0..11 commitments, 11..26 evaluations).
pub fn field_name(f: usize) -> &'static str {
    if f < 11 {
        COMM_NAMES[f]
    } else {
        EVAL_NAMES[f - 11]
    }
}
/// Byte range of proof field `f`.
pub fn field_range(f: usize) -> (usize, usize) {
    if f < 11 {
        (f * 48, f * 48 + 48)
    } else {
        (528 + (f - 11) * 32, 528 + (f - 11) * 32 + 32)
    }
}
/// Field containing byte `b` of the serialized proof.
pub fn field_of_byte(b: usize) -> usize {
    if b < 528 {
        b / 48
    } else {
        11 + (b - 528) / 32
    }
}

#[derive(Clone, Debug)]
pub struct VerifierData {
    pub label: Vec<u8>,
    /// `VerifierKey::n` (number of constraints, not padded)
    pub n: usize,
    /// header field `size`
    pub size: usize,
    /// header field `constraints`
    pub constraints: usize,
    /// order: see the `Q_M .. S_SIGMA_4` constants
    pub commitments: [G1Affine; 15],
    pub g: G1Affine,
    pub h: G2Affine,
    pub x_h: G2Affine,
    pub pi_rows: Vec<usize>,
}

#[derive(Clone, Debug, PartialEq, Eq)]
pub struct ProofData {
    pub comms: [G1Affine; 11],
    pub evals: [Fe; 15],
}

#[derive(Clone, Copy, Debug, PartialEq, Eq, Hash)]
pub enum Version {
    V1,
    V2,
    V3,
}
impl Version {
    pub fn name(&self) -> &'static str {
        match self {
            Version::V1 => "V1",
            Version::V2 => "V2",
            Version::V3 => "V3",
        }
    }
}

// ---------------------------------------------------------------------------
// Decoding
// ---------------------------------------------------------------------------

fn be_u64(b: &[u8]) -> u64 {
    let mut a = [0u8; 8];
    a.copy_from_slice(&b[..8]);
    u64::from_be_bytes(a)
}
fn le_u64(b: &[u8]) -> u64 {
    let mut a = [0u8; 8];
    a.copy_from_slice(&b[..8]);
    u64::from_le_bytes(a)
}

/// A compressed G1 element: canonical x, flags consistent, on the curve and in
/// the prime-order subgroup (the identity is a valid element).
pub fn decode_g1(b: &[u8]) -> Result<G1Affine, String> {
    if b.len() != 48 {
        return Err(format!("G1 needs 48 bytes, got {}", b.len()));
    }
    let mut a = [0u8; 48];
    a.copy_from_slice(b);
    let p: Option<G1Affine> = G1Affine::from_compressed(&a).into();
    let p = p.ok_or_else(|| "G1: not a valid compressed point".to_string())?;
    if !bool::from(p.is_on_curve()) {
        return Err("G1: off curve".into());
    }
    if !bool::from(p.is_torsion_free()) {
        return Err("G1: not in the prime-order subgroup".into());
    }
    Ok(p)
}

pub fn decode_g2(b: &[u8]) -> Result<G2Affine, String> {
    if b.len() != 96 {
        return Err(format!("G2 needs 96 bytes, got {}", b.len()));
    }
    let mut a = [0u8; 96];
    a.copy_from_slice(b);
    let p: Option<G2Affine> = G2Affine::from_compressed(&a).into();
    let p = p.ok_or_else(|| "G2: not a valid compressed point".to_string())?;
    if !bool::from(p.is_on_curve()) {
        return Err("G2: off curve".into());
    }
    if !bool::from(p.is_torsion_free()) {
        return Err("G2: not in the prime-order subgroup".into());
    }
    Ok(p)
}

/// A canonical (< r) little-endian scalar.
pub fn decode_fe(b: &[u8]) -> Result<Fe, String> {
    if b.len() != 32 {
        return Err(format!("scalar needs 32 bytes, got {}", b.len()));
    }
    let mut a = [0u8; 32];
    a.copy_from_slice(b);
    let s: Option<Fe> = BlsScalar::from_bytes(&a).into();
    s.ok_or_else(|| "scalar: not canonical".to_string())
}

/// Parse `Verifier::to_bytes()`:
/// six big-endian u64 `[label_len, verifier_key_len, opening_key_len,
/// n_public_input_indexes, size, constraints]`, the label, the verifier key
/// (u64 LE `n`, 15 compressed commitments; the current encoding reserves room
/// for 20 commitments and leaves the last 240 bytes zero — they are ignored
/// here as they are by the crate's decoder), the opening key (g, h, x_h), the
/// public-input rows as big-endian u64.
pub fn parse_verifier(bytes: &[u8]) -> Result<VerifierData, String> {
    if bytes.len() < 48 {
        return Err("verifier: header truncated".into());
    }
    let label_len = be_u64(&bytes[0..]) as usize;
    let vk_len = be_u64(&bytes[8..]) as usize;
    let ok_len = be_u64(&bytes[16..]) as usize;
    let n_pi = be_u64(&bytes[24..]) as usize;
    let size = be_u64(&bytes[32..]) as usize;
    let constraints = be_u64(&bytes[40..]) as usize;
    let body = &bytes[48..];
    let need = label_len
        .checked_add(vk_len)
        .and_then(|x| x.checked_add(ok_len))
        .and_then(|x| n_pi.checked_mul(8).and_then(|y| x.checked_add(y)))
        .ok_or("verifier: length overflow")?;
    if body.len() != need {
        return Err(format!("verifier: body is {} bytes, header announces {}", body.len(), need));
    }
    if vk_len < 8 + 15 * 48 {
        return Err("verifier: verifier key too short".into());
    }
    if ok_len != 48 + 96 + 96 {
        return Err("verifier: opening key must be 240 bytes".into());
    }
    let label = body[..label_len].to_vec();
    let vk = &body[label_len..label_len + vk_len];
    let ok = &body[label_len + vk_len..label_len + vk_len + ok_len];
    let pi = &body[label_len + vk_len + ok_len..];
    let n = le_u64(&vk[0..]) as usize;
    let mut commitments = [G1Affine::identity(); 15];
    for i in 0..15 {
        commitments[i] = decode_g1(&vk[8 + 48 * i..8 + 48 * i + 48]).map_err(|e| format!("verifier key {}: {}", VK_COMM_NAMES[i], e))?;
    }
    let g = decode_g1(&ok[0..48])?;
    let h = decode_g2(&ok[48..144])?;
    let x_h = decode_g2(&ok[144..240])?;
    if bool::from(g.is_identity()) || bool::from(h.is_identity()) || bool::from(x_h.is_identity()) {
        return Err("verifier: opening key contains the identity".into());
    }
    let pi_rows = (0..n_pi).map(|i| be_u64(&pi[8 * i..]) as usize).collect();
    Ok(VerifierData { label, n, size, constraints, commitments, g, h, x_h, pi_rows })
}

/// Parse `Proof::to_bytes()`: exactly 1008 bytes, 11 compressed G1 commitments
/// then 15 canonical little-endian scalars.
pub fn parse_proof(bytes: &[u8]) -> Result<ProofData, String> {
    if bytes.len() != PROOF_SIZE {
        return Err(format!("proof must be {} bytes, got {}", PROOF_SIZE, bytes.len()));
    }
    let mut comms = [G1Affine::identity(); 11];
    for i in 0..11 {
        comms[i] = decode_g1(&bytes[48 * i..48 * i + 48]).map_err(|e| format!("{}: {}", COMM_NAMES[i], e))?;
    }
    let mut evals = [BlsScalar::zero(); 15];
    for i in 0..15 {
        evals[i] = decode_fe(&bytes[528 + 32 * i..528 + 32 * i + 32]).map_err(|e| format!("{}: {}", EVAL_NAMES[i], e))?;
    }
    Ok(ProofData { comms, evals })
}

pub fn proof_to_bytes(p: &ProofData) -> Vec<u8> {
    let mut out = Vec::with_capacity(PROOF_SIZE);
    for c in &p.comms {
        out.extend_from_slice(&c.to_compressed());
    }
    for e in &p.evals {
        out.extend_from_slice(&e.to_bytes());
    }
    out
}

// ---------------------------------------------------------------------------
// Transcript (Appendix A.2)
// ---------------------------------------------------------------------------

#[derive(Clone, Copy, Debug, PartialEq, Eq)]
pub enum Slot {
    Beta,
    Gamma,
    Alpha,
    RangeSep,
    LogicSep,
    FixedSep,
    VarSep,
    Z,
    V,
    VW,
    U,
}

/// One step of the protocol transcript.
#[derive(Clone, Debug)]
pub enum Step {
    /// absorb raw bytes
    Bytes(&'static [u8], Vec<u8>),
    /// absorb a u64 (merlin's `append_u64`)
    U64(&'static [u8], u64),
    /// absorb a compressed G1 element
    Point(&'static [u8], G1Affine),
    /// absorb a 32-byte little-endian scalar
    Scalar(&'static [u8], Fe),
    /// absorb the challenge drawn into the given slot earlier
    Echo(&'static [u8], Slot),
    /// squeeze 64 bytes, reduce wide, store into the slot
    Squeeze(&'static [u8], Slot),
}

/// The whole verifier-side transcript, in protocol order, as a literal table.
pub fn transcript_table(v: &VerifierData, p: &ProofData, pis: &[Fe], ver: Version) -> Vec<Step> {
    use Step::*;
    let c = &v.commitments;
    // V1 and V2 keep the historical seeding in which the slot labelled
    // "s_sigma_4" carries s_sigma_1 again; V3 binds all four sigma commitments.
    let sigma4_slot = match ver {
        Version::V1 | Version::V2 => c[S_SIGMA_1],
        Version::V3 => c[S_SIGMA_4],
    };
    let mut t = vec![
        Bytes(b"dom-sep", b"circuit_size".to_vec()),
        U64(b"n", v.constraints as u64),
        Point(b"q_m", c[Q_M]),
        Point(b"q_l", c[Q_L]),
        Point(b"q_r", c[Q_R]),
        Point(b"q_o", c[Q_O]),
        Point(b"q_c", c[Q_C]),
        Point(b"q_f", c[Q_F]),
        Point(b"q_arith", c[Q_ARITH]),
        Point(b"q_range", c[Q_RANGE]),
        Point(b"q_logic", c[Q_LOGIC]),
        Point(b"q_variable_group_add", c[Q_VAR]),
        Point(b"q_fixed_group_add", c[Q_FIXED]),
        Point(b"s_sigma_1", c[S_SIGMA_1]),
        Point(b"s_sigma_2", c[S_SIGMA_2]),
        Point(b"s_sigma_3", c[S_SIGMA_3]),
        Point(b"s_sigma_4", sigma4_slot),
        Bytes(b"dom-sep", b"circuit_size".to_vec()),
        U64(b"n", v.n as u64),
    ];
    for pi in pis {
        t.push(Scalar(b"pi", *pi));
    }
    let e = &p.evals;
    let k = &p.comms;
    t.extend(vec![
        Point(b"a_comm", k[A_COMM]),
        Point(b"b_comm", k[B_COMM]),
        Point(b"c_comm", k[C_COMM]),
        Point(b"d_comm", k[D_COMM]),
        Squeeze(b"beta", Slot::Beta),
        Echo(b"beta", Slot::Beta),
        Squeeze(b"gamma", Slot::Gamma),
        Point(b"z_comm", k[Z_COMM]),
        Squeeze(b"alpha", Slot::Alpha),
        Squeeze(b"range separation challenge", Slot::RangeSep),
        Squeeze(b"logic separation challenge", Slot::LogicSep),
        Squeeze(b"fixed base separation challenge", Slot::FixedSep),
        Squeeze(b"variable base separation challenge", Slot::VarSep),
        Point(b"t_low_comm", k[T_LOW_COMM]),
        Point(b"t_mid_comm", k[T_MID_COMM]),
        Point(b"t_high_comm", k[T_HIGH_COMM]),
        Point(b"t_fourth_comm", k[T_FOURTH_COMM]),
        Squeeze(b"z_challenge", Slot::Z),
        Scalar(b"a_eval", e[A_EVAL]),
        Scalar(b"b_eval", e[B_EVAL]),
        Scalar(b"c_eval", e[C_EVAL]),
        Scalar(b"d_eval", e[D_EVAL]),
        Scalar(b"s_sigma_1_eval", e[S_SIGMA_1_EVAL]),
        Scalar(b"s_sigma_2_eval", e[S_SIGMA_2_EVAL]),
        Scalar(b"s_sigma_3_eval", e[S_SIGMA_3_EVAL]),
        Scalar(b"z_eval", e[Z_EVAL]),
        Scalar(b"a_w_eval", e[A_W_EVAL]),
        Scalar(b"b_w_eval", e[B_W_EVAL]),
        Scalar(b"d_w_eval", e[D_W_EVAL]),
        Scalar(b"q_arith_eval", e[Q_ARITH_EVAL]),
        Scalar(b"q_c_eval", e[Q_C_EVAL]),
        Scalar(b"q_l_eval", e[Q_L_EVAL]),
        Scalar(b"q_r_eval", e[Q_R_EVAL]),
        Squeeze(b"v_challenge", Slot::V),
        Squeeze(b"v_w_challenge", Slot::VW),
        Point(b"w_z_chall_comm", k[W_Z_COMM]),
        Point(b"w_z_chall_w_comm", k[W_ZW_COMM]),
        Squeeze(b"u_challenge", Slot::U),
    ]);
    t
}

#[derive(Clone, Copy, Debug, PartialEq, Eq)]
pub struct Challenges {
    pub beta: Fe,
    pub gamma: Fe,
    pub alpha: Fe,
    pub range_sep: Fe,
    pub logic_sep: Fe,
    pub fixed_sep: Fe,
    pub var_sep: Fe,
    pub z: Fe,
    pub v: Fe,
    pub v_w: Fe,
    pub u: Fe,
}

impl Challenges {
    fn zeroed() -> Self {
        let z = BlsScalar::zero();
        Challenges { beta: z, gamma: z, alpha: z, range_sep: z, logic_sep: z, fixed_sep: z, var_sep: z, z, v: z, v_w: z, u: z }
    }
    fn slot(&mut self, s: Slot) -> &mut Fe {
        match s {
            Slot::Beta => &mut self.beta,
            Slot::Gamma => &mut self.gamma,
            Slot::Alpha => &mut self.alpha,
            Slot::RangeSep => &mut self.range_sep,
            Slot::LogicSep => &mut self.logic_sep,
            Slot::FixedSep => &mut self.fixed_sep,
            Slot::VarSep => &mut self.var_sep,
            Slot::Z => &mut self.z,
            Slot::V => &mut self.v,
            Slot::VW => &mut self.v_w,
            Slot::U => &mut self.u,
        }
    }
}

/// merlin wants a `'static` protocol label; labels are interned once each.
fn static_label(label: &[u8]) -> &'static [u8] {
    use std::collections::HashMap;
    use std::sync::{Mutex, OnceLock};
    static INTERN: OnceLock<Mutex<HashMap<Vec<u8>, &'static [u8]>>> = OnceLock::new();
    let m = INTERN.get_or_init(|| Mutex::new(HashMap::new()));
    let mut g = m.lock().unwrap_or_else(|e| e.into_inner());
    if let Some(s) = g.get(label) {
        return s;
    }
    let leaked: &'static [u8] = Box::leak(label.to_vec().into_boxed_slice());
    g.insert(label.to_vec(), leaked);
    leaked
}

/// Run a transcript table over a fresh merlin transcript.
pub fn run_table(label: &[u8], table: &[Step]) -> Challenges {
    let mut t = Transcript::new(static_label(label));
    let mut ch = Challenges::zeroed();
    for s in table {
        match s {
            Step::Bytes(l, b) => t.append_message(l, b),
            Step::U64(l, x) => t.append_u64(l, *x),
            Step::Point(l, p) => t.append_message(l, &p.to_compressed()),
            Step::Scalar(l, x) => t.append_message(l, &x.to_bytes()),
            Step::Echo(l, slot) => {
                let x = *ch.slot(*slot);
                t.append_message(l, &x.to_bytes())
            }
            Step::Squeeze(l, slot) => {
                let mut buf = [0u8; 64];
                t.challenge_bytes(l, &mut buf);
                *ch.slot(*slot) = BlsScalar::from_bytes_wide(&buf);
            }
        }
    }
    ch
}

pub fn challenges(v: &VerifierData, p: &ProofData, pis: &[Fe], ver: Version) -> Challenges {
    run_table(&v.label, &transcript_table(v, p, pis, ver))
}

// ---------------------------------------------------------------------------
// Domain, Z_H, L_i from their definitions
// ---------------------------------------------------------------------------

/// Size of the evaluation domain for a circuit of `n` constraints.
pub fn domain_size(n: usize) -> usize {
    n.next_power_of_two()
}

/// Generator of the multiplicative subgroup of order `size` (a power of two):
/// the 2^32-th root of unity squared down.
pub fn domain_generator(size: usize) -> Fe {
    assert!(size.is_power_of_two());
    let log = size.trailing_zeros();
    assert!(log < TWO_ADACITY);
    let mut g = ROOT_OF_UNITY;
    for _ in 0..(TWO_ADACITY - log) {
        g = g * g;
    }
    g
}

/// 1, w, w^2, .., w^(size-1)
pub fn domain_elements(size: usize) -> Vec<Fe> {
    let w = domain_generator(size);
    let mut out = Vec::with_capacity(size);
    let mut x = BlsScalar::one();
    for _ in 0..size {
        out.push(x);
        x = x * w;
    }
    out
}

/// Z_H(x) = prod_j (x - w^j)
pub fn vanishing(elems: &[Fe], x: &Fe) -> Fe {
    let mut acc = BlsScalar::one();
    for e in elems {
        acc = acc * (x - e);
    }
    acc
}

/// L_i(x) = prod_{j != i} (x - w^j) / (w^i - w^j)
pub fn lagrange(elems: &[Fe], i: usize, x: &Fe) -> Fe {
    let mut num = BlsScalar::one();
    let mut den = BlsScalar::one();
    for (j, e) in elems.iter().enumerate() {
        if j != i {
            num = num * (x - e);
            den = den * (elems[i] - e);
        }
    }
    num * den.invert().expect("distinct domain elements")
}

fn delta(f: Fe) -> Fe {
    f * (f - BlsScalar::from(1)) * (f - BlsScalar::from(2)) * (f - BlsScalar::from(3))
}

/// JubJub twisted Edwards `d` = -(10240/10241), computed here.
pub fn edwards_d() -> Fe {
    -(BlsScalar::from(10240) * BlsScalar::from(10241).invert().unwrap())
}

/// `[s]P` by own 4-bit fixed-window double-and-add over the canonical value of
/// `s` (plain group additions and doublings only; about half the cost of the
/// library's constant-time ladder, which matters for 8064-flip sweeps).
pub fn mul(p: &G1Affine, s: &Fe) -> G1Projective {
    if bool::from(p.is_identity()) || *s == BlsScalar::zero() {
        return G1Projective::identity();
    }
    let base = G1Projective::from(*p);
    let mut table = [G1Projective::identity(); 16];
    for i in 1..16 {
        table[i] = table[i - 1] + base;
    }
    let bytes = s.to_bytes(); // little-endian canonical
    let mut acc = G1Projective::identity();
    for byte in bytes.iter().rev() {
        for nib in [byte >> 4, byte & 15] {
            acc = acc.double().double().double().double();
            if nib != 0 {
                acc += table[nib as usize];
            }
        }
    }
    acc
}

// ---------------------------------------------------------------------------
// The verification equation (Appendix A.3)
// ---------------------------------------------------------------------------

/// Everything M2 computes on the way to its verdict (exposed for diagnostics).
pub struct Trace {
    pub ch: Challenges,
    pub z_h: Fe,
    pub l1: Fe,
    pub pi_z: Fe,
    pub r0: Fe,
    pub e: Fe,
    pub lhs: G1Affine,
    pub rhs: G1Affine,
    pub accept: bool,
}

pub fn verify(v: &VerifierData, p: &ProofData, pis: &[Fe], ver: Version) -> bool {
    match verify_trace(v, p, pis, ver) {
        Some(t) => t.accept,
        None => false,
    }
}

/// `None` = rejected before the equation (PI length, PI row outside the
/// domain, z in the domain).
pub fn verify_trace(v: &VerifierData, p: &ProofData, pis: &[Fe], ver: Version) -> Option<Trace> {
    let ch = challenges(v, p, pis, ver);
    verify_trace_ch(v, p, pis, ver, ch)
}

/// The verification equation evaluated under the GIVEN challenges (used by
/// the adversarial strategies that bet on a challenge not depending on some
/// proof element; `verify` always uses the protocol's own transcript).
pub fn verify_trace_ch(v: &VerifierData, p: &ProofData, pis: &[Fe], ver: Version, ch: Challenges) -> Option<Trace> {
    if pis.len() != v.pi_rows.len() {
        return None;
    }
    let n = domain_size(v.n);
    if v.pi_rows.iter().any(|r| *r >= n) {
        return None;
    }
    let elems = domain_elements(n);
    let omega = if n > 1 { elems[1] } else { BlsScalar::one() };
    let z = ch.z;
    if elems.iter().any(|e| *e == z) {
        return None;
    }
    let one = BlsScalar::one();

    // --- scalars from definitions -------------------------------------------
    let z_h = vanishing(&elems, &z);
    let mut z_n = one; // z^n by n multiplications
    for _ in 0..n {
        z_n = z_n * z;
    }
    let l1 = lagrange(&elems, 0, &z);
    let mut pi_z = BlsScalar::zero();
    for (row, val) in v.pi_rows.iter().zip(pis.iter()) {
        pi_z = pi_z + *val * lagrange(&elems, *row, &z);
    }

    let e = &p.evals;
    let (a, b, c, d) = (e[A_EVAL], e[B_EVAL], e[C_EVAL], e[D_EVAL]);
    let (a_w, b_w, d_w) = (e[A_W_EVAL], e[B_W_EVAL], e[D_W_EVAL]);
    let (q_arith_e, q_c_e, q_l_e, q_r_e) = (e[Q_ARITH_EVAL], e[Q_C_EVAL], e[Q_L_EVAL], e[Q_R_EVAL]);
    let (s1, s2, s3, z_w) = (e[S_SIGMA_1_EVAL], e[S_SIGMA_2_EVAL], e[S_SIGMA_3_EVAL], e[Z_EVAL]);
    let (alpha, beta, gamma, u, vv, vw) = (ch.alpha, ch.beta, ch.gamma, ch.u, ch.v, ch.v_w);
    let four = BlsScalar::from(4);
    let dd = edwards_d();
    let vk = &v.commitments;
    let k = &p.comms;

    // --- linearisation commitment D, term by term -----------------------------
    // arithmetic
    let mut dcm = mul(&vk[Q_M], &(a * b * q_arith_e));
    dcm = dcm + mul(&vk[Q_L], &(a * q_arith_e));
    dcm = dcm + mul(&vk[Q_R], &(b * q_arith_e));
    dcm = dcm + mul(&vk[Q_O], &(c * q_arith_e));
    dcm = dcm + mul(&vk[Q_F], &(d * q_arith_e));
    dcm = dcm + mul(&vk[Q_C], &q_arith_e);

    // range: delta(c-4d) + k*delta(b-4c) + k^2*delta(a-4b) + k^3*delta(d'-4a), times sep
    {
        let kap = ch.range_sep * ch.range_sep;
        let r = delta(c - four * d) + kap * delta(b - four * c) + kap * kap * delta(a - four * b) + kap * kap * kap * delta(d_w - four * a);
        dcm = dcm + mul(&vk[Q_RANGE], &(r * ch.range_sep));
    }
    // logic
    {
        let kap = ch.logic_sep * ch.logic_sep;
        let k2 = kap * kap;
        let k3 = k2 * kap;
        let k4 = k3 * kap;
        let aa = a_w - four * a;
        let bb = b_w - four * b;
        let ee = d_w - four * d;
        let w = c;
        let nine = BlsScalar::from(9);
        let three = BlsScalar::from(3);
        let two = BlsScalar::from(2);
        let eighteen = BlsScalar::from(18);
        let eighty_one = BlsScalar::from(81);
        let eighty_three = BlsScalar::from(83);
        let f = w * (w * (four * w - eighteen * (aa + bb) + eighty_one) + eighteen * (aa * aa + bb * bb) - eighty_one * (aa + bb) + eighty_three);
        let op = q_c_e * (nine * ee - three * (aa + bb)) + three * (aa + bb + ee) - two * f;
        let l = delta(aa) + kap * delta(bb) + k2 * delta(ee) + k3 * (w - aa * bb) + k4 * op;
        dcm = dcm + mul(&vk[Q_LOGIC], &(l * ch.logic_sep));
    }
    // fixed-base
    {
        let kap = ch.fixed_sep * ch.fixed_sep;
        let k2 = kap * kap;
        let k3 = k2 * kap;
        let bit = d_w - d - d;
        let y_alpha = bit * bit * (q_r_e - one) + one;
        let x_alpha = bit * q_l_e;
        let c0 = bit * (bit - one) * (bit + one);
        let c1 = bit * q_c_e - c;
        let c2 = a_w + a_w * c * a * b * dd - (a * y_alpha + b * x_alpha);
        let c3 = b_w - b_w * c * a * b * dd - (b * y_alpha + a * x_alpha);
        let fx = c0 + kap * c1 + k2 * c2 + k3 * c3;
        dcm = dcm + mul(&vk[Q_FIXED], &(fx * ch.fixed_sep));
    }
    // variable-base
    {
        let kap = ch.var_sep * ch.var_sep;
        let c0 = a * d - d_w;
        let c1 = (d_w + b * c) - a_w * (one + dd * d_w * b * c);
        let c2 = (b * d + a * c) - b_w * (one - dd * d_w * b * c);
        let vb = c0 + kap * c1 + kap * kap * c2;
        dcm = dcm + mul(&vk[Q_VAR], &(vb * ch.var_sep));
    }
    // permutation
    let k1 = BlsScalar::from(7);
    let k2 = BlsScalar::from(13);
    let k3 = BlsScalar::from(17);
    {
        let x = alpha * (a + beta * z + gamma) * (b + beta * k1 * z + gamma) * (c + beta * k2 * z + gamma) * (d + beta * k3 * z + gamma);
        dcm = dcm + mul(&k[Z_COMM], &(x + alpha * alpha * l1 + u));
        let y = alpha * beta * z_w * (a + beta * s1 + gamma) * (b + beta * s2 + gamma) * (c + beta * s3 + gamma);
        dcm = dcm - mul(&vk[S_SIGMA_4], &y);
    }
    // quotient shares
    {
        let t = G1Projective::from(k[T_LOW_COMM]) + mul(&k[T_MID_COMM], &z_n) + mul(&k[T_HIGH_COMM], &(z_n * z_n)) + mul(&k[T_FOURTH_COMM], &(z_n * z_n * z_n));
        dcm = dcm - t * z_h;
    }

    // --- r0 ------------------------------------------------------------------------
    let r0 = pi_z - alpha * alpha * l1 - alpha * (a + beta * s1 + gamma) * (b + beta * s2 + gamma) * (c + beta * s3 + gamma) * (d + gamma) * z_w;

    // --- F and E -------------------------------------------------------------------
    let mut vp = [one; 12]; // vp[i] = v^i
    for i in 1..12 {
        vp[i] = vp[i - 1] * vv;
    }
    let mut f = dcm;
    f = f + mul(&k[A_COMM], &vp[1]);
    f = f + mul(&k[B_COMM], &vp[2]);
    f = f + mul(&k[C_COMM], &vp[3]);
    f = f + mul(&k[D_COMM], &vp[4]);
    f = f + mul(&vk[S_SIGMA_1], &vp[5]);
    f = f + mul(&vk[S_SIGMA_2], &vp[6]);
    f = f + mul(&vk[S_SIGMA_3], &vp[7]);
    let mut ev = -r0 + vp[1] * a + vp[2] * b + vp[3] * c + vp[4] * d + vp[5] * s1 + vp[6] * s2 + vp[7] * s3;
    match ver {
        Version::V1 => {}
        Version::V2 | Version::V3 => {
            f = f + mul(&vk[Q_ARITH], &vp[8]);
            f = f + mul(&vk[Q_C], &vp[9]);
            f = f + mul(&vk[Q_L], &vp[10]);
            f = f + mul(&vk[Q_R], &vp[11]);
            ev = ev + vp[8] * q_arith_e + vp[9] * q_c_e + vp[10] * q_l_e + vp[11] * q_r_e;
        }
    }
    f = f + mul(&k[A_COMM], &(u * vw));
    f = f + mul(&k[B_COMM], &(u * vw * vw));
    f = f + mul(&k[D_COMM], &(u * vw * vw * vw));
    ev = ev + u * z_w + u * vw * a_w + u * vw * vw * b_w + u * vw * vw * vw * d_w;

    // --- pairing check ----------------------------------------------------------------
    let lhs = G1Projective::from(k[W_Z_COMM]) + mul(&k[W_ZW_COMM], &u);
    let rhs = mul(&k[W_Z_COMM], &z) + mul(&k[W_ZW_COMM], &(u * z * omega)) + f - mul(&v.g, &ev);
    let lhs = G1Affine::from(lhs);
    let rhs = G1Affine::from(rhs);
    let left = pairing(&lhs, &v.x_h);
    let right = pairing(&rhs, &v.h);
    let accept = left == right;
    Some(Trace { ch, z_h, l1, pi_z, r0, e: ev, lhs, rhs, accept })
}

/// Sanity of M2's own helpers against the trusted primitives; a failure is a
/// machinery error of the harness, never a verdict.
pub fn selfcheck() -> Result<(), String> {
    let mut rho = crate::fe::Rho::new(7, 7);
    let g = G1Affine::generator();
    let mut scalars = vec![BlsScalar::zero(), BlsScalar::one(), -BlsScalar::one(), BlsScalar::from(16), BlsScalar::from(0xf0)];
    for _ in 0..6 {
        scalars.push(rho.next_fe());
    }
    let p = G1Affine::from(G1Projective::from(g) * rho.next_fe());
    for s in &scalars {
        for pt in [g, p, G1Affine::identity()] {
            if G1Affine::from(mul(&pt, s)) != G1Affine::from(G1Projective::from(pt) * *s) {
                return Err("m2::mul disagrees with the library scalar multiplication".into());
            }
        }
    }
    for size in [1usize, 2, 8, 64, 512] {
        let w = domain_generator(size);
        let mut x = BlsScalar::one();
        for i in 0..size {
            if i > 0 && x == BlsScalar::one() {
                return Err(format!("domain generator for size {} has smaller order", size));
            }
            x = x * w;
        }
        if x != BlsScalar::one() {
            return Err(format!("domain generator for size {} is not a {}-th root of unity", size, size));
        }
    }
    // d = -(10240/10241) is a JubJub curve constant: the generator satisfies -u^2 + v^2 = 1 + d u^2 v^2
    let ga = dusk_jubjub::JubJubAffine::from(dusk_jubjub::GENERATOR_EXTENDED);
    let (u, v) = (ga.get_u(), ga.get_v());
    if v * v - u * u != BlsScalar::one() + edwards_d() * u * u * v * v {
        return Err("edwards_d does not satisfy the curve equation on the JubJub generator".into());
    }
    Ok(())
}


/// Challenges as a verifier would derive them if it drew `u` BEFORE absorbing
/// the two opening-witness commitments (a transcript-ordering mistake that no
/// honest proof can reveal, because the prover never uses `u`).
pub fn challenges_u_before_openings(v: &VerifierData, p: &ProofData, pis: &[Fe], ver: Version) -> Challenges {
    let mut t = transcript_table(v, p, pis, ver);
    // ... Point(w_z), Point(w_zw), Squeeze(u)  ->  ... Squeeze(u)
    let n = t.len();
    let u = t.remove(n - 1);
    t.truncate(n - 3);
    t.push(u);
    run_table(&v.label, &t)
}

/// Replace the two opening witnesses of `p` so that the verification equation
/// holds under the given challenges whatever the rest of the proof claims:
/// with W_zw = T and W_z = -u T the left pairing input vanishes and
/// T = P / (u z (1 - w)) cancels the right one (P = F - E G).
pub fn forge_openings(v: &VerifierData, p: &ProofData, pis: &[Fe], ver: Version, ch: Challenges) -> Option<ProofData> {
    let mut q = p.clone();
    q.comms[W_Z_COMM] = G1Affine::identity();
    q.comms[W_ZW_COMM] = G1Affine::identity();
    let t = verify_trace_ch(v, &q, pis, ver, ch)?;
    // with identity openings rhs = P
    let n = domain_size(v.n);
    let elems = domain_elements(n);
    let omega = if n > 1 { elems[1] } else { BlsScalar::one() };
    let den = ch.u * ch.z * (BlsScalar::one() - omega);
    let den_inv: Option<Fe> = den.invert().into();
    let den_inv = den_inv?;
    let tt = G1Projective::from(t.rhs) * den_inv;
    q.comms[W_ZW_COMM] = G1Affine::from(tt);
    q.comms[W_Z_COMM] = G1Affine::from(-(tt * ch.u));
    Some(q)
}


/// A non-zero point of E(F_p) in the cofactor torsion (order dividing h, outside
/// G1): [r]P for the first curve point P with a small x-coordinate that is not in the
/// prime-order subgroup. Adding it to one commitment and subtracting it from another
/// gives two byte strings that are each outside G1 while their sum is inside.
pub fn cofactor_torsion_point() -> Option<G1Projective> {
    use crate::fe::U320;
    for x in 1u64..400 {
        for sign in [0u8, 0x20] {
            let mut b = [0u8; 48];
            b[40..48].copy_from_slice(&x.to_be_bytes());
            b[0] |= 0x80 | sign;
            let p = G1Affine::from_compressed_unchecked(&b);
            if !bool::from(p.is_some()) {
                continue;
            }
            let p = p.unwrap();
            if !bool::from(p.is_on_curve()) || bool::from(p.is_torsion_free()) {
                continue;
            }
            let r = U320::modulus();
            let mut acc = G1Projective::identity();
            for i in (0..255).rev() {
                acc = acc.double();
                if r.bit(i) == 1 {
                    acc = acc + G1Projective::from(p);
                }
            }
            if !bool::from(acc.is_identity()) {
                return Some(acc);
            }
        }
    }
    None
}
