//! m2 — reference model (to be written)
