//! Minimal MessagePack model of a compressed circuit description (own encoder
//! and decoder; validated by requiring that re-encoding every description the
//! real `Circuit::compress` produces is byte-identical) and deflate helpers.

#[derive(Clone, Debug, PartialEq, Eq)]
pub struct Desc {
    pub hades: bool,
    pub pis: Vec<u64>,
    pub witnesses: u64,
    pub scalars: Vec<[u8; 32]>,
    pub polys: Vec<[u64; 11]>,
    pub cons: Vec<[u64; 5]>,
}

pub fn put_uint(o: &mut Vec<u8>, v: u64) {
    if v <= 127 {
        o.push(v as u8);
    } else if v <= 0xff {
        o.push(0xcc);
        o.push(v as u8);
    } else if v <= 0xffff {
        o.push(0xcd);
        o.extend_from_slice(&(v as u16).to_be_bytes());
    } else if v <= 0xffff_ffff {
        o.push(0xce);
        o.extend_from_slice(&(v as u32).to_be_bytes());
    } else {
        o.push(0xcf);
        o.extend_from_slice(&v.to_be_bytes());
    }
}
pub fn put_array_hdr(o: &mut Vec<u8>, n: u64) {
    if n <= 15 {
        o.push(0x90 | n as u8);
    } else if n <= 0xffff {
        o.push(0xdc);
        o.extend_from_slice(&(n as u16).to_be_bytes());
    } else {
        o.push(0xdd);
        o.extend_from_slice(&(n as u32).to_be_bytes());
    }
}

/// Overrides of the announced array lengths (index 0..4: pis, scalars, polys, cons).
#[derive(Clone, Copy, Default, Debug)]
pub struct Announce {
    pub lens: [Option<u64>; 4],
    /// force the 5-byte array32 header even for small lengths
    pub wide: bool,
}

fn hdr(o: &mut Vec<u8>, real: usize, ann: &Announce, k: usize) {
    let n = ann.lens[k].unwrap_or(real as u64);
    if ann.wide || ann.lens[k].map(|v| v > 0xffff).unwrap_or(false) {
        o.push(0xdd);
        o.extend_from_slice(&(n as u32).to_be_bytes());
    } else {
        put_array_hdr(o, n);
    }
}

impl Desc {
    pub fn encode_with(&self, ann: &Announce) -> Vec<u8> {
        let mut o = Vec::new();
        o.push(if self.hades { 0xc3 } else { 0xc2 });
        hdr(&mut o, self.pis.len(), ann, 0);
        for p in &self.pis {
            put_uint(&mut o, *p);
        }
        put_uint(&mut o, self.witnesses);
        hdr(&mut o, self.scalars.len(), ann, 1);
        for s in &self.scalars {
            for b in s {
                put_uint(&mut o, *b as u64);
            }
        }
        hdr(&mut o, self.polys.len(), ann, 2);
        for p in &self.polys {
            for v in p {
                put_uint(&mut o, *v);
            }
        }
        hdr(&mut o, self.cons.len(), ann, 3);
        for c in &self.cons {
            for v in c {
                put_uint(&mut o, *v);
            }
        }
        o
    }
    pub fn encode(&self) -> Vec<u8> {
        self.encode_with(&Announce::default())
    }

    /// Lenient structural decode (accepts every uint width, as msgpacker does).
    pub fn decode(b: &[u8]) -> Result<Desc, String> {
        let mut r = R { b, i: 0 };
        let hades = match r.byte()? {
            0xc3 => true,
            0xc2 => false,
            _ => return Err("bool tag".into()),
        };
        let n = r.array()?;
        let mut pis = vec![];
        for _ in 0..n {
            pis.push(r.uint()?);
        }
        let witnesses = r.uint()?;
        let n = r.array()?;
        let mut scalars = vec![];
        for _ in 0..n {
            let mut s = [0u8; 32];
            for k in 0..32 {
                let v = r.uint8()?;
                s[k] = v;
            }
            scalars.push(s);
        }
        let n = r.array()?;
        let mut polys = vec![];
        for _ in 0..n {
            let mut p = [0u64; 11];
            for k in 0..11 {
                p[k] = r.uint()?;
            }
            polys.push(p);
        }
        let n = r.array()?;
        let mut cons = vec![];
        for _ in 0..n {
            let mut c = [0u64; 5];
            for k in 0..5 {
                c[k] = r.uint()?;
            }
            cons.push(c);
        }
        if r.i != b.len() {
            return Err("trailing bytes".into());
        }
        Ok(Desc { hades, pis, witnesses, scalars, polys, cons })
    }
}

struct R<'a> {
    b: &'a [u8],
    i: usize,
}
impl<'a> R<'a> {
    fn byte(&mut self) -> Result<u8, String> {
        let v = *self.b.get(self.i).ok_or("eof")?;
        self.i += 1;
        Ok(v)
    }
    fn take(&mut self, n: usize) -> Result<&'a [u8], String> {
        if self.i + n > self.b.len() {
            return Err("eof".into());
        }
        let s = &self.b[self.i..self.i + n];
        self.i += n;
        Ok(s)
    }
    fn uint(&mut self) -> Result<u64, String> {
        let t = self.byte()?;
        Ok(match t {
            0..=0x7f => t as u64,
            0xcc => self.byte()? as u64,
            0xcd => u16::from_be_bytes(self.take(2)?.try_into().unwrap()) as u64,
            0xce => u32::from_be_bytes(self.take(4)?.try_into().unwrap()) as u64,
            0xcf => u64::from_be_bytes(self.take(8)?.try_into().unwrap()),
            _ => return Err("uint tag".into()),
        })
    }
    fn uint8(&mut self) -> Result<u8, String> {
        let t = self.byte()?;
        Ok(match t {
            0..=0x7f => t,
            0xcc => self.byte()?,
            _ => return Err("u8 tag".into()),
        })
    }
    fn array(&mut self) -> Result<usize, String> {
        let t = self.byte()?;
        Ok(match t {
            0x90..=0x9f => (t & 0x0f) as usize,
            0xdc => u16::from_be_bytes(self.take(2)?.try_into().unwrap()) as usize,
            0xdd => {
                let n = u32::from_be_bytes(self.take(4)?.try_into().unwrap()) as usize;
                if n > self.b.len() {
                    return Err("announced length exceeds data".into());
                }
                n
            }
            _ => return Err("array tag".into()),
        })
    }
}

pub fn deflate(b: &[u8]) -> Vec<u8> {
    miniz_oxide::deflate::compress_to_vec(b, 6)
}
pub fn inflate(b: &[u8], limit: usize) -> Result<Vec<u8>, String> {
    miniz_oxide::inflate::decompress_to_vec_with_limit(b, limit).map_err(|e| format!("{:?}", e.status))
}

/// Deflate stream inflating to `n` zero bytes (built without holding `n`
/// bytes: zeros are fed in 1 MiB pieces through the streaming compressor).
pub fn zero_bomb(n: usize) -> Vec<u8> {
    use miniz_oxide::deflate::core::{compress, create_comp_flags_from_zip_params, CompressorOxide, TDEFLFlush, TDEFLStatus};
    let mut c = CompressorOxide::new(create_comp_flags_from_zip_params(6, 0, 0));
    let chunk = vec![0u8; 1 << 20];
    let mut out = Vec::new();
    let mut buf = vec![0u8; 1 << 16];
    let mut left = n;
    loop {
        let take = left.min(chunk.len());
        let flush = if take == left { TDEFLFlush::Finish } else { TDEFLFlush::None };
        let mut inp = &chunk[..take];
        loop {
            let (st, used, wrote) = compress(&mut c, inp, &mut buf, flush);
            out.extend_from_slice(&buf[..wrote]);
            inp = &inp[used..];
            match st {
                TDEFLStatus::Done => return out,
                TDEFLStatus::Okay => {
                    if inp.is_empty() && flush == TDEFLFlush::None {
                        break;
                    }
                }
                _ => panic!("deflate failed"),
            }
        }
        left -= take;
    }
}

/// Strict validation of an inflated description against the capacity limits:
/// structure, collection sizes, index bounds, canonical scalars, strictly
/// increasing public-input rows.
pub fn strict_desc(inner: &[u8], max_constraints: u64, hades_base: u64) -> Result<Desc, (&'static str, String)> {
    let d = Desc::decode(inner).map_err(|e| ("structure", e))?;
    let base = if d.hades { hades_base } else { 3 };
    if d.cons.len() as u64 > max_constraints {
        return Err(("count-over-limit", format!("constraints {}", d.cons.len())));
    }
    if d.polys.len() as u64 > max_constraints {
        return Err(("count-over-limit", format!("polynomials {}", d.polys.len())));
    }
    if d.pis.len() as u64 > max_constraints {
        return Err(("count-over-limit", format!("public inputs {}", d.pis.len())));
    }
    if d.scalars.len() as u64 > max_constraints * 11 {
        return Err(("count-over-limit", format!("scalars {}", d.scalars.len())));
    }
    for s in &d.scalars {
        if !super::fmt::scalar_canonical(s) {
            return Err(("scalar-ge-r", "scalars".into()));
        }
    }
    let scalar_count = base + d.scalars.len() as u64;
    for (i, p) in d.pis.iter().enumerate() {
        if *p >= d.cons.len() as u64 {
            return Err(("index-out-of-range", format!("public_inputs[{}]={}", i, p)));
        }
        if i > 0 && d.pis[i - 1] >= *p {
            return Err(("public-inputs-not-increasing", format!("public_inputs[{}]", i)));
        }
    }
    for (i, p) in d.polys.iter().enumerate() {
        for (k, v) in p.iter().enumerate() {
            if *v >= scalar_count {
                return Err(("index-out-of-range", format!("polynomials[{}].selector{}={}", i, k, v)));
            }
        }
    }
    for (i, c) in d.cons.iter().enumerate() {
        if c[0] >= d.polys.len() as u64 {
            return Err(("index-out-of-range", format!("constraints[{}].polynomial={}", i, c[0])));
        }
        for k in 1..5 {
            if c[k] >= d.witnesses {
                return Err(("index-out-of-range", format!("constraints[{}].wire{}={}", i, k, c[k])));
            }
        }
    }
    Ok(d)
}
