//! Execution of one case: decoder under the totality / allocation / time
//! oracle, then the acceptance side (strict re-parse of the re-encoding, use).

use std::cell::RefCell;
use std::panic::{catch_unwind, AssertUnwindSafe};
use std::time::Instant;

use dusk_bytes::{DeserializableSlice, Serializable};
use dusk_plonk::prelude::*;
use serde_json::{json, Value};

use super::alloc;
use super::cases::{apply, Case};
use super::fmt::{self, Class, Defect};
use super::mp;
use super::world::{World, LABEL};
use crate::fe::seed;
use crate::rng::ScriptedRng;

/// Any single decode may not hold more than this (requests beyond are refused -> abort -> caught by the parent).
pub const HARD_CAP: usize = 1 << 30;

thread_local! {
    pub static LAST_PANIC: RefCell<String> = const { RefCell::new(String::new()) };
}

pub fn install_recording_hook() {
    std::panic::set_hook(Box::new(|info| {
        let loc = info.location().map(|l| format!("{}:{}", l.file(), l.line())).unwrap_or_default();
        let _ = LAST_PANIC.try_with(|l| {
            if let Ok(mut l) = l.try_borrow_mut() {
                *l = loc;
            }
        });
    }));
}
fn last_loc() -> String {
    LAST_PANIC.with(|l| std::mem::take(&mut *l.borrow_mut()))
}

#[derive(Clone, Debug)]
pub struct Limits {
    /// per class (index = Class as usize order of Class::all()): baseline peak bytes / slowest valid decode in us
    pub peak: [usize; 5],
    pub slow_us: [u64; 5],
}
impl Limits {
    pub fn alloc_bound(&self, c: Class) -> usize {
        2 * self.peak[ci(c)] + (1 << 20)
    }
    pub fn time_bound_us(&self, c: Class) -> u64 {
        10 * self.slow_us[ci(c)] + 1_000_000
    }
    pub fn to_json(&self) -> Value {
        json!({"peak": self.peak, "slow_us": self.slow_us})
    }
}
pub fn ci(c: Class) -> usize {
    Class::all().iter().position(|x| *x == c).unwrap()
}

pub enum Decoded {
    Prover(Prover),
    Verifier(Verifier),
    Proof(Proof),
    Pp(PublicParameters),
    Cc(Prover, Verifier),
}

fn norm_err(s: &str) -> String {
    let cut = s.find(" {").unwrap_or(s.len());
    let mut o = String::new();
    let mut prev_digit = false;
    for ch in s[..cut].chars() {
        if ch.is_ascii_digit() {
            if !prev_digit {
                o.push('#');
            }
            prev_digit = true;
        } else {
            o.push(ch);
            prev_digit = false;
        }
    }
    o
}
fn err_kind(e: &Error) -> String {
    norm_err(&format!("{:?}", e))
}

pub fn decode(w: &World, class: Class, bytes: &[u8]) -> Result<Decoded, String> {
    match class {
        Class::Prover => Prover::try_from_bytes(bytes).map(Decoded::Prover).map_err(|e| err_kind(&e)),
        Class::Verifier => Verifier::try_from_bytes(bytes).map(Decoded::Verifier).map_err(|e| err_kind(&e)),
        Class::Proof => {
            let a = Proof::from_slice(bytes).map_err(|e| norm_err(&format!("{:?}", e)));
            if bytes.len() == Proof::SIZE {
                let arr: [u8; Proof::SIZE] = bytes.try_into().unwrap();
                let b = Proof::from_bytes(&arr);
                if a.is_ok() != b.is_ok() {
                    return Err("DISAGREE:from_slice-vs-from_bytes".into());
                }
            }
            a.map(Decoded::Proof)
        }
        Class::Pp => PublicParameters::from_slice(bytes).map(Decoded::Pp).map_err(|e| err_kind(&e)),
        Class::Cc => Compiler::compile_with_compressed(&w.pp, LABEL, bytes).map(|(p, v)| Decoded::Cc(p, v)).map_err(|e| err_kind(&e)),
    }
}

impl Limits {
    pub fn measure(w: &World) -> Limits {
        let mut peak = [0usize; 5];
        let mut slow = [0u64; 5];
        let mut one = |class: Class, bytes: &[u8]| {
            for _ in 0..3 {
                let t = Instant::now();
                let (r, p, _) = alloc::measure_capped(HARD_CAP, || decode(w, class, bytes).is_ok());
                let us = t.elapsed().as_micros() as u64;
                assert_eq!(r, Ok(true), "valid {} decodes", class.name());
                peak[ci(class)] = peak[ci(class)].max(p);
                slow[ci(class)] = slow[ci(class)].max(us);
            }
        };
        for o in &w.objs {
            one(o.class, &o.bytes);
        }
        one(Class::Cc, &w.cc_max);
        Limits { peak, slow_us: slow }
    }
}

#[derive(Clone, Debug, Default)]
pub struct Res {
    /// ok | err | panic (decoder); the parent may overwrite with abort / hang
    pub outcome: String,
    pub err: String,
    pub peak: usize,
    pub us: u64,
    /// whole case (decode + acceptance side), microseconds
    pub total_us: u64,
    pub nontrivial: bool,
    /// acceptance side ran (decoder returned Ok)
    pub accepted: bool,
    pub strict_ok: bool,
    pub use_: String,
    /// (signature, description)
    pub viol: Vec<(String, String)>,
}
impl Res {
    pub fn to_json(&self) -> Value {
        json!({"o": self.outcome, "e": self.err, "pk": self.peak, "us": self.us, "t": self.total_us, "nt": self.nontrivial, "acc": self.accepted, "st": self.strict_ok, "use": self.use_,
            "v": self.viol.iter().map(|(a, b)| json!([a, b])).collect::<Vec<_>>()})
    }
    pub fn from_json(v: &Value) -> Option<Res> {
        Some(Res {
            outcome: v["o"].as_str()?.to_string(),
            err: v["e"].as_str()?.to_string(),
            peak: v["pk"].as_u64()? as usize,
            us: v["us"].as_u64()?,
            total_us: v["t"].as_u64().unwrap_or(0),
            nontrivial: v["nt"].as_bool()?,
            accepted: v["acc"].as_bool()?,
            strict_ok: v["st"].as_bool()?,
            use_: v["use"].as_str()?.to_string(),
            viol: v["v"].as_array()?.iter().filter_map(|p| Some((p[0].as_str()?.to_string(), p[1].as_str()?.to_string()))).collect(),
        })
    }
    /// observation without timing (replay comparison)
    pub fn stable(&self) -> String {
        format!("{}|{}|{}|{}|{}|{:?}", self.outcome, self.err, self.accepted, self.strict_ok, self.use_, self.viol.iter().map(|v| &v.0).collect::<Vec<_>>())
    }
}

/// What is wrong with an input according to the own strict parser.
pub fn diagnose(w: &World, class: Class, bytes: &[u8]) -> Option<(&'static str, String)> {
    match class {
        Class::Cc => match mp::inflate(bytes, w.cc_limit) {
            Err(_) => Some(("stream", "inflate".to_string())),
            Ok(inner) => match mp::strict_desc(&inner, w.max_constraints as u64, super::cases::hades_base()) {
                Ok(_) => None,
                Err((k, _)) => Some(("inner", k.to_string())),
            },
        },
        _ => match fmt::strict(class, bytes) {
            Ok(_) => None,
            Err(d) => Some((d.section, d.kind.to_string())),
        },
    }
}

/// Stable token for a panic location: path below `src/` without the line number.
pub fn loc_token(loc: &str) -> String {
    let file = loc.rsplitn(2, ':').nth(1).unwrap_or(loc);
    let krate = file.split("/src/").next().and_then(|p| p.rsplit('/').next()).unwrap_or("");
    let below = file.split("/src/").nth(1).unwrap_or(file);
    let krate = krate.split('-').next().unwrap_or(krate);
    if krate.is_empty() || krate == "repo" {
        below.to_string()
    } else {
        format!("{}:{}", krate, below)
    }
}

/// Signature: the own diagnosis of the input when it names an ill-formed element, else the
/// mutated section + operator family (+ panic location, so distinct panics stay distinct).
fn sig_for(w: &World, class: Class, bytes: &[u8], section: &str, fam: &str, outcome: &str, loc: &str) -> String {
    match diagnose(w, class, bytes) {
        Some((sec, kind)) if kind != "structure" && kind != "inflate" => format!("{}/{}/{}/{}", class.name(), sec, kind, outcome),
        _ if loc.is_empty() => format!("{}/{}/{}/{}", class.name(), section, fam, outcome),
        _ => format!("{}/{}/{}/{}@{}", class.name(), section, fam, outcome, loc_token(loc)),
    }
}

fn defect_str(d: &Defect) -> String {
    format!("{} at {} (offset {})", d.kind, d.path, d.off)
}

/// Run one input through decoder + oracles. `circ` selects the context for the use phase.
pub fn run_bytes(w: &World, lim: &Limits, class: Class, circ: usize, bytes: &[u8], section: &str, fam: &str) -> Res {
    let mut res = Res::default();
    // ---- decoder under the totality / allocation / time oracle
    let _ = last_loc();
    let t = Instant::now();
    let (r, peak, _n) = alloc::measure_capped(HARD_CAP, || decode(w, class, bytes));
    res.us = t.elapsed().as_micros() as u64;
    res.peak = peak;
    let decoded = match r {
        Err(msg) => {
            let loc = last_loc();
            res.outcome = "panic".into();
            res.err = format!("{} @ {}", msg, loc);
            res.nontrivial = true;
            let sig = sig_for(w, class, bytes, section, fam, "panic", &loc);
            res.viol.push((sig, format!("decoder panicked: {} @ {}", msg, loc)));
            None
        }
        Ok(Err(e)) => {
            res.outcome = "err".into();
            res.err = e.clone();
            if e.starts_with("DISAGREE") {
                res.viol.push((format!("{}/{}/{}/inconsistent", class.name(), section, fam), e.clone()));
            }
            res.nontrivial = match class {
                Class::Cc => mp::inflate(bytes, w.cc_limit).ok().and_then(|i| mp::Desc::decode(&i).ok()).is_some(),
                _ => !(e.starts_with("NotEnoughBytes") || e.contains("BadLength")),
            };
            None
        }
        Ok(Ok(d)) => {
            res.outcome = "ok".into();
            res.nontrivial = true;
            Some(d)
        }
    };
    if res.us > lim.time_bound_us(class) {
        // scheduling noise on a loaded machine is not a hang: a genuine one reproduces
        for _ in 0..2 {
            let t = Instant::now();
            let _ = alloc::measure_capped(HARD_CAP, || decode(w, class, bytes).is_ok());
            res.us = res.us.min(t.elapsed().as_micros() as u64);
        }
    }
    if res.us > lim.time_bound_us(class) {
        let sig = sig_for(w, class, bytes, section, fam, "hang", "");
        res.viol.push((sig, format!("decode took {} us, bound {} us", res.us, lim.time_bound_us(class))));
    }
    if res.peak > lim.alloc_bound(class) {
        let sig = sig_for(w, class, bytes, section, fam, "overalloc", "");
        res.viol.push((sig, format!("peak allocation {} bytes for a {}-byte input, bound {} bytes", res.peak, bytes.len(), lim.alloc_bound(class))));
    }
    let Some(decoded) = decoded else { return res };
    // the acceptance side runs under the allocation cap too (a request beyond it aborts the
    // child, which the parent reports), so a hostile accepted value cannot exhaust the machine
    let (r, _, _) = alloc::measure_capped(4 * HARD_CAP, || accept(w, class, circ, bytes, section, fam, decoded, &mut res));
    if let Err(msg) = r {
        res.viol.push((format!("{}/{}/{}/use-panic@{}", class.name(), section, fam, loc_token(&last_loc())), format!("acceptance side panicked: {}", msg)));
    }
    res
}

#[allow(clippy::too_many_arguments)]
fn accept(w: &World, class: Class, circ: usize, bytes: &[u8], section: &str, fam: &str, decoded: Decoded, res: &mut Res) {
    let c = &w.circs[circ];
    let mut res = res;
    // ---- acceptance side
    res.accepted = true;
    res.strict_ok = true;
    let cname = class.name();
    // the accepted INPUT itself must consist of well-formed elements (a decoder
    // that silently normalises a non-canonical element would re-encode cleanly)
    if class != Class::Cc {
        if let Err(d) = fmt::strict(class, bytes) {
            if d.kind != "structure" {
                res.strict_ok = false;
                res.viol.push((format!("{}/{}/{}/input-accepted", cname, d.section, d.kind), format!("the decoder accepted an input containing an ill-formed element: {}", defect_str(&d))));
            }
        }
    }
    let strict_fail = |res: &mut Res, what: &str, class_of: Class, re: &[u8], raw: bool| {
        let r = if raw { fmt::layout_pp_raw(re).and_then(|l| fmt::check_elements(&l, re)) } else { fmt::strict(class_of, re).map(|_| ()) };
        if let Err(d) = r {
            res.strict_ok = false;
            if d.kind == "structure" {
                // what does the crate's own decoder say about the re-encoding?
                let own = match catch_unwind(AssertUnwindSafe(|| decode(w, class_of, re).map(|_| ()))) {
                    Ok(Ok(())) => "Ok".to_string(),
                    Ok(Err(e)) => format!("Err({})", e),
                    Err(_) => "panic".to_string(),
                };
                res.viol.push((
                    format!("{}/{}/reencode-unparseable/accepted", cname, what),
                    format!("accepted value re-encodes ({}, {} bytes) to bytes the strict parser cannot parse: {}; the crate's own decoder on the re-encoding: {}", what, re.len(), defect_str(&d), own),
                ));
            } else {
                res.viol.push((format!("{}/{}/{}/accepted", cname, d.section, d.kind), format!("accepted value contains an ill-formed element ({} re-encoding): {}", what, defect_str(&d))));
            }
        }
    };
    let reenc_panic = |res: &mut Res, what: &str, msg: String| {
        res.strict_ok = false;
        let loc = last_loc();
        res.viol.push((format!("{}/{}/{}/reencode-panic@{}", cname, section, fam, loc_token(&loc)), format!("{} panicked: {} @ {}", what, msg, loc)));
    };
    let use_panic = |res: &mut Res, what: &str, msg: String| {
        let loc = last_loc();
        res.use_ = format!("{}-panic", what);
        res.viol.push((format!("{}/{}/{}/use-panic@{}", cname, section, fam, loc_token(&loc)), format!("{} with the accepted value panicked: {} @ {}", what, msg, loc)));
    };
    let prove_with = |res: &mut Res, p: &Prover, v: &Verifier| {
        let mut rng = ScriptedRng::base(seed(), 4242);
        match catch_unwind(AssertUnwindSafe(|| p.prove(&mut rng, &c.prog))) {
            Err(e) => use_panic(res, "prove", crate::par::panic_msg(e)),
            Ok(Err(e)) => res.use_ = format!("prove-err:{}", err_kind(&e)),
            Ok(Ok((proof, pis))) => match catch_unwind(AssertUnwindSafe(|| v.verify(&proof, &pis))) {
                Err(e) => use_panic(res, "verify", crate::par::panic_msg(e)),
                Ok(Ok(())) => res.use_ = "prove-ok:verified".into(),
                Ok(Err(e)) => res.use_ = format!("prove-ok:rejected:{}", err_kind(&e)),
            },
        }
    };
    match decoded {
        Decoded::Prover(p) => {
            match catch_unwind(AssertUnwindSafe(|| p.to_bytes())) {
                Err(e) => reenc_panic(&mut res, "Prover::to_bytes", crate::par::panic_msg(e)),
                Ok(re) => strict_fail(&mut res, "to_bytes", Class::Prover, &re, false),
            }
            prove_with(&mut res, &p, &c.verifier);
        }
        Decoded::Verifier(v) => {
            let mut pi_count = c.pis.len();
            match catch_unwind(AssertUnwindSafe(|| v.to_bytes())) {
                Err(e) => reenc_panic(&mut res, "Verifier::to_bytes", crate::par::panic_msg(e)),
                Ok(re) => {
                    strict_fail(&mut res, "to_bytes", Class::Verifier, &re, false);
                    if re.len() >= 32 {
                        pi_count = u64::from_be_bytes(re[24..32].try_into().unwrap()).min(4096) as usize;
                    }
                }
            }
            let mut uses = vec![];
            let mut pis_sets = vec![c.pis.clone()];
            if pi_count != c.pis.len() {
                let mut p = c.pis.clone();
                p.resize(pi_count, crate::fe::fe(9));
                pis_sets.push(p);
            }
            for pis in pis_sets {
                match catch_unwind(AssertUnwindSafe(|| v.verify(&c.proof, &pis))) {
                    Err(e) => {
                        use_panic(&mut res, "verify", crate::par::panic_msg(e));
                        uses.clear();
                        break;
                    }
                    Ok(Ok(())) => uses.push("verify-ok".to_string()),
                    Ok(Err(e)) => uses.push(format!("verify-err:{}", err_kind(&e))),
                }
            }
            if !uses.is_empty() {
                res.use_ = uses.join("+");
            }
        }
        Decoded::Proof(p) => {
            match catch_unwind(AssertUnwindSafe(|| p.to_bytes())) {
                Err(e) => reenc_panic(&mut res, "Proof::to_bytes", crate::par::panic_msg(e)),
                Ok(re) => strict_fail(&mut res, "to_bytes", Class::Proof, &re, false),
            }
            match catch_unwind(AssertUnwindSafe(|| c.verifier.verify(&p, &c.pis))) {
                Err(e) => use_panic(&mut res, "verify", crate::par::panic_msg(e)),
                Ok(Ok(())) => res.use_ = "verify-ok".into(),
                Ok(Err(e)) => res.use_ = format!("verify-err:{}", err_kind(&e)),
            }
        }
        Decoded::Pp(pp) => {
            match catch_unwind(AssertUnwindSafe(|| (pp.to_var_bytes(), pp.to_raw_var_bytes()))) {
                Err(e) => reenc_panic(&mut res, "PublicParameters::to_var_bytes", crate::par::panic_msg(e)),
                Ok((re, raw)) => {
                    strict_fail(&mut res, "to_var_bytes", Class::Pp, &re, false);
                    strict_fail(&mut res, "to_raw_var_bytes", Class::Pp, &raw, true);
                }
            }
            let a = &w.circs[0];
            match catch_unwind(AssertUnwindSafe(|| Compiler::compile_with_circuit(&pp, LABEL, &a.prog))) {
                Err(e) => use_panic(&mut res, "compile", crate::par::panic_msg(e)),
                Ok(Err(e)) => res.use_ = format!("compile-err:{}", err_kind(&e)),
                Ok(Ok((pr, ve))) => {
                    let mut rng = ScriptedRng::base(seed(), 4243);
                    match catch_unwind(AssertUnwindSafe(|| pr.prove(&mut rng, &a.prog).map(|(proof, pis)| ve.verify(&proof, &pis)))) {
                        Err(e) => use_panic(&mut res, "prove/verify", crate::par::panic_msg(e)),
                        Ok(Err(e)) => res.use_ = format!("compile-ok:prove-err:{}", err_kind(&e)),
                        Ok(Ok(Ok(()))) => res.use_ = "compile-ok:verified".into(),
                        Ok(Ok(Err(e))) => res.use_ = format!("compile-ok:rejected:{}", err_kind(&e)),
                    }
                }
            }
        }
        Decoded::Cc(p, v) => {
            // the description itself must be well formed
            if let Some((sec, kind)) = diagnose(w, Class::Cc, bytes) {
                res.strict_ok = false;
                res.viol.push((format!("compressed/{}/{}/accepted", sec, kind), format!("compile_with_compressed accepted a description the strict parser rejects: {}", kind)));
            }
            match catch_unwind(AssertUnwindSafe(|| (p.to_bytes(), v.to_bytes()))) {
                Err(e) => reenc_panic(&mut res, "to_bytes of compiled keys", crate::par::panic_msg(e)),
                Ok((pb, vb)) => {
                    strict_fail(&mut res, "prover.to_bytes", Class::Prover, &pb, false);
                    strict_fail(&mut res, "verifier.to_bytes", Class::Verifier, &vb, false);
                }
            }
            prove_with(&mut res, &p, &v);
        }
    }
}

pub fn run_case(w: &World, lim: &Limits, case: &Case) -> Res {
    let o = &w.objs[case.obj];
    let bytes = apply(&o.bytes, &case.m);
    let t = Instant::now();
    let mut r = run_bytes(w, lim, o.class, o.circ, &bytes, case.section, case.fam);
    r.total_us = t.elapsed().as_micros() as u64;
    r
}
