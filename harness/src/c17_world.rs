//! Valid encodings produced by the real code: circuits, keys, proofs, public
//! parameters, compressed descriptions, and the contexts needed to USE an
//! accepted object.

use std::sync::Arc;

use dusk_bytes::Serializable;
use dusk_plonk::prelude::*;

use super::fmt::{self, BadPoints, Class, Field};
use super::mp::{self, Desc};
use crate::ev::Tier;
use crate::fe::*;
use crate::prog::Prog;
use crate::rng::{ScriptedRng, SeedRng};

pub const LABEL: &[u8] = b"c17-label";

pub struct Circ {
    pub name: &'static str,
    pub prog: Prog,
    pub prover: Prover,
    pub verifier: Verifier,
    pub proof: Proof,
    pub pis: Vec<Fe>,
    pub prover_b: Vec<u8>,
    pub verifier_b: Vec<u8>,
    pub proof_b: Vec<u8>,
    pub cc_b: Vec<u8>,
    pub n: usize,
}

pub struct Obj {
    pub class: Class,
    pub name: String,
    pub bytes: Vec<u8>,
    pub fields: Vec<Field>,
    /// circuit used on the acceptance side
    pub circ: usize,
    /// objects of the same class usable as splice donors
    pub donors: Vec<usize>,
}

pub struct World {
    pub tier: Tier,
    pub pp: Arc<PublicParameters>,
    pub circs: Vec<Circ>,
    pub objs: Vec<Obj>,
    pub bp: BadPoints,
    pub max_constraints: usize,
    pub cc_limit: usize,
    /// largest valid description at the capacity of `pp`
    pub cc_max: Vec<u8>,
    pub cc_max_desc: Desc,
    pub fingerprint: u64,
}

fn circ_a() -> Prog {
    Prog::new(|c| {
        let a = c.append_witness(fe(3));
        let b = c.append_witness(fe(5));
        c.append_gate(Constraint::new().mult(1).a(a).b(b).public(-fe(15)));
        let s = c.gate_add(Constraint::new().left(1).right(1).a(a).b(b));
        c.assert_equal_constant(s, fe(0), Some(fe(8)));
        Ok(())
    })
}
fn circ_a2() -> Prog {
    Prog::new(|c| {
        let a = c.append_witness(fe(7));
        let b = c.append_witness(fe(2));
        let p = c.gate_mul(Constraint::new().mult(3).a(a).b(b).constant(1));
        c.assert_equal_constant(p, fe(43), None);
        c.append_gate(Constraint::new().left(2).right(5).fourth(1).a(a).b(b).d(p).public(-fe(67)));
        Ok(())
    })
}
/// Raw-row circuit: the given custom-gate families (one satisfied row pair
/// each) followed by an arithmetic row with a public input.
fn raw_circ(fams: &[(crate::c05::Fam, usize)]) -> Prog {
    use crate::c05::{family_assignment, merged_row, solve_pis, Fam};
    use crate::rows::{Assign, Layout, Place, RowSpec};
    let mut rows = vec![];
    let mut vals = vec![];
    for (f, v) in fams {
        let (cur, next) = family_assignment(*f, *v);
        rows.push(merged_row(&[*f]));
        vals.push(cur);
        rows.push(RowSpec::zero());
        vals.push(next);
    }
    rows.push(merged_row(&[Fam::Arith]));
    vals.push(family_assignment(Fam::Arith, 0).0);
    let lay = Layout { rows, share: vec![], place: Place::First };
    let mut asg = Assign::new(vals, vec![zero(); lay.rows.len()]);
    solve_pis(&lay, &mut asg);
    crate::rows::prog(&lay, &asg)
}
fn circ_b() -> Prog {
    use crate::c05::Fam;
    raw_circ(&[(Fam::Range, 1), (Fam::Xor, 1)])
}
fn circ_c() -> Prog {
    use crate::c05::Fam;
    let raw = raw_circ(&[(Fam::Range, 2), (Fam::And, 2), (Fam::Xor, 3), (Fam::Fixed, 1), (Fam::Var, 1)]);
    Prog::new(move |c| {
        let a = c.append_witness(fe(0xdead_beef));
        let b = c.append_witness(fe(0x1234_5678));
        c.component_range_bits::<32>(a);
        let mut acc = a;
        for k in 0..6u64 {
            acc = c.gate_add(Constraint::new().left(1).right(k + 2).a(acc).b(b).constant(k));
        }
        (raw.build)(c)
    })
}

fn build_circ(pp: &PublicParameters, name: &'static str, prog: Prog, stream: u64) -> Circ {
    let (prover, verifier) = Compiler::compile_with_circuit(pp, LABEL, &prog)
        .unwrap_or_else(|e| panic!("valid circuit {} compiles: {:?} (rows {:?})", name, e, prog.run().map(|s| s.gates.len())));
    let mut rng = ScriptedRng::base(seed(), 1700 + stream);
    let (proof, pis) = prover.prove(&mut rng, &prog).expect("honest proof");
    verifier.verify(&proof, &pis).expect("honest proof verifies");
    prog.install_default();
    let cc_b = Prog::compress().expect("compress");
    let prover_b = prover.to_bytes();
    let n = u64::from_be_bytes(prover_b[32..40].try_into().unwrap()) as usize;
    Circ {
        name,
        prover_b,
        verifier_b: verifier.to_bytes(),
        proof_b: proof.to_bytes().to_vec(),
        cc_b,
        prog,
        prover,
        verifier,
        proof,
        pis,
        n,
    }
}

/// Largest valid description for `max` constraints: every collection at its limit.
pub fn max_desc(max: usize) -> Desc {
    let scalars: Vec<[u8; 32]> = (0..max * 11).map(|i| fe(1000 + i as u64).to_bytes()).collect();
    let polys: Vec<[u64; 11]> = (0..max).map(|i| core::array::from_fn(|k| (3 + 11 * i + k) as u64)).collect();
    let cons: Vec<[u64; 5]> = (0..max).map(|i| [i as u64, 4 * i as u64, 4 * i as u64 + 1, 4 * i as u64 + 2, 4 * i as u64 + 3]).collect();
    Desc { hades: false, pis: (0..max as u64).collect(), witnesses: 4 * max as u64, scalars, polys, cons }
}

impl World {
    pub fn build(tier: Tier) -> World {
        let pp = crate::setup::pp(64);
        let mut circs = vec![build_circ(&pp, "A", circ_a(), 0), build_circ(&pp, "A2", circ_a2(), 1), build_circ(&pp, "B", circ_b(), 2)];
        if tier == Tier::Thorough {
            circs.push(build_circ(&pp, "C", circ_c(), 3));
        }
        let bp = fmt::bad_points();
        let max_constraints = 64 - 6;
        let cc_limit = max_constraints * 857 + 30;
        let mut objs: Vec<Obj> = vec![];
        let mut push = |class: Class, name: String, bytes: Vec<u8>, circ: usize| {
            let fields = fmt::layout(class, &bytes).unwrap_or_else(|d| panic!("layout of valid {} {}: {:?}", class.name(), name, d));
            objs.push(Obj { class, name, bytes, fields, circ, donors: vec![] });
        };
        for (i, c) in circs.iter().enumerate() {
            push(Class::Prover, format!("prover:{}", c.name), c.prover_b.clone(), i);
        }
        for (i, c) in circs.iter().enumerate() {
            push(Class::Verifier, format!("verifier:{}", c.name), c.verifier_b.clone(), i);
        }
        for (i, c) in circs.iter().enumerate() {
            push(Class::Proof, format!("proof:{}", c.name), c.proof_b.clone(), i);
        }
        // public parameters: a 23-point prefix of the shared SRS (enough for circuit A: 16 + 6 + 1),
        // an unrelated 23-point SRS, and (thorough) the full one
        let full = pp.to_var_bytes();
        push(Class::Pp, "pp:23".into(), full[..240 + 48 * 23].to_vec(), 0);
        let mut rng = SeedRng(Rho::new(seed(), 171717));
        let alt = PublicParameters::setup(16, &mut rng).expect("alt setup");
        push(Class::Pp, "pp:alt23".into(), alt.to_var_bytes(), 0);
        if tier == Tier::Thorough {
            push(Class::Pp, "pp:71".into(), full, 0);
        }
        for (i, c) in circs.iter().enumerate() {
            push(Class::Cc, format!("compressed:{}", c.name), c.cc_b.clone(), i);
        }
        // donors: every other object of the class
        let n = objs.len();
        for i in 0..n {
            let d: Vec<usize> = (0..n).filter(|j| *j != i && objs[*j].class == objs[i].class).collect();
            objs[i].donors = d;
        }
        // number of built-in scalars under the hades flag: the encoder gives a fresh scalar the
        // index base + position, and every fresh scalar is referenced by the gate that introduced it
        {
            let inner = mp::inflate(&circs[0].cc_b, cc_limit).expect("valid stream inflates");
            let d = Desc::decode(&inner).expect("valid description decodes");
            assert!(d.hades && !d.scalars.is_empty());
            let top = d.polys.iter().flat_map(|p| p.iter().copied()).max().unwrap();
            let _ = super::cases::HADES_BASE.set(top + 1 - d.scalars.len() as u64);
        }
        let cc_max_desc = max_desc(max_constraints);
        let cc_max = mp::deflate(&cc_max_desc.encode());
        let mut h = 0xcbf29ce484222325u64;
        for o in &objs {
            h ^= fnv(&o.bytes);
            h = h.wrapping_mul(0x100000001b3);
        }
        World { tier, pp, circs, objs, bp, max_constraints, cc_limit, cc_max, cc_max_desc, fingerprint: h }
    }

    pub fn objs_of(&self, class: Class) -> Vec<usize> {
        (0..self.objs.len()).filter(|i| self.objs[*i].class == class).collect()
    }
}
