//! Public parameters: one seeded setup, capacities derived by truncation.

use dusk_plonk::prelude::*;
use std::collections::HashMap;
use std::sync::{Mutex, OnceLock};

use crate::rng::SeedRng;

static FULL: OnceLock<Mutex<HashMap<usize, std::sync::Arc<PublicParameters>>>> = OnceLock::new();

/// Public parameters with `max_degree() == degree + 6` (as `setup(degree)`).
pub fn pp(degree: usize) -> std::sync::Arc<PublicParameters> {
    let m = FULL.get_or_init(|| Mutex::new(HashMap::new()));
    let mut g = m.lock().unwrap();
    if let Some(p) = g.get(&degree) {
        return p.clone();
    }
    let mut rng = SeedRng(crate::fe::Rho::new(crate::fe::seed(), 424242));
    let p = std::sync::Arc::new(PublicParameters::setup(degree, &mut rng).expect("setup"));
    g.insert(degree, p.clone());
    p
}

/// Truncate public parameters to `points` commit-key points (max_degree =
/// points - 1) through the raw encoding.
pub fn truncate_pp(pp: &PublicParameters, points: usize) -> PublicParameters {
    let raw = pp.to_raw_var_bytes();
    const OK: usize = 48 + 96 + 96;
    const RAW: usize = 97;
    let have = u64::from_le_bytes(raw[OK..OK + 8].try_into().unwrap()) as usize;
    assert!(points <= have && points >= 1);
    let mut out = raw[..OK].to_vec();
    out.extend_from_slice(&(points as u64).to_le_bytes());
    out.extend_from_slice(&raw[OK + 8..OK + 8 + points * RAW]);
    unsafe { PublicParameters::from_slice_unchecked(&out) }
}
