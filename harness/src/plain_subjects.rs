//! Plain C18 subjects: circuits built through dusk-plonk's PUBLIC API only
//! (no verification hooks, no harness modules), shared verbatim between the
//! std harness and the alloc-only workspace (/verif/harness-nostd) so that
//! keys and proofs of the two builds can be compared byte for byte.

#![allow(dead_code)]

use dusk_bytes::Serializable;
use dusk_plonk::prelude::*;
use rand_core::{CryptoRng, RngCore};

pub fn fnv(bytes: &[u8]) -> u64 {
    let mut h = 0xcbf29ce484222325u64;
    for b in bytes {
        h ^= *b as u64;
        h = h.wrapping_mul(0x100000001b3);
    }
    h
}

/// splitmix64 stream: the same bytes in every build
pub struct Det(pub u64);
impl RngCore for Det {
    fn next_u32(&mut self) -> u32 {
        self.next_u64() as u32
    }
    fn next_u64(&mut self) -> u64 {
        self.0 = self.0.wrapping_add(0x9E3779B97F4A7C15);
        let mut z = self.0;
        z = (z ^ (z >> 30)).wrapping_mul(0xBF58476D1CE4E5B9);
        z = (z ^ (z >> 27)).wrapping_mul(0x94D049BB133111EB);
        z ^ (z >> 31)
    }
    fn fill_bytes(&mut self, dest: &mut [u8]) {
        for chunk in dest.chunks_mut(8) {
            let v = self.next_u64().to_le_bytes();
            chunk.copy_from_slice(&v[..chunk.len()]);
        }
    }
    fn try_fill_bytes(&mut self, dest: &mut [u8]) -> Result<(), rand_core::Error> {
        self.fill_bytes(dest);
        Ok(())
    }
}
impl CryptoRng for Det {}

#[derive(Clone, Copy)]
pub struct Plain {
    pub log_n: u32,
    pub salt: u64,
}

impl Default for Plain {
    fn default() -> Self {
        Plain { log_n: 5, salt: 1 }
    }
}

impl Circuit for Plain {
    fn circuit(&self, c: &mut Composer) -> Result<(), Error> {
        let target = (1usize << self.log_n) - 6 - 3;
        let p0 = c.append_public(BlsScalar::from(7u64 + self.salt));
        let x = c.append_witness(BlsScalar::from(0x1234_5678_9abc_def1u64).square() + BlsScalar::from(self.salt));
        let y = c.append_witness(BlsScalar::from(0x0fed_cba9_8765_4321u64).square());
        let s = c.gate_add(Constraint::new().left(1).right(1).a(x).b(y));
        let m = c.gate_mul(Constraint::new().mult(1).a(x).b(y).public(BlsScalar::from(11u64)));
        let r = c.append_witness(BlsScalar::from(0xb5u64));
        c.component_range_bits::<8>(r);
        if self.log_n >= 9 {
            let a = c.append_witness(BlsScalar::from(0xcu64));
            let b = c.append_witness(BlsScalar::from(0x5u64));
            let o = c.append_logic_xor::<2>(a, b);
            c.assert_equal_constant(o, BlsScalar::from(9u64), None);
        }
        if self.log_n >= 10 {
            let k = c.append_witness(BlsScalar::from(0xabcdefu64));
            let p = c.component_mul_generator(k, dusk_jubjub::GENERATOR_EXTENDED)?;
            let q = c.component_add_point(p, p);
            let _ = q;
        }
        let mut acc = c.gate_add(Constraint::new().left(1).right(1).a(s).b(m).constant(BlsScalar::from(3u64)));
        let mut k = 0u64;
        while c.constraints() < target {
            k += 1;
            acc = match k % 4 {
                0 => c.gate_mul(Constraint::new().mult(1).a(acc).b(y).constant(BlsScalar::from(k))),
                1 => c.gate_add(Constraint::new().left(1).right(2).a(acc).b(x)),
                2 => c.gate_add(Constraint::new().left(1).right(1).fourth(1).a(acc).b(p0).d(x)),
                _ => c.gate_mul(Constraint::new().mult(3).a(acc).b(acc)),
            };
            if k % 19 == 0 && c.constraints() < target {
                acc = c.gate_add(Constraint::new().left(1).a(acc).public(BlsScalar::from(k)));
            }
        }
        let end = c[acc];
        let pe = c.append_public(end);
        c.assert_equal(pe, acc);
        Ok(())
    }
}

pub struct Out {
    pub pp: Vec<u8>,
    pub prover: Vec<u8>,
    pub verifier: Vec<u8>,
    pub proof: Vec<u8>,
    pub pis: Vec<u8>,
    pub verified: bool,
}

pub fn parse_id(id: &str) -> Plain {
    // "p<log_n>" or "p<log_n>s<salt>"
    let t = id.trim_start_matches('p');
    let mut it = t.split('s');
    let log_n: u32 = it.next().unwrap().parse().expect("log_n");
    let salt: u64 = it.next().map(|s| s.parse().expect("salt")).unwrap_or(1);
    Plain { log_n, salt }
}

pub fn run(id: &str) -> Out {
    let circuit = parse_id(id);
    let mut srs_rng = Det(0x5eed_0000 + circuit.log_n as u64);
    let pp = PublicParameters::setup(1usize << circuit.log_n, &mut srs_rng).expect("setup");
    let label = format!("plain-{}", id).into_bytes();
    let (prover, verifier) = Compiler::compile_with_circuit(&pp, &label, &circuit).expect("compile");
    let mut rng = Det(0xabcd_0000 + circuit.salt);
    let (proof, pis) = prover.prove(&mut rng, &circuit).expect("prove");
    let verified = verifier.verify(&proof, &pis).is_ok();
    let mut pib = vec![];
    for p in &pis {
        pib.extend_from_slice(&p.to_bytes());
    }
    Out { pp: pp.to_var_bytes(), prover: prover.to_bytes(), verifier: verifier.to_bytes(), proof: proof.to_bytes().to_vec(), pis: pib, verified }
}

pub fn hash_line(id: &str) -> String {
    let o = run(id);
    format!(
        "plain-hash circuit={} pp={:016x} prover={:016x} verifier={:016x} proof={:016x} pi={:016x} verified={}",
        id,
        fnv(&o.pp),
        fnv(&o.prover),
        fnv(&o.verifier),
        fnv(&o.proof),
        fnv(&o.pis),
        o.verified
    )
}
