//! Field / integer helpers and the boundary alphabets (DESIGN §4.0).
//! Own code; uses only dusk-bls12_381 field arithmetic.

use dusk_bls12_381::BlsScalar;

pub type Fe = BlsScalar;

pub fn fe(x: u64) -> Fe {
    BlsScalar::from(x)
}
pub fn fi(x: i64) -> Fe {
    if x >= 0 {
        BlsScalar::from(x as u64)
    } else {
        -BlsScalar::from(x.unsigned_abs())
    }
}
pub fn zero() -> Fe {
    BlsScalar::zero()
}
pub fn one() -> Fe {
    BlsScalar::one()
}
pub fn neg1() -> Fe {
    -BlsScalar::one()
}
pub fn pow2(k: usize) -> Fe {
    let mut r = BlsScalar::one();
    let two = fe(2);
    for _ in 0..k {
        r *= two;
    }
    r
}
pub fn inv(x: Fe) -> Fe {
    x.invert().expect("inverse of zero")
}
pub fn hex(x: &Fe) -> String {
    let b = x.to_bytes();
    let mut s = String::with_capacity(66);
    s.push_str("0x");
    let mut started = false;
    for byte in b.iter().rev() {
        if !started && *byte == 0 {
            continue;
        }
        if !started {
            s.push_str(&format!("{:x}", byte));
            started = true;
        } else {
            s.push_str(&format!("{:02x}", byte));
        }
    }
    if !started {
        s.push('0');
    }
    s
}
pub fn from_hex(s: &str) -> Fe {
    let s = s.trim_start_matches("0x");
    let mut bytes = [0u8; 32];
    let digits: Vec<u8> = s.bytes().collect();
    let mut i = digits.len();
    let mut k = 0;
    while i > 0 {
        let lo = (digits[i - 1] as char).to_digit(16).unwrap() as u8;
        let hi = if i >= 2 {
            (digits[i - 2] as char).to_digit(16).unwrap() as u8
        } else {
            0
        };
        bytes[k] = (hi << 4) | lo;
        k += 1;
        i = i.saturating_sub(2);
    }
    Option::<Fe>::from(BlsScalar::from_bytes(&bytes)).expect("canonical hex scalar")
}

/// Canonical little-endian 256-bit integer value of a scalar.
pub fn limbs(x: &Fe) -> [u64; 4] {
    let b = x.to_bytes();
    let mut l = [0u64; 4];
    for i in 0..4 {
        let mut w = [0u8; 8];
        w.copy_from_slice(&b[i * 8..i * 8 + 8]);
        l[i] = u64::from_le_bytes(w);
    }
    l
}

/// 320-bit unsigned integer (5 x u64 little-endian), enough for x + 2r.
#[derive(Clone, Copy, PartialEq, Eq, Debug, PartialOrd, Ord, Hash)]
pub struct U320(pub [u64; 5]);

impl U320 {
    pub fn zero() -> Self {
        U320([0; 5])
    }
    pub fn from_fe(x: &Fe) -> Self {
        let l = limbs(x);
        U320([l[0], l[1], l[2], l[3], 0])
    }
    pub fn from_u64(x: u64) -> Self {
        U320([x, 0, 0, 0, 0])
    }
    pub fn pow2(k: usize) -> Self {
        let mut r = [0u64; 5];
        r[k / 64] = 1u64 << (k % 64);
        U320(r)
    }
    /// The BLS12-381 scalar field modulus r.
    pub fn modulus() -> Self {
        let m1 = U320::from_fe(&neg1());
        m1.add(&U320::from_u64(1))
    }
    pub fn add(&self, o: &Self) -> Self {
        let mut r = [0u64; 5];
        let mut c = 0u128;
        for i in 0..5 {
            let s = self.0[i] as u128 + o.0[i] as u128 + c;
            r[i] = s as u64;
            c = s >> 64;
        }
        assert_eq!(c, 0, "U320 overflow");
        U320(r)
    }
    pub fn sub(&self, o: &Self) -> Self {
        assert!(self.cmp_(o) != std::cmp::Ordering::Less);
        let mut r = [0u64; 5];
        let mut b = 0i128;
        for i in 0..5 {
            let s = self.0[i] as i128 - o.0[i] as i128 - b;
            if s < 0 {
                r[i] = (s + (1i128 << 64)) as u64;
                b = 1;
            } else {
                r[i] = s as u64;
                b = 0;
            }
        }
        U320(r)
    }
    pub fn cmp_(&self, o: &Self) -> std::cmp::Ordering {
        for i in (0..5).rev() {
            if self.0[i] != o.0[i] {
                return self.0[i].cmp(&o.0[i]);
            }
        }
        std::cmp::Ordering::Equal
    }
    pub fn lt(&self, o: &Self) -> bool {
        self.cmp_(o) == std::cmp::Ordering::Less
    }
    pub fn bit(&self, i: usize) -> u8 {
        ((self.0[i / 64] >> (i % 64)) & 1) as u8
    }
    pub fn bits(&self) -> usize {
        for i in (0..320).rev() {
            if self.bit(i) == 1 {
                return i + 1;
            }
        }
        0
    }
    /// low `k` bits
    pub fn low(&self, k: usize) -> Self {
        let mut r = [0u64; 5];
        for i in 0..k.min(320) {
            if self.bit(i) == 1 {
                r[i / 64] |= 1u64 << (i % 64);
            }
        }
        U320(r)
    }
    /// self >> k
    pub fn shr(&self, k: usize) -> Self {
        let mut r = [0u64; 5];
        for i in k..320 {
            if self.bit(i) == 1 {
                let j = i - k;
                r[j / 64] |= 1u64 << (j % 64);
            }
        }
        U320(r)
    }
    /// Reduce into the field (value mod r) by Horner over bits.
    pub fn to_fe(&self) -> Fe {
        let mut acc = zero();
        let two = fe(2);
        for i in (0..320).rev() {
            acc *= two;
            if self.bit(i) == 1 {
                acc += one();
            }
        }
        acc
    }
    pub fn and(&self, o: &Self) -> Self {
        let mut r = [0u64; 5];
        for i in 0..5 {
            r[i] = self.0[i] & o.0[i];
        }
        U320(r)
    }
    pub fn xor(&self, o: &Self) -> Self {
        let mut r = [0u64; 5];
        for i in 0..5 {
            r[i] = self.0[i] ^ o.0[i];
        }
        U320(r)
    }
}

/// Deterministic stream of pseudo-random field elements selected by VERIF_SEED.
pub struct Rho {
    state: u64,
}
impl Rho {
    pub fn new(seed: u64, stream: u64) -> Self {
        Rho {
            state: seed ^ stream.wrapping_mul(0x9E3779B97F4A7C15) ^ 0xD1B54A32D192ED03,
        }
    }
    pub fn next_u64(&mut self) -> u64 {
        self.state = self.state.wrapping_add(0x9E3779B97F4A7C15);
        let mut z = self.state;
        z = (z ^ (z >> 30)).wrapping_mul(0xBF58476D1CE4E5B9);
        z = (z ^ (z >> 27)).wrapping_mul(0x94D049BB133111EB);
        z ^ (z >> 31)
    }
    pub fn next_fe(&mut self) -> Fe {
        let mut b = [0u8; 64];
        for i in 0..8 {
            b[i * 8..i * 8 + 8].copy_from_slice(&self.next_u64().to_le_bytes());
        }
        BlsScalar::from_bytes_wide(&b)
    }
}

pub fn seed() -> u64 {
    std::env::var("VERIF_SEED")
        .ok()
        .and_then(|s| s.parse::<u64>().ok())
        .unwrap_or(1)
}

/// JubJub subgroup order r_J as a BLS scalar.
pub fn r_jubjub() -> Fe {
    // r_J = 0x0e7db4ea6533afa906673b0101343b00a6682093ccc81082d0970e5ed6f72cb7
    from_hex("0e7db4ea6533afa906673b0101343b00a6682093ccc81082d0970e5ed6f72cb7")
}

/// Boundary alphabet F (DESIGN §4.0).
pub fn alphabet_f(seed: u64) -> Vec<Fe> {
    let mut v = vec![fe(0), fe(1), fe(2), fe(3), neg1(), fi(-2), neg1() * inv(fe(2))];
    for k in [1usize, 2, 7, 8, 63, 64, 127, 128, 251, 252, 253, 254] {
        v.push(pow2(k));
        v.push(pow2(k) - one());
        v.push(pow2(k) + one());
    }
    v.push(r_jubjub());
    v.push(r_jubjub() - one());
    v.push(r_jubjub() + one());
    let mut rho = Rho::new(seed, 77);
    for _ in 0..4 {
        v.push(rho.next_fe());
    }
    dedup(v)
}

/// Small alphabet F_s (12 values).
pub fn alphabet_fs(seed: u64) -> Vec<Fe> {
    let mut rho = Rho::new(seed, 78);
    dedup(vec![
        fe(0),
        fe(1),
        fe(2),
        neg1(),
        fe(3),
        pow2(64),
        pow2(128) - one(),
        pow2(252),
        pow2(254) + one(),
        r_jubjub(),
        rho.next_fe(),
        rho.next_fe(),
    ])
}

pub fn dedup(v: Vec<Fe>) -> Vec<Fe> {
    let mut out: Vec<Fe> = Vec::new();
    for x in v {
        if !out.iter().any(|y| *y == x) {
            out.push(x);
        }
    }
    out
}

/// FNV-1a 64 hash over bytes: canonical case keys.
pub fn fnv(bytes: &[u8]) -> u64 {
    let mut h = 0xcbf29ce484222325u64;
    for b in bytes {
        h ^= *b as u64;
        h = h.wrapping_mul(0x100000001b3);
    }
    h
}
pub fn fnv_fe(h: u64, x: &Fe) -> u64 {
    // hash the internal (Montgomery) limbs: a bijection of the value
    let mut h = h;
    for l in x.0 {
        h ^= l;
        h = h.wrapping_mul(0x100000001b3);
        h ^= h >> 29;
    }
    h
}
