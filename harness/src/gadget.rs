//! Shared driver for the gadget properties C08–C14: honest run + E2
//! deviations decided by M1, property predicate on every satisfiable
//! assignment, real-prover confirmation of model verdicts.

use std::collections::HashMap;
use std::sync::{Arc, Mutex};

use dusk_plonk::prelude::*;
use serde_json::{json, Value};

use crate::e2::*;
use crate::ev::Run;
use crate::fe::*;
use crate::m1;
use crate::rows::Real;

#[derive(Clone, Debug)]
pub enum Expect {
    /// precondition holds: satisfiable, and every satisfying assignment
    /// returns exactly these values
    Sat(Vec<Fe>),
    /// precondition violated: no satisfying assignment exists (the honest
    /// generator may also return an error)
    Unsat,
    /// the honest assignment must be unsatisfied, but other assignments of the
    /// gadget's own witnesses may legitimately satisfy it (nothing returned)
    UnsatHonest,
}

#[derive(Clone)]
pub struct GCase {
    pub g: Gadget,
    pub expect: Expect,
    /// class label used in violation signatures (gadget + width class)
    pub class: String,
    /// gadget-specific extra replacement values per (ordinal-in-gadget, honest value)
    pub extra: Option<Arc<dyn Fn(usize, Fe) -> Vec<(String, Fe)> + Send + Sync>>,
    /// gadget-specific named multi-ordinal deviations (built from the honest run)
    pub named: Option<Arc<dyn Fn(&Honest) -> Vec<Dev> + Send + Sync>>,
    pub bound2: bool,
    /// run the real prover for this case
    pub confirm: bool,
    /// explore only every k-th allocation ordinal (plus the first and last 24);
    /// 1 = all, 0 = no generic deviations at all
    pub dev_stride: usize,
    /// explore wire-level (copy-constraint) deviations of the gadget's rows
    pub rewire: bool,
    /// how many pure copy breaks are replayed on the real prover per case
    pub rewire_confirm_cap: usize,
}

impl GCase {
    /// The same case from a non-initial composer state: the component was
    /// already called once on the very same input witnesses (outputs dropped).
    /// Expectation unchanged; honest run (and real-prover replay) only.
    pub fn after_self_call(&self) -> GCase {
        let f = self.g.f.clone();
        let mut c = self.clone();
        c.g = c.g.with_prelude("self-call", move |comp, ins| f(comp, ins).map(|_| ()));
        c.class = format!("{}/after-self-call", c.class);
        c.named = None;
        c.extra = None;
        c.bound2 = false;
        c.rewire = false;
        c.dev_stride = 0;
        c
    }
    pub fn new(g: Gadget, expect: Expect, class: &str) -> Self {
        GCase { g, expect, class: class.to_string(), extra: None, named: None, bound2: false, confirm: true, dev_stride: 1, rewire: false, rewire_confirm_cap: 32 }
    }
}

#[derive(Default)]
pub struct CaseReport {
    pub name: String,
    pub class: String,
    pub layout: u64,
    pub honest_state: String,
    pub n_devs: u64,
    pub n_sat: u64,
    pub n_panic: u64,
    pub n_generr: u64,
    pub n_layout_changed: u64,
    pub confirmed: u64,
    pub n_rewire: u64,
    pub n_pure_copy_breaks: u64,
    pub n_rewire_free: u64,
    pub rows: usize,
    pub violations: Vec<(String, String, Value)>,
    pub machinery: Vec<String>,
    pub wall_s: f64,
    pub key: u64,
}

pub struct ConfirmCache {
    pp: Arc<PublicParameters>,
    map: Mutex<HashMap<u64, Arc<Confirm>>>,
}

impl ConfirmCache {
    pub fn new(pp: Arc<PublicParameters>) -> Self {
        ConfirmCache { pp, map: Mutex::new(HashMap::new()) }
    }
    pub fn get(&self, g: &Gadget, layout: u64) -> Result<Arc<Confirm>, String> {
        if let Some(c) = self.map.lock().unwrap().get(&layout) {
            return Ok(c.clone());
        }
        let c = Arc::new(Confirm::new(g, &self.pp)?);
        self.map.lock().unwrap().insert(layout, c.clone());
        Ok(c)
    }
}

fn case_key(c: &GCase) -> u64 {
    let mut h = fnv(c.g.name.as_bytes());
    for v in &c.g.inputs {
        h = fnv_fe(h, v);
    }
    h
}

pub fn run_case(c: &GCase, cache: &ConfirmCache) -> CaseReport {
    let t0 = std::time::Instant::now();
    let mut rep = run_case_inner(c, cache);
    rep.wall_s = t0.elapsed().as_secs_f64();
    rep
}

fn run_case_inner(c: &GCase, cache: &ConfirmCache) -> CaseReport {
    let mut rep = CaseReport { name: c.g.name.clone(), class: c.class.clone(), key: case_key(c), ..Default::default() };
    let inputs_json = json!(c.g.inputs.iter().map(hex).collect::<Vec<_>>());
    let h = match honest(&c.g) {
        Err(e) => {
            rep.honest_state = "generator-error".into();
            match &c.expect {
                Expect::Unsat | Expect::UnsatHonest if e.starts_with("error") => {}
                _ => rep.violations.push((
                    format!("{}/honest-{}", c.class, if e.starts_with("panic") { "panic" } else { "error" }),
                    format!("{} inputs {:?}: honest generation failed: {}", c.g.name, inputs_json, e),
                    json!({"gadget": c.g.name, "inputs": inputs_json, "failure": e}),
                )),
            }
            return rep;
        }
        Ok(h) => h,
    };
    rep.layout = m1::layout_key(&h.snap);
    rep.rows = h.snap.gates.len();
    let hsat = h.verdict.satisfied();
    rep.honest_state = if hsat { "sat".into() } else { "unsat".into() };
    match &c.expect {
        Expect::Sat(outs) => {
            if !hsat {
                rep.violations.push((
                    format!("{}/honest-unsat", c.class),
                    format!("{}: precondition holds but the honest assignment violates {:?}", c.g.name, h.verdict),
                    json!({"gadget": c.g.name, "inputs": inputs_json, "model": format!("{:?}", h.verdict)}),
                ));
            } else if *outs != h.outs {
                rep.violations.push((
                    format!("{}/honest-wrong-output", c.class),
                    format!("{}: honest outputs {:?} differ from spec {:?}", c.g.name, h.outs.iter().map(hex).collect::<Vec<_>>(), outs.iter().map(hex).collect::<Vec<_>>()),
                    json!({"gadget": c.g.name, "inputs": inputs_json, "outputs": h.outs.iter().map(hex).collect::<Vec<_>>(), "spec": outs.iter().map(hex).collect::<Vec<_>>()}),
                ));
            }
        }
        Expect::Unsat | Expect::UnsatHonest => {
            if hsat {
                rep.violations.push((
                    format!("{}/honest-sat-despite-precondition", c.class),
                    format!("{}: precondition violated but the honest assignment satisfies every row", c.g.name),
                    json!({"gadget": c.g.name, "inputs": inputs_json}),
                ));
            }
        }
    }
    // deviations
    let noextra = |_: usize, _: Fe| -> Vec<(String, Fe)> { vec![] };
    let lo = h.meta.lo;
    let mut devs = match &c.extra {
        Some(f) => {
            let f = f.clone();
            bound1(&h, &move |k, v| f(k - lo, v))
        }
        None => bound1(&h, &noextra),
    };
    if c.dev_stride == 0 {
        devs.clear();
    } else if c.dev_stride > 1 {
        let (lo, hi, k) = (h.meta.lo, h.meta.hi, c.dev_stride);
        devs.retain(|d| {
            let o = d.script[0].0;
            o < lo + 24 || o + 24 >= hi || (o - lo) % k == 0
        });
    }
    if let Some(n) = &c.named {
        devs.extend(n(&h));
    }
    if c.bound2 {
        devs.extend(bound2(&h));
    }
    let expected_outs: Option<Vec<Fe>> = match &c.expect {
        Expect::Sat(o) => Some(o.clone()),
        Expect::Unsat => None,
        // deviations unconstrained: compare outputs with what they are
        Expect::UnsatHonest => Some(h.outs.clone()),
    };
    let t_ex = std::time::Instant::now();
    let ex = explore(&c.g, &h, &devs, expected_outs.as_deref());
    let prof = std::env::var("VERIF_PROFILE").is_ok();
    if prof {
        eprintln!("profile-section {} explore {} devs {:.2}s panics={} generr={} sat={} unsat_samples={} must={}", c.g.name, devs.len(), t_ex.elapsed().as_secs_f64(), ex.n_panic, ex.n_generr, ex.n_sat, ex.unsat_samples.len(), ex.must_confirm.len());
    }
    rep.n_devs = ex.n_devs;
    rep.n_sat = ex.n_sat;
    rep.n_panic = ex.n_panic;
    rep.n_generr = ex.n_generr;
    rep.n_layout_changed = ex.n_layout_changed;
    for (d, outs) in ex.wrong_outputs.iter().take(3) {
        let sig = match &c.expect {
            Expect::Sat(_) => format!("{}/satisfiable-with-other-output", c.class),
            Expect::Unsat | Expect::UnsatHonest => format!("{}/satisfiable-despite-precondition", c.class),
        };
        let mut j = dev_json(&c.g, &h, d);
        j["outputs"] = json!(outs.iter().map(hex).collect::<Vec<_>>());
        rep.violations.push((sig, format!("{} deviation {}: M1-satisfiable assignment returns {:?}", c.g.name, d.tag, outs.iter().map(hex).collect::<Vec<_>>()), j));
    }
    // wire-level deviations: one position re-pointed to a fresh witness whose
    // value keeps every row identity satisfied (only the copy constraint breaks)
    let t_rw = std::time::Instant::now();
    let rex = if c.rewire { Some(explore_rewirings(&h, crate::rows::init_rows())) } else { None };
    if prof {
        eprintln!("profile-section {} rewire {:.2}s", c.g.name, t_rw.elapsed().as_secs_f64());
    }
    let t_cf = std::time::Instant::now();
    if let Some(rex) = &rex {
        rep.n_rewire = rex.n;
        rep.n_pure_copy_breaks = rex.pure_copy_breaks.len() as u64;
        // a detached position that still satisfies everything carries a witness
        // used nowhere else (no copy constraint exists): informational
        rep.n_rewire_free = rex.satisfiable.len() as u64;
    }
    // real-prover confirmation of the model's verdicts
    if c.confirm {
        match cache.get(&c.g, rep.layout) {
            // too small an SRS for this case is a sizing mistake of the harness, not a verdict
            Err(e) if e.contains("TruncatedDegreeTooLarge") || e.contains("DegreeIsZero") => rep.machinery.push(format!("{}: compile for confirmation failed: {} (harness SRS too small)", c.g.name, e)),
            Err(e) => rep.violations.push((format!("{}/compile-failed", c.class), e.clone(), json!({"gadget": c.g.name, "error": e}))),
            Ok(conf) => {
                let mut todo: Vec<(Vec<(usize, Fe)>, bool, String)> = vec![(vec![], hsat, "honest".into())];
                for d in ex.sat.iter().take(6) {
                    todo.push((d.script.clone(), true, d.tag.clone()));
                }
                for (_, d) in ex.unsat_samples.iter().take(5) {
                    todo.push((d.script.clone(), false, d.tag.clone()));
                }
                for (d, sat) in ex.must_confirm.iter() {
                    todo.push((d.script.clone(), *sat, d.tag.clone()));
                }
                // every pure copy break must be rejected by the real prover
                if let Some(rex) = &rex {
                    // one candidate per wire position first (last rows first: consumers
                    // of the gadget's outputs), then the rest, up to a cap
                    let mut ordered: Vec<&Rewire> = vec![];
                    let mut seen_pos = std::collections::HashSet::new();
                    for rw in rex.pure_copy_breaks.iter().rev() {
                        if seen_pos.insert((rw.row, rw.wire)) {
                            ordered.push(rw);
                        }
                    }
                    for rw in rex.pure_copy_breaks.iter() {
                        if !ordered.iter().any(|o| std::ptr::eq(*o, rw)) {
                            ordered.push(rw);
                        }
                    }
                    for rw in ordered.into_iter().take(c.rewire_confirm_cap) {
                        let p = rewired_prog(&h, rw);
                        let real = conf.run_prog(&p);
                        rep.confirmed += 1;
                        if real != Real::Unsatisfied {
                            rep.violations.push((
                                format!("{}/copy-break-real-{}", c.class, format!("{:?}", real).split('(').next().unwrap()),
                                format!("{} {}: every row identity holds and only the compiled copy constraint is broken, yet the real prover/verifier gave {:?}", c.g.name, rw.tag, real),
                                json!({"gadget": c.g.name, "inputs": inputs_json, "rewire": rw.tag, "row": rw.row, "wire": rw.wire, "value": hex(&rw.value), "real": format!("{:?}", real)}),
                            ));
                        }
                    }
                }
                for (script, model_sat, tag) in todo {
                    let real = conf.run(&c.g, &script);
                    rep.confirmed += 1;
                    let ok = match (&real, model_sat) {
                        (Real::Accepted, true) => true,
                        (Real::Unsatisfied, false) => true,
                        _ => false,
                    };
                    if !ok {
                        rep.violations.push((
                            format!("{}/model-{}-real-{}", c.class, if model_sat { "sat" } else { "unsat" }, format!("{:?}", real).split('(').next().unwrap()),
                            format!("{} [{}]: M1 says {} but the real prover/verifier gave {:?}", c.g.name, tag, if model_sat { "satisfied" } else { "unsatisfied" }, real),
                            json!({"gadget": c.g.name, "inputs": inputs_json, "deviation": tag, "script": script.iter().map(|(k, v)| json!([k, hex(v)])).collect::<Vec<_>>(), "real": format!("{:?}", real)}),
                        ));
                    }
                }
            }
        }
    }
    if prof {
        eprintln!("profile-section {} confirm {:.2}s", c.g.name, t_cf.elapsed().as_secs_f64());
    }
    rep
}

/// Fold case reports into the run.
pub fn absorb(run: &mut Run, reports: Vec<Result<CaseReport, String>>, names: &[String]) {
    let mut layouts = std::collections::HashSet::new();
    for (r, name) in reports.into_iter().zip(names) {
        match r {
            Err(p) => run.machinery(format!("harness panic in case {}: {}", name, p)),
            Ok(rep) => {
                if std::env::var("VERIF_PROFILE").is_ok() {
                    eprintln!("profile {} class={} rows={} devs={} rewire={} confirmed={} wall={:.1}s", rep.name, rep.class, rep.rows, rep.n_devs, rep.n_rewire, rep.confirmed, rep.wall_s);
                }
                run.evaluations += 1 + rep.n_devs;
                run.transitions += 1 + rep.n_devs;
                run.traces_validated += rep.confirmed;
                layouts.insert(rep.layout);
                run.outcome(&format!("honest:{}", rep.honest_state));
                run.outcome_n("deviations", rep.n_devs);
                run.outcome_n("deviations:model-satisfiable", rep.n_sat);
                run.outcome_n("deviations:generator-panic", rep.n_panic);
                run.outcome_n("deviations:generator-error", rep.n_generr);
                run.outcome_n("deviations:layout-changed", rep.n_layout_changed);
                run.outcome_n("rewirings", rep.n_rewire);
                run.outcome_n("rewirings:pure-copy-breaks", rep.n_pure_copy_breaks);
                run.outcome_n("rewirings:unconstrained-single-use-witness", rep.n_rewire_free);
                run.evaluations += rep.n_rewire;
                run.transitions += rep.n_rewire;
                if rep.n_devs > 0 || rep.honest_state != "generator-error" {
                    run.nontrivial(rep.key);
                }
                if run.samples.len() < 8 {
                    run.sample(json!({"case": rep.name, "class": rep.class, "rows": rep.rows, "honest": rep.honest_state, "deviations": rep.n_devs, "model_satisfiable_deviations": rep.n_sat, "prover_runs": rep.confirmed}));
                }
                for m in rep.machinery {
                    run.machinery(m);
                }
                for (sig, what, j) in rep.violations {
                    run.violation(&sig, &what, j);
                }
            }
        }
    }
    run.states += layouts.len() as u64;
}

/// Replay one recorded violation: re-run the case the replay file names
/// (twice, asserting identical observations) without the rest of the sweep.
pub fn replay(mut run: Run, cases: &[GCase], cache: &ConfirmCache, r: &Value) -> i32 {
    run.set_replay_mode();
    let name = r["case"]["gadget"].as_str().unwrap_or("");
    let inputs: Vec<String> = r["case"]["inputs"].as_array().map(|a| a.iter().map(|x| x.as_str().unwrap_or("").to_string()).collect()).unwrap_or_default();
    let found = cases.iter().find(|c| c.g.name == name && c.g.inputs.iter().map(hex).collect::<Vec<_>>() == inputs);
    let Some(c) = found else {
        run.machinery(format!("replay: case {} {:?} not in this tier's enumeration", name, inputs));
        return run.finish();
    };
    let a = run_case(c, cache);
    let b = run_case(c, cache);
    let sa: Vec<&String> = a.violations.iter().map(|v| &v.0).collect();
    let sb: Vec<&String> = b.violations.iter().map(|v| &v.0).collect();
    if sa != sb {
        run.machinery("replay diverged between two runs".into());
    }
    println!("replay {} inputs {:?}: honest={} deviations={} model-satisfiable={} violations={:?}", name, inputs, a.honest_state, a.n_devs, a.n_sat, sa);
    for (sig, what, j) in a.violations {
        run.violation(&sig, &what, j);
    }
    run.finish()
}


/// Generic adversary against any gadget built from variable-base curve-addition rows:
/// for every such row inside the gadget and for each OPERAND role (first / second)
/// whose coordinates the gadget allocated itself, the second solution (u, v) of the
/// row's two addition identities with the other operand and the result held fixed —
/// an off-curve pair in general — together with the matching helper wire x1*y2.
/// (u q + v p = x3 (1 + d u v p q), v q + u p = y3 (1 - d u v p q) is linear in (u, v)
/// for fixed t = u v, so t obeys a quadratic whose other root Vieta gives.)
/// The identities alone do not exclude it; only what else the gadget pins does.
pub fn add_row_role_forgeries(h: &Honest) -> Vec<Dev> {
    use crate::m1::{edwards_d, QVAR};
    let mut devs = vec![];
    let snap = &h.snap;
    let (lo, hi) = (h.meta.lo, h.meta.hi);
    let own = |w: usize| w >= lo && w < hi;
    let n = snap.gates.len();
    for row in 0..n.saturating_sub(1) {
        let g = &snap.gates[row];
        if g.q[QVAR] == zero() {
            continue;
        }
        let nx = &snap.gates[row + 1];
        let val = |w: usize| snap.witnesses[w];
        let (x1, y1, x2, y2) = (val(g.w[0]), val(g.w[1]), val(g.w[2]), val(g.w[3]));
        let (x3, y3) = (val(nx.w[0]), val(nx.w[1]));
        let helper = nx.w[3];
        for first in [true, false] {
            // unknown operand (u, v) on wires (wu, wv); known operand (p, q)
            let (wu, wv, u0, v0, p, q) = if first { (g.w[0], g.w[1], x1, y1, x2, y2) } else { (g.w[2], g.w[3], x2, y2, x1, y1) };
            if !own(wu) || !own(wv) || !own(helper) || wu == wv {
                continue;
            }
            let det = q * q - p * p;
            if det == zero() {
                continue;
            }
            let di = inv(det);
            let k = edwards_d() * p * q;
            let a0 = (q * x3 - p * y3) * di;
            let a1 = k * (q * x3 + p * y3) * di;
            let b0 = (q * y3 - p * x3) * di;
            let b1 = -(k * (q * y3 + p * x3)) * di;
            let qa = a1 * b1;
            if qa == zero() {
                continue;
            }
            let t0 = u0 * v0;
            // t0 + t1 = -(a0 b1 + a1 b0 - 1) / (a1 b1)
            let t1 = -(a0 * b1 + a1 * b0 - one()) * inv(qa) - t0;
            if t1 == t0 {
                continue;
            }
            let (u, v) = (a0 + a1 * t1, b0 + b1 * t1);
            if u * v != t1 {
                // the honest pair was not a root (the row is already violated): nothing to forge
                continue;
            }
            let w = if first { u * q } else { p * v };
            devs.push(Dev { script: vec![(wu, u), (wv, v), (helper, w)], tag: format!("second-root/row{}/{}-operand", row, if first { "first" } else { "second" }), must_confirm: true });
        }
    }
    devs
}
