//! Counting global allocator (thin wrapper over `System`).
//!
//! Counting is gated on a thread-local flag, so every other check pays one
//! thread-local load per allocation. While a thread measures, the net bytes
//! it allocated since `measure` started (`cur`) and their maximum (`peak`)
//! are tracked; a request that would push `cur` above the thread's hard cap
//! is refused (returns null -> the process aborts -> the C17 parent sees a
//! crashed child and attributes it to a single case).
//!
//! Other checks (C15) can reuse `measure` / `measure_capped`; a crate can
//! hold only one `#[global_allocator]`.

use std::alloc::{GlobalAlloc, Layout, System};
use std::cell::Cell;

thread_local! {
    static ON: Cell<bool> = const { Cell::new(false) };
    static CUR: Cell<isize> = const { Cell::new(0) };
    static PEAK: Cell<isize> = const { Cell::new(0) };
    static CAP: Cell<isize> = const { Cell::new(isize::MAX) };
    static ALLOCS: Cell<u64> = const { Cell::new(0) };
}

pub struct Counting;

#[inline]
fn on() -> bool {
    ON.try_with(|c| c.get()).unwrap_or(false)
}

/// Returns false when the request must be refused.
#[inline]
fn add(n: usize) -> bool {
    let n = n as isize;
    let cur = CUR.with(|c| c.get());
    let new = cur.saturating_add(n);
    if n > 0 && new > CAP.with(|c| c.get()) {
        return false;
    }
    CUR.with(|c| c.set(new));
    PEAK.with(|p| {
        if new > p.get() {
            p.set(new)
        }
    });
    ALLOCS.with(|a| a.set(a.get() + 1));
    true
}
#[inline]
fn sub(n: usize) {
    CUR.with(|c| c.set(c.get().saturating_sub(n as isize)));
}

fn denied(n: usize) {
    use std::io::Write;
    // stderr is unbuffered: no allocation here.
    let mut buf = [0u8; 64];
    let mut w = &mut buf[..];
    let _ = write!(w, "C17-ALLOC-DENIED {}\n", n);
    let used = 64 - w.len();
    let _ = std::io::stderr().write_all(&buf[..used]);
}

unsafe impl GlobalAlloc for Counting {
    unsafe fn alloc(&self, l: Layout) -> *mut u8 {
        if on() {
            if !add(l.size()) {
                denied(l.size());
                return std::ptr::null_mut();
            }
            let p = System.alloc(l);
            if p.is_null() {
                sub(l.size());
            }
            p
        } else {
            System.alloc(l)
        }
    }
    unsafe fn alloc_zeroed(&self, l: Layout) -> *mut u8 {
        if on() {
            if !add(l.size()) {
                denied(l.size());
                return std::ptr::null_mut();
            }
            let p = System.alloc_zeroed(l);
            if p.is_null() {
                sub(l.size());
            }
            p
        } else {
            System.alloc_zeroed(l)
        }
    }
    unsafe fn dealloc(&self, p: *mut u8, l: Layout) {
        if on() {
            sub(l.size());
        }
        System.dealloc(p, l)
    }
    unsafe fn realloc(&self, p: *mut u8, l: Layout, new: usize) -> *mut u8 {
        if on() {
            if new > l.size() {
                if !add(new - l.size()) {
                    denied(new);
                    return std::ptr::null_mut();
                }
                let q = System.realloc(p, l, new);
                if q.is_null() {
                    sub(new - l.size());
                }
                q
            } else {
                let q = System.realloc(p, l, new);
                if !q.is_null() {
                    sub(l.size() - new);
                }
                q
            }
        } else {
            System.realloc(p, l, new)
        }
    }
}

#[global_allocator]
static GLOBAL: Counting = Counting;

struct Guard {
    prev_on: bool,
    prev_cur: isize,
    prev_peak: isize,
    prev_cap: isize,
}
impl Drop for Guard {
    fn drop(&mut self) {
        ON.with(|c| c.set(self.prev_on));
        CUR.with(|c| c.set(self.prev_cur));
        PEAK.with(|c| c.set(self.prev_peak));
        CAP.with(|c| c.set(self.prev_cap));
    }
}

/// Peak net bytes allocated by `f` on the calling thread (allocations made by
/// other threads on behalf of `f` are not seen: run `f` inside a one-thread
/// rayon pool, as `par::par_map` does). A panic in `f` is caught and returned
/// as `Err(message)`. `cap` refuses any request that would exceed it.
pub fn measure_capped<R>(cap: usize, f: impl FnOnce() -> R) -> (Result<R, String>, usize, u64) {
    let g = Guard {
        prev_on: ON.with(|c| c.get()),
        prev_cur: CUR.with(|c| c.get()),
        prev_peak: PEAK.with(|c| c.get()),
        prev_cap: CAP.with(|c| c.get()),
    };
    CUR.with(|c| c.set(0));
    PEAK.with(|c| c.set(0));
    CAP.with(|c| c.set(cap.min(isize::MAX as usize) as isize));
    let a0 = ALLOCS.with(|a| a.get());
    ON.with(|c| c.set(true));
    let r = std::panic::catch_unwind(std::panic::AssertUnwindSafe(f));
    ON.with(|c| c.set(false));
    let peak = PEAK.with(|c| c.get()).max(0) as usize;
    let n = ALLOCS.with(|a| a.get()) - a0;
    drop(g);
    (r.map_err(crate::par::panic_msg), peak, n)
}

pub fn measure<R>(f: impl FnOnce() -> R) -> (Result<R, String>, usize, u64) {
    measure_capped(isize::MAX as usize, f)
}
