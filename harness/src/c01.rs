//! C01 — completeness: every satisfied circuit proves and verifies, on the
//! direct, compressed and serialized routes.

use dusk_plonk::prelude::*;
use serde_json::json;

use crate::c05::{merged_row, Fam};
use crate::e1::{self, Obs, RouteObs};
use crate::ev::{Run, Tier};
use crate::fe::*;
use crate::prog::Prog;

#[derive(Clone, Debug)]
pub enum Shape {
    Filler,
    /// public inputs on the listed rows (counted from 0; rows < 4 are the init rows)
    Pi(Vec<isize>),
    /// custom-gate row as the very last row (next-row wires wrap to row 0 / padding)
    CustomLast(Fam),
}

/// A circuit with exactly `c` constraints.
pub fn sized(c: usize, shape: &Shape) -> Prog {
    let shape = shape.clone();
    Prog::new(move |comp| {
        let init = crate::rows::init_rows();
        let user = c - init;
        let z = Composer::ZERO;
        let pi_rows: Vec<usize> = match &shape {
            Shape::Pi(rows) => rows.iter().map(|r| if *r < 0 { (c as isize + *r) as usize } else { *r as usize }).collect(),
            _ => vec![],
        };
        let custom_last = matches!(shape, Shape::CustomLast(_));
        let mut w_prev = comp.append_witness(fe(17));
        for i in 0..user {
            let row = init + i;
            if custom_last && row == c - 1 {
                if let Shape::CustomLast(f) = &shape {
                    // all-zero wires satisfy every custom family with zero next-row wires
                    let r = merged_row(&[*f]);
                    comp.verif_raw_gate(r.q, None, [z; 4]);
                }
            } else if pi_rows.contains(&row) {
                // a - PI = 0 on this row, value depends on the row (incl. a zero one)
                let v = if row % 3 == 0 { zero() } else { fe(1000 + row as u64) };
                let a = comp.append_witness(v);
                comp.assert_equal_constant(a, zero(), Some(v));
            } else if i % 3 == 0 {
                // chained multiplication rows keep the permutation non-trivial
                let b = comp.append_witness(fe(3));
                w_prev = comp.gate_mul(Constraint::new().mult(1).a(w_prev).b(b));
            } else if i % 3 == 1 {
                comp.assert_equal(w_prev, w_prev);
            } else {
                comp.verif_raw_gate([zero(); 11], None, [z; 4]);
            }
        }
        Ok(())
    })
}

fn route_failure(r: &RouteObs) -> Option<String> {
    if let Some(e) = &r.compile_err {
        return Some(format!("compile: {}", e));
    }
    if !r.ran {
        return Some("route did not run".into());
    }
    if let Some(e) = &r.prove_err {
        return Some(format!("prove: {}", e));
    }
    if let Some(e) = &r.verify_err {
        return Some(format!("verify: {}", e));
    }
    None
}

/// Judge one pipeline observation for C01.
fn judge(run: &mut Run, name: &str, class: &str, obs: &Obs, case: serde_json::Value) {
    run.transitions += 1;
    run.evaluations += 1;
    if let Some(e) = &obs.build_err {
        run.outcome("build-error");
        run.violation(&format!("{}/build-error", class), &format!("{}: circuit did not build: {}", name, e), case);
        return;
    }
    if !obs.model_sat {
        // not a completeness case; only require that nothing verifies falsely / panics
        run.outcome("model-unsatisfied(skipped)");
        return;
    }
    if name.contains("/min-") {
        // below the documented capacity: compilation may be refused (then there
        // is nothing to prove); if it is NOT refused, completeness applies
        if obs.direct.compile_err.is_some() && (obs.compressed.compile_err.is_some() || obs.compress_err.is_some()) {
            run.outcome("below-capacity:compile-refused");
            return;
        }
        run.outcome("below-capacity:compiled");
    }
    run.nontrivial(fnv(name.as_bytes()) ^ obs.layout);
    let snap = obs.snap.as_ref().unwrap();
    let want_pis: Vec<Fe> = snap.public_inputs.iter().map(|(_, v)| *v).collect();
    // the independent reference verifier M2 must accept the honest proof too
    // (small domains): a prover and verifier that drifted TOGETHER away from
    // the protocol still satisfy each other
    if obs.direct.ran && obs.direct.prove_err.is_none() && obs.constraints <= 64 {
        if let (Ok(vd), Ok(pd)) = (crate::m2::parse_verifier(&obs.direct.verifier_bytes), crate::m2::parse_proof(&obs.direct.proof)) {
            run.traces_validated += 1;
            if !crate::m2::verify(&vd, &pd, &obs.direct.pis, crate::m2::Version::V3) {
                run.violation(&format!("{}/reference-verifier-rejects-honest-proof", class), &format!("{}: the real verifier accepts the honest proof but the reference verifier M2 rejects it", name), case.clone());
            } else {
                run.outcome("m2:accepts-honest-proof");
            }
        }
    }
    // same keys, same instance, same RNG script: the three routes must produce the same proof
    if obs.direct.ran && obs.direct.prove_err.is_none() {
        for (rn, r) in [("compressed", &obs.compressed), ("serialized", &obs.serialized)] {
            if r.ran && r.prove_err.is_none() && r.proof != obs.direct.proof {
                run.violation(&format!("{}/{}/proof-differs-from-direct-route", class, rn), &format!("{}: the {} route produced a different proof from the same RNG script", name, rn), case.clone());
            }
        }
    }
    for (rn, r) in [("direct", &obs.direct), ("compressed", &obs.compressed), ("serialized", &obs.serialized)] {
        run.traces_validated += 1;
        if rn == "compressed" {
            if let Some(e) = &obs.compress_err {
                run.violation(&format!("{}/compress-failed", class), &format!("{}: Circuit::compress failed: {}", name, e), case.clone());
                continue;
            }
        }
        match route_failure(r) {
            Some(f) => {
                run.outcome(&format!("{}:failed", rn));
                let stage = f.split(':').next().unwrap_or("").to_string();
                run.violation(&format!("{}/{}/{}-failed", class, rn, stage), &format!("{} ({} constraints): satisfied instance failed on the {} route: {}", name, obs.constraints, rn, f), case.clone());
            }
            None => {
                run.outcome(&format!("{}:proved+verified", rn));
                if r.pis != want_pis {
                    run.violation(&format!("{}/{}/public-inputs-differ", class, rn), &format!("{}: prover returned PIs {:?}, the instance's PI rows hold {:?}", name, r.pis.iter().map(hex).collect::<Vec<_>>(), want_pis.iter().map(hex).collect::<Vec<_>>()), case.clone());
                }
            }
        }
    }
}

pub fn main(tier: Tier, replay: Option<serde_json::Value>) -> i32 {
    let mut run = Run::new("C01", tier, "model_checking");
    run.rule = "(a) size sweep: every constraint count within +-8 of 2^k (k = 3..9 quick, 3..12 thorough) in shapes {filler, PI on first user row / row c-2 / last row / adjacent rows, custom-gate row on the last row} x SRS capacities {minimal admitting, minimal+1, ample} x 2 labels; (b) all E1 programs (breadth-first sequences of public composer operations, depth <= 2, depth 3 on a reduced cheap alphabet in thorough; chained and shared operands); every state is decided by M1 and, when satisfied, must compile, prove, return the instance's PI rows in order and verify on the direct, compressed and serialized routes; non-trivial = distinct satisfied states".into();
    if replay.is_some() {
        run.set_replay_mode();
    }
    let replay_name: Option<String> = replay.as_ref().and_then(|r| r["case"]["name"].as_str().map(|s| s.to_string()));
    let kmax = tier.pick(9usize, 12usize);
    eprintln!("[C01] start {:.1}s", run.elapsed());
    let full = crate::setup::pp(((1usize << (kmax + 1)) + 64).max((1usize << if tier == Tier::Thorough { 14 } else { 13 }) + 64));

    eprintln!("[C01] setup done at {:.1}s", run.elapsed());
    // ---- (a) size sweep -----------------------------------------------------
    struct Sized {
        name: String,
        c: usize,
        shape: Shape,
        cap: &'static str,
        label: Vec<u8>,
    }
    let mut items: Vec<Sized> = vec![];
    for k in 3..=kmax {
        let lo = (1usize << k).saturating_sub(8).max(5);
        let hi = (1usize << k) + 8;
        for c in lo..=hi {
            // quick: for k >= 7 only the sizes on the two boundaries (trim boundary 2^k - 6 and domain boundary 2^k)
            if tier == Tier::Quick && k >= 7 && !(c + 7 >= (1 << k) && c + 5 <= (1 << k) || c + 1 >= (1 << k) && c <= (1 << k) + 1) {
                continue;
            }
            let mut shapes: Vec<(String, Shape)> = vec![("filler".into(), Shape::Filler)];
            // quick: the full shape menu only next to the boundaries (2^k and 2^k - 6)
            let p2 = 1usize << k;
            let boundary = c + 2 >= p2 && c <= p2 + 2 || c + 8 >= p2 && c + 4 <= p2;
            if c >= 8 && tier == Tier::Quick && !boundary {
                shapes.push(("pi-last".into(), Shape::Pi(vec![-1])));
            } else if c >= 8 {
                shapes.push(("pi-first".into(), Shape::Pi(vec![4])));
                shapes.push(("pi-last".into(), Shape::Pi(vec![-1])));
                shapes.push(("pi-c-2".into(), Shape::Pi(vec![-2])));
                shapes.push(("pi-adjacent-last".into(), Shape::Pi(vec![-2, -1])));
                shapes.push(("pi-first+adjacent".into(), Shape::Pi(vec![4, 5, -1])));
            }
            let fams = [Fam::Range, Fam::And, Fam::Xor, Fam::Fixed, Fam::Var];
            let fam = fams[c % 5];
            shapes.push((format!("custom-last-{:?}", fam), Shape::CustomLast(fam)));
            if tier == Tier::Thorough && (c == (1 << k) || c == (1 << k) - 1) {
                for f in fams {
                    if f != fam {
                        shapes.push((format!("custom-last-{:?}", f), Shape::CustomLast(f)));
                    }
                }
            }
            for (sn, sh) in shapes {
                // capacities: minimal for all; the other two on the boundary sizes
                let near = c + 6 >= (1 << k) - 1 && c + 6 <= (1 << k) + 1 || c == (1 << k) || c == (1 << k) - 1 || c == (1 << k) + 1;
                // capacities below the minimum may or may not compile; IF they compile,
                // the statement still promises a working prover
                let caps: Vec<&'static str> = if near || tier == Tier::Thorough { vec!["min", "min+1", "ample", "min-1", "min-3", "min-7"] } else { vec!["min", "min-2"] };
                for cap in caps {
                    let label: Vec<u8> = if (c + sn.len()) % 2 == 0 { vec![] } else { b"nine-byte".to_vec() };
                    items.push(Sized { name: format!("size/c{}/{}/{}", c, sn, cap), c, shape: sh.clone(), cap, label });
                }
            }
        }
    }
    if let Some(n) = &replay_name {
        items.retain(|i| &i.name == n);
    }
    run.bound("size_sweep_cases", json!(items.len()));
    let outs = crate::par::par_map(&items, |it| {
        let n = e1::min_degree(it.c);
        let points = match it.cap {
            "min" => n + 7,
            "min+1" => n + 8,
            "min-1" => n + 6,
            "min-2" => n + 5,
            "min-3" => n + 4,
            "min-7" => n,
            _ => full.max_degree() + 1,
        };
        let pp = crate::setup::truncate_pp(&full, points);
        let prog = sized(it.c, &it.shape);
        let obs = e1::pipeline(&prog, &pp, &it.label, (true, true, true));
        (obs.constraints == it.c, obs.slim())
    });
    let mut layouts = std::collections::HashSet::new();
    for (it, o) in items.iter().zip(outs) {
        match o {
            Err(p) => run.machinery(format!("harness panic {}: {}", it.name, p)),
            Ok((exact, obs)) => {
                if !exact {
                    run.machinery(format!("{}: built {} constraints instead of {}", it.name, obs.constraints, it.c));
                }
                layouts.insert(obs.layout);
                let case = json!({"name": it.name, "constraints": it.c, "shape": format!("{:?}", it.shape), "capacity": it.cap, "label_len": it.label.len()});
                if run.samples.len() < 4 && it.c % 61 == 3 {
                    run.sample(case.clone());
                }
                judge(&mut run, &it.name, "size", &obs, case);
            }
        }
    }

    eprintln!("[C01] size sweep done at {:.1}s", run.elapsed());
    // ---- (b) programs -------------------------------------------------------
    let alpha = e1::alphabet();
    let mut progs = match tier {
        Tier::Quick => {
            // quick: all single operations, every second ordered pair
            let mut v = e1::programs(&alpha, 2, 0, 3);
            v.retain(|p| p.ops.len() == 1 || !alpha[p.ops[0]].cheap || !alpha[p.ops[1]].cheap || (p.ops[0] + p.ops[1]) % 2 == 0);
            v
        }
        Tier::Thorough => e1::programs(&alpha, 2, 3, 12),
    };
    if let Some(n) = &replay_name {
        progs.retain(|p| &format!("program/{}", p.name) == n);
    }
    run.bound("programs", json!(progs.len()));
    run.bound("alphabet", json!(alpha.iter().map(|o| o.name).collect::<Vec<_>>()));
    let pp = crate::setup::truncate_pp(&full, (1usize << if tier == Tier::Thorough { 14 } else { 13 }) + 7);
    let outs = crate::par::par_map(&progs, |p| {
        let prog = e1::program_prog(&alpha, p);
        let label: &[u8] = if p.ops.len() % 2 == 0 { b"" } else { b"e1-label9" };
        e1::pipeline(&prog, &pp, label, (true, true, true)).slim()
    });
    // ---- (c) the named circuits of C15 (selector values from the compressor's built-in
    // tables, PI patterns per selector tuple, unused witnesses, ...) on all three routes
    let mut named = crate::c15::named_circuits();
    if tier == Tier::Thorough {
        named.push(crate::c15::big_description_circuit());
    }
    let named: Vec<&crate::c15::Item> = named.iter().filter(|i| replay_name.as_ref().map_or(true, |n| &i.name == n)).collect();
    run.bound("named_circuits", json!(named.len()));
    let nouts = crate::par::par_map(&named, |it| e1::pipeline(&it.prog, &pp, b"c01-named", (true, true, true)).slim());
    for (it, o) in named.iter().zip(nouts) {
        match o {
            Err(e) => run.machinery(format!("harness panic named circuit {}: {}", it.name, e)),
            Ok(obs) => {
                layouts.insert(obs.layout);
                let case = json!({"name": it.name, "constraints": obs.constraints});
                let class = it.name.split('/').take(2).collect::<Vec<_>>().join("/");
                judge(&mut run, &it.name, &class, &obs, case);
            }
        }
    }
    for (p, o) in progs.iter().zip(outs) {
        match o {
            Err(e) => run.machinery(format!("harness panic program {}: {}", p.name, e)),
            Ok(obs) => {
                layouts.insert(obs.layout);
                let case = json!({"name": format!("program/{}", p.name), "ops": p.ops.iter().map(|i| alpha[*i].name).collect::<Vec<_>>(), "constraints": obs.constraints});
                if run.samples.len() < 8 && p.ops.len() == 2 && obs.constraints % 7 == 0 {
                    run.sample(case.clone());
                }
                let class = if p.ops.len() == 1 { format!("program/{}", alpha[p.ops[0]].name) } else { format!("program/depth{}", p.ops.len()) };
                judge(&mut run, &p.name, &class, &obs, case);
            }
        }
    }
    run.states = layouts.len() as u64;
    run.gate("satisfied states on all three routes", run.count("direct:proved+verified") > 100 && run.count("compressed:proved+verified") > 100 && run.count("serialized:proved+verified") > 100);
    run.gate("few model-unsatisfied programs", run.count("model-unsatisfied(skipped)") * 20 <= run.transitions);
    run.assumptions = vec![
        "M1 (bound to the prover by C05) decides which states are satisfied".into(),
        "RNG draws are scripted non-zero (the degenerate-blinder escape is excluded, not relied on)".into(),
        "sizes above 2^12 and depth > 3 are not explored".into(),
    ];
    run.finish()
}
