//! E2 — deviation-bounded witness explorer (the malicious prover).
//!
//! A gadget call with pinned inputs is run once honestly; then every set of
//! <= d allocation ordinals inside the gadget x every replacement value is
//! re-run through the REAL witness generator with the append-time script, so
//! everything allocated later is recomputed honestly from the deviated state.
//! Every resulting assignment is decided by M1 against the honest layout.

use std::sync::{Arc, Mutex};

use dusk_plonk::prelude::*;
use dusk_plonk::verif::Snapshot;
use serde_json::{json, Value};

use crate::fe::*;
use crate::m1;
use crate::prog::Prog;
use crate::rows::Real;

pub type GadgetFn = Arc<dyn Fn(&mut Composer, &[Witness]) -> Result<Vec<Witness>, Error> + Send + Sync>;

#[derive(Clone)]
pub struct Gadget {
    pub name: String,
    pub inputs: Vec<Fe>,
    pub f: GadgetFn,
    /// pass the composer's own constant witnesses `Composer::ZERO` / `ONE` for
    /// inputs whose value is 0 / 1 instead of allocating fresh witnesses
    pub const_handles: bool,
    /// operations applied to the input witnesses BEFORE the gadget (a non-initial
    /// composer state: the inputs have a history); run honestly, not explored
    pub prelude: Option<PreludeFn>,
    /// the prelude's allocations belong to the adversary too (window starts before it)
    pub explore_prelude: bool,
}

pub type PreludeFn = Arc<dyn Fn(&mut Composer, &[Witness]) -> Result<(), Error> + Send + Sync>;

#[derive(Clone, Default, Debug)]
pub struct Meta {
    pub lo: usize,
    pub hi: usize,
    pub outs: Vec<usize>,
}

impl Gadget {
    pub fn with_prelude<P>(mut self, name: &str, p: P) -> Self
    where
        P: Fn(&mut Composer, &[Witness]) -> Result<(), Error> + Send + Sync + 'static,
    {
        self.prelude = Some(Arc::new(p));
        self.name = format!("{}/after:{}", self.name, name);
        self
    }
    pub fn with_const_handles(mut self) -> Self {
        self.const_handles = true;
        self.name = format!("{}/const-handles", self.name);
        self
    }
    pub fn new<F>(name: &str, inputs: Vec<Fe>, f: F) -> Self
    where
        F: Fn(&mut Composer, &[Witness]) -> Result<Vec<Witness>, Error> + Send + Sync + 'static,
    {
        Gadget { name: name.to_string(), inputs, f: Arc::new(f), const_handles: false, prelude: None, explore_prelude: false }
    }
    /// The circuit: allocate the pinned inputs, run the gadget, record the
    /// adversary-controlled ordinal range and the returned witnesses.
    pub fn prog(&self) -> (Prog, Arc<Mutex<Meta>>) {
        let meta = Arc::new(Mutex::new(Meta::default()));
        let m2 = meta.clone();
        let inputs = self.inputs.clone();
        let f = self.f.clone();
        let const_handles = self.const_handles;
        let prelude = self.prelude.clone();
        let explore_prelude = self.explore_prelude;
        let p = Prog::new(move |c| {
            let ins: Vec<Witness> = inputs
                .iter()
                .map(|v| {
                    if const_handles && *v == zero() {
                        Composer::ZERO
                    } else if const_handles && *v == one() {
                        Composer::ONE
                    } else {
                        c.append_witness(*v)
                    }
                })
                .collect();
            // pin rows: every input witness also sits on a (selector-free) row of
            // its own, standing for "wherever the input came from", so that
            // detaching a gadget wire from its input breaks a copy constraint
            // (an ACTIVE row `x * 0 = 0`, satisfied by any value: a selector-free
            // row might legitimately be left out of a permutation scheme)
            for x in &ins {
                c.append_gate(Constraint::new().mult(1).a(*x).b(Composer::ZERO));
            }
            let before_prelude = c.verif_witness_count();
            if let Some(pre) = &prelude {
                pre(c, &ins)?;
            }
            let lo = if explore_prelude { before_prelude } else { c.verif_witness_count() };
            let outs = f(c, &ins)?;
            let hi = c.verif_witness_count();
            // consumer rows for the returned witnesses, same shape: detaching a
            // consumer from the gadget's output must break a copy constraint
            for o in &outs {
                c.append_gate(Constraint::new().mult(1).a(*o).b(Composer::ZERO));
            }
            *m2.lock().unwrap() = Meta { lo, hi, outs: outs.iter().map(|w| w.index()).collect() };
            Ok(())
        });
        (p, meta)
    }
}

#[derive(Clone, Debug)]
pub struct Dev {
    pub script: Vec<(usize, Fe)>,
    pub tag: String,
    /// always replay this deviation on the real prover (crafted attacks)
    pub must_confirm: bool,
}

#[derive(Clone, Debug)]
pub enum DevOutcome {
    /// generator returned an error
    GenErr(String),
    /// generator panicked
    Panic(String),
    Decided { verdict: m1::Verdict, outs: Vec<Fe>, same_layout: bool },
}

pub struct Honest {
    pub model: m1::Model,
    pub layout: u64,
    pub snap: Snapshot,
    pub meta: Meta,
    pub verdict: m1::Verdict,
    pub outs: Vec<Fe>,
}

/// Honest run of the gadget.
pub fn honest(g: &Gadget) -> Result<Honest, String> {
    let (p, meta) = g.prog();
    let r = std::panic::catch_unwind(std::panic::AssertUnwindSafe(|| p.run()));
    match r {
        Err(e) => Err(format!("panic: {}", crate::par::panic_msg(e))),
        Ok(Err(e)) => Err(format!("error: {:?}", e)),
        Ok(Ok(snap)) => {
            let meta = meta.lock().unwrap().clone();
            let verdict = m1::decide_self(&snap);
            let outs = meta.outs.iter().map(|i| snap.witnesses[*i]).collect();
            let layout = m1::layout_key(&snap);
            let model = m1::Model::new(&snap);
            Ok(Honest { model, layout, snap, meta, verdict, outs })
        }
    }
}

/// Run one deviation through the real generator and decide it with M1
/// against the honest layout.
pub fn run_dev(g: &Gadget, h: &Honest, d: &Dev) -> DevOutcome {
    let (p, meta) = g.prog();
    let p = p.with_script(d.script.clone());
    let r = std::panic::catch_unwind(std::panic::AssertUnwindSafe(|| p.run()));
    // make sure a panic cannot leave the script installed on this thread
    dusk_plonk::verif::set_witness_script(&[]);
    match r {
        Err(e) => DevOutcome::Panic(crate::par::panic_msg(e)),
        Ok(Err(e)) => DevOutcome::GenErr(format!("{:?}", e)),
        Ok(Ok(snap)) => {
            let meta = meta.lock().unwrap().clone();
            let verdict = h.model.decide(&snap);
            let outs = meta.outs.iter().map(|i| snap.witnesses[*i]).collect();
            // cheap shape comparison here; full layout equality is C07's job
            let same_layout = snap.gates.len() == h.snap.gates.len() && snap.witnesses.len() == h.snap.witnesses.len();
            DevOutcome::Decided { verdict, outs, same_layout }
        }
    }
}

/// Default replacement values for an allocation whose honest value is `v`
/// (and whose predecessor allocation holds `prev`).
pub fn default_values(v: Fe, prev: Fe) -> Vec<(String, Fe)> {
    let mut out: Vec<(String, Fe)> = vec![
        ("+1".into(), v + one()),
        ("-1".into(), v - one()),
        ("+4".into(), v + fe(4)),
        ("x4".into(), v * fe(4)),
        ("neg".into(), -v),
        ("0".into(), zero()),
        ("1".into(), one()),
        ("prev".into(), prev),
    ];
    out.retain(|(_, x)| *x != v);
    let mut seen: Vec<Fe> = vec![];
    out.retain(|(_, x)| {
        if seen.contains(x) {
            false
        } else {
            seen.push(*x);
            true
        }
    });
    out
}

/// All bound-1 deviations of the gadget's own allocations.
pub fn bound1(h: &Honest, extra: &dyn Fn(usize, Fe) -> Vec<(String, Fe)>) -> Vec<Dev> {
    let mut devs = Vec::new();
    for k in h.meta.lo..h.meta.hi {
        let v = h.snap.witnesses[k];
        let prev = if k > 0 { h.snap.witnesses[k - 1] } else { zero() };
        let mut vals = default_values(v, prev);
        for (t, x) in extra(k, v) {
            if x != v && !vals.iter().any(|(_, y)| *y == x) {
                vals.push((t, x));
            }
        }
        for (t, x) in vals {
            devs.push(Dev { script: vec![(k, x)], tag: format!("o{}{}", k - h.meta.lo, t), must_confirm: false });
        }
    }
    devs
}

/// All bound-2 deviations over a reduced value menu (+1, -1, 0, x4).
pub fn bound2(h: &Honest) -> Vec<Dev> {
    let mut devs = Vec::new();
    let menu = |v: Fe| -> Vec<(&'static str, Fe)> {
        let mut m = vec![("+1", v + one()), ("-1", v - one()), ("0", zero()), ("x4", v * fe(4))];
        m.retain(|(_, x)| *x != v);
        m
    };
    for i in h.meta.lo..h.meta.hi {
        for j in i + 1..h.meta.hi {
            for (ti, xi) in menu(h.snap.witnesses[i]) {
                for (tj, xj) in menu(h.snap.witnesses[j]) {
                    devs.push(Dev {
                        script: vec![(i, xi), (j, xj)],
                        tag: format!("o{}{}+o{}{}", i - h.meta.lo, ti, j - h.meta.lo, tj),
                        must_confirm: false,
                    });
                }
            }
        }
    }
    devs
}

pub fn dev_json(g: &Gadget, h: &Honest, d: &Dev) -> Value {
    json!({
        "gadget": g.name,
        "inputs": g.inputs.iter().map(hex).collect::<Vec<_>>(),
        "deviation": d.tag,
        "script": d.script.iter().map(|(k, v)| json!({"ordinal_in_gadget": k - h.meta.lo, "witness_index": k, "value": hex(v)})).collect::<Vec<_>>(),
    })
}

/// Compile the honest circuit and execute instances on the real prover.
pub struct Confirm {
    pub prover: Prover,
    pub verifier: Verifier,
}

impl Confirm {
    pub fn new(g: &Gadget, pp: &PublicParameters) -> Result<Self, String> {
        let (p, _) = g.prog();
        let (prover, verifier) =
            Compiler::compile_with_circuit(pp, b"e2", &p).map_err(|e| format!("compile: {:?}", e))?;
        Ok(Confirm { prover, verifier })
    }
    pub fn run_prog(&self, p: &Prog) -> Real {
        self.run_inner(p)
    }
    pub fn run(&self, g: &Gadget, script: &[(usize, Fe)]) -> Real {
        let (p, _) = g.prog();
        let p = p.with_script(script.to_vec());
        self.run_inner(&p)
    }
    fn run_inner(&self, p: &Prog) -> Real {
        let mut rng = crate::rng::ScriptedRng::base(seed(), 7);
        let r = std::panic::catch_unwind(std::panic::AssertUnwindSafe(|| self.prover.prove(&mut rng, p)));
        dusk_plonk::verif::set_witness_script(&[]);
        match r {
            Err(e) => Real::Panic(crate::par::panic_msg(e)),
            Ok(Err(Error::CircuitUnsatisfied)) => Real::Unsatisfied,
            Ok(Err(Error::InvalidCircuitSize(_, _))) => Real::SizeMismatch,
            Ok(Err(e)) => Real::OtherErr(format!("{:?}", e)),
            Ok(Ok((proof, pi))) => match self.verifier.verify(&proof, &pi) {
                Ok(()) => Real::Accepted,
                Err(e) => Real::ProvedNotVerified(format!("{:?}", e)),
            },
        }
    }
}

/// Generic exploration summary used by the gadget checks.
pub struct Exploration {
    pub n_devs: u64,
    pub n_sat: u64,
    pub n_panic: u64,
    pub n_generr: u64,
    pub n_layout_changed: u64,
    /// satisfiable deviations whose outputs differ from the expected outputs
    pub wrong_outputs: Vec<(Dev, Vec<Fe>)>,
    /// all satisfiable deviations (for prover confirmation)
    pub sat: Vec<Dev>,
    /// one unsatisfiable deviation per failing component class
    pub unsat_samples: Vec<(usize, Dev)>,
    /// crafted deviations that must be replayed on the real prover, with the model's verdict
    pub must_confirm: Vec<(Dev, bool)>,
    pub panics: Vec<(Dev, String)>,
}

/// Explore `devs`; `expected_outs = None` means the inputs violate the
/// gadget's precondition: no deviation may be satisfiable at all.
pub fn explore(g: &Gadget, h: &Honest, devs: &[Dev], expected_outs: Option<&[Fe]>) -> Exploration {
    let mut ex = Exploration {
        n_devs: 0,
        n_sat: 0,
        n_panic: 0,
        n_generr: 0,
        n_layout_changed: 0,
        wrong_outputs: vec![],
        sat: vec![],
        unsat_samples: vec![],
        must_confirm: vec![],
        panics: vec![],
    };
    let mut seen_comp: std::collections::HashSet<Vec<usize>> = std::collections::HashSet::new();
    for d in devs {
        ex.n_devs += 1;
        match run_dev(g, h, d) {
            DevOutcome::Panic(m) => {
                ex.n_panic += 1;
                if ex.panics.len() < 4 {
                    ex.panics.push((d.clone(), m));
                }
            }
            DevOutcome::GenErr(_) => ex.n_generr += 1,
            DevOutcome::Decided { verdict, outs, same_layout } => {
                if !same_layout {
                    ex.n_layout_changed += 1;
                }
                if d.must_confirm && ex.must_confirm.len() < 24 {
                    ex.must_confirm.push((d.clone(), verdict.satisfied()));
                }
                if verdict.satisfied() {
                    ex.n_sat += 1;
                    ex.sat.push(d.clone());
                    match expected_outs {
                        None => ex.wrong_outputs.push((d.clone(), outs)),
                        Some(e) => {
                            if e != outs.as_slice() {
                                ex.wrong_outputs.push((d.clone(), outs));
                            }
                        }
                    }
                } else if let m1::Verdict::Rows { gate_fails, copy_fails } = &verdict {
                    // one sample per distinct SET of failing components, so
                    // that assignments violating a single component (the ones a
                    // weakened prover would let through) get replayed
                    let mut set: Vec<usize> = gate_fails.iter().map(|(_, c)| *c).collect();
                    set.sort();
                    set.dedup();
                    if !copy_fails.is_empty() {
                        set.push(99);
                    }
                    if let Some(first) = set.first().copied() {
                        if seen_comp.insert(set.clone()) {
                            let key = if set.len() == 1 { first } else { 100 + first };
                            ex.unsat_samples.push((key, d.clone()));
                        }
                    }
                }
            }
        }
    }
    // singletons first
    ex.unsat_samples.sort_by_key(|(k, _)| *k);
    ex
}

// ---------------------------------------------------------------------------
// Wire-level (copy-constraint) deviations: the instance keeps the compiled
// rows but re-points ONE wire position to a fresh witness with another value.
// ---------------------------------------------------------------------------

#[derive(Clone, Debug)]
pub struct Rewire {
    pub row: usize,
    pub wire: usize,
    pub value: Fe,
    pub tag: String,
}

/// Replay of the honest snapshot through raw rows, with one wire position
/// detached from its witness. Row count, selectors and public inputs are those
/// of the honest run; the prover only reads wire values from an instance.
pub fn rewired_prog(h: &Honest, rw: &Rewire) -> Prog {
    let snap = h.snap.clone();
    let rw = rw.clone();
    Prog::new(move |c| {
        let init_w = c.verif_witness_count();
        let init_rows = c.constraints();
        // same allocation order => same witness indices as in the snapshot
        for v in snap.witnesses.iter().skip(init_w) {
            c.append_witness(*v);
        }
        let fresh = c.append_witness(rw.value);
        let pis: std::collections::HashMap<usize, Fe> = snap.public_inputs.iter().cloned().collect();
        for (i, g) in snap.gates.iter().enumerate().skip(init_rows) {
            let mut w = [c.verif_witness(g.w[0]), c.verif_witness(g.w[1]), c.verif_witness(g.w[2]), c.verif_witness(g.w[3])];
            if i == rw.row {
                w[rw.wire] = fresh;
            }
            c.verif_raw_gate(g.q, pis.get(&i).copied(), w);
        }
        Ok(())
    })
}

/// Candidate rewirings of the gadget's rows: for every wire position, the
/// value that keeps the row's own identities satisfied when they are affine in
/// that wire (so that ONLY the copy constraint breaks), plus a small menu.
pub fn rewirings(h: &Honest, first_row: usize) -> Vec<Rewire> {
    let mut out = vec![];
    let n = h.snap.gates.len();
    let size = n.next_power_of_two();
    let val = |r: usize, k: usize| -> Fe {
        if r < n {
            h.snap.witnesses[h.snap.gates[r].w[k]]
        } else {
            zero()
        }
    };
    let pis: std::collections::HashMap<usize, Fe> = h.snap.public_inputs.iter().cloned().collect();
    for row in first_row..n {
        let g = &h.snap.gates[row];
        if g.q.iter().all(|q| *q == zero()) {
            continue;
        }
        for wire in 0..4 {
            let cur0 = [val(row, 0), val(row, 1), val(row, 2), val(row, 3)];
            let next = [val((row + 1) % size, 0), val((row + 1) % size, 1), val((row + 1) % size, 2), val((row + 1) % size, 3)];
            let pi = pis.get(&row).copied().unwrap_or(zero());
            let resid = |v: Fe| -> Vec<Fe> {
                let mut cur = cur0;
                cur[wire] = v;
                m1::row_components(&g.q, pi, &cur, &next).to_vec()
            };
            let honest_v = cur0[wire];
            let mut cands: Vec<(String, Fe)> = vec![];
            // affine solve on the arithmetic component
            let (r0, r1, r2) = (resid(zero())[0], resid(one())[0], resid(fe(2))[0]);
            let slope = r1 - r0;
            if slope != zero() && r2 - r1 == slope {
                cands.push(("solved".into(), -r0 * inv(slope)));
            } else if slope == zero() && r0 == zero() {
                // the row does not read this wire at all: any value keeps it satisfied
                cands.push(("free+1".into(), honest_v + one()));
                cands.push(("free=7".into(), fe(7)));
            }
            cands.push(("+1".into(), honest_v + one()));
            cands.push(("0".into(), zero()));
            cands.push(("1".into(), one()));
            let mut seen: Vec<Fe> = vec![];
            for (t, v) in cands {
                if v == honest_v || seen.contains(&v) {
                    continue;
                }
                seen.push(v);
                out.push(Rewire { row, wire, value: v, tag: format!("rewire(r{},w{},{})", row, wire, t) });
            }
        }
    }
    out
}

pub struct RewireExploration {
    pub n: u64,
    /// every row identity holds, only the compiled copy constraint is broken
    pub pure_copy_breaks: Vec<Rewire>,
    /// satisfiable although a position was re-pointed to another value:
    /// impossible when M1 is right (value differs from its copy class)
    pub satisfiable: Vec<Rewire>,
}

pub fn explore_rewirings(h: &Honest, first_row: usize) -> RewireExploration {
    let mut ex = RewireExploration { n: 0, pure_copy_breaks: vec![], satisfiable: vec![] };
    for rw in rewirings(h, first_row) {
        ex.n += 1;
        let p = rewired_prog(h, &rw);
        let Ok(snap) = p.run() else { continue };
        match h.model.decide(&snap) {
            m1::Verdict::Rows { gate_fails, copy_fails } => {
                if gate_fails.is_empty() && copy_fails.is_empty() {
                    ex.satisfiable.push(rw);
                } else if gate_fails.is_empty() {
                    ex.pure_copy_breaks.push(rw);
                }
            }
            _ => {}
        }
    }
    ex
}
