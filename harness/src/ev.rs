//! Evidence writer, violation / known-finding reporting, tiers.

use serde_json::{json, Map, Value};
use std::collections::{BTreeMap, HashSet};
use std::time::Instant;

/// Output root (evidence/, replays/, known_findings.json); `VERIF_DIR` overrides
/// it for scratch copies of the harness.
pub fn verif_dir() -> String {
    std::env::var("VERIF_DIR").unwrap_or_else(|_| "/verif".to_string())
}

#[derive(Clone, Copy, PartialEq, Eq, Debug)]
pub enum Tier {
    Quick,
    Thorough,
}
impl Tier {
    pub fn name(&self) -> &'static str {
        match self {
            Tier::Quick => "quick",
            Tier::Thorough => "thorough",
        }
    }
    pub fn pick<T>(&self, q: T, t: T) -> T {
        match self {
            Tier::Quick => q,
            Tier::Thorough => t,
        }
    }
}

pub struct Run {
    pub id: String,
    pub tier: Tier,
    pub seed: u64,
    pub level: &'static str,
    start: Instant,
    pub states: u64,
    pub transitions: u64,
    pub traces_validated: u64,
    pub evaluations: u64,
    distinct: HashSet<u64>,
    pub outcomes: BTreeMap<String, u64>,
    pub samples: Vec<Value>,
    pub rule: String,
    pub bounds: Map<String, Value>,
    pub extra: Map<String, Value>,
    pub assumptions: Vec<String>,
    pub exhaustive: bool,
    pub capped: Option<String>,
    pub violations: u64,
    pub known: u64,
    seen_sigs: HashSet<String>,
    known_sigs: Vec<(String, String)>,
    pub machinery_errors: Vec<String>,
    replay_mode: bool,
}

impl Run {
    pub fn new(id: &str, tier: Tier, level: &'static str) -> Self {
        let known_sigs = load_known(id);
        Run {
            id: id.to_string(),
            tier,
            seed: crate::fe::seed(),
            level,
            start: Instant::now(),
            states: 0,
            transitions: 0,
            traces_validated: 0,
            evaluations: 0,
            distinct: HashSet::new(),
            outcomes: BTreeMap::new(),
            samples: vec![],
            rule: String::new(),
            bounds: Map::new(),
            extra: Map::new(),
            assumptions: vec![],
            exhaustive: true,
            capped: None,
            violations: 0,
            known: 0,
            seen_sigs: HashSet::new(),
            known_sigs,
            machinery_errors: vec![],
            replay_mode: false,
        }
    }
    pub fn set_replay_mode(&mut self) {
        self.replay_mode = true;
    }
    pub fn elapsed(&self) -> f64 {
        self.start.elapsed().as_secs_f64()
    }
    pub fn outcome(&mut self, k: &str) {
        *self.outcomes.entry(k.to_string()).or_insert(0) += 1;
    }
    pub fn outcome_n(&mut self, k: &str, n: u64) {
        *self.outcomes.entry(k.to_string()).or_insert(0) += n;
    }
    pub fn count(&self, k: &str) -> u64 {
        self.outcomes.get(k).copied().unwrap_or(0)
    }
    /// Record a distinct non-trivial case by canonical hash.
    pub fn nontrivial(&mut self, key: u64) {
        self.distinct.insert(key);
    }
    pub fn sample(&mut self, v: Value) {
        if self.samples.len() < 12 {
            self.samples.push(v);
        }
    }
    pub fn bound(&mut self, k: &str, v: Value) {
        self.bounds.insert(k.to_string(), v);
    }
    pub fn machinery(&mut self, msg: String) {
        eprintln!("MACHINERY-ERROR {}: {}", self.id, msg);
        self.machinery_errors.push(msg);
    }
    /// Vacuity gate: a tripped gate is a machinery failure, never a verdict.
    pub fn gate(&mut self, what: &str, ok: bool) {
        if !ok {
            self.machinery(format!("vacuity gate tripped: {}", what));
        }
    }

    /// Report a violation with a stable case signature. Known findings are
    /// printed as KNOWN-FINDING and do not fail the run.
    pub fn violation(&mut self, sig: &str, what: &str, case: Value) {
        if !self.seen_sigs.insert(sig.to_string()) {
            return;
        }
        for (ksig, kwhat) in &self.known_sigs {
            if sig_matches(ksig, sig) {
                println!("KNOWN-FINDING: property={} {} [{}]", self.id, kwhat, sig);
                self.known += 1;
                return;
            }
        }
        self.violations += 1;
        let fname = format!("{}-{}.json", self.id, sanitize(sig));
        let path = format!("{}/replays/{}", verif_dir(), fname);
        let body = json!({"property": self.id, "signature": sig, "what": what, "case": case,
            "tier": self.tier.name(), "seed": self.seed});
        let _ = std::fs::create_dir_all(format!("{}/replays", verif_dir()));
        let _ = std::fs::write(&path, serde_json::to_string_pretty(&body).unwrap());
        println!("VIOLATION property={} replay={}", self.id, path);
        eprintln!("  violation [{}]: {}", sig, what);
    }

    /// Fold another run of the same property (a concurrently executed part)
    /// into this one.
    pub fn merge(&mut self, o: Run) {
        self.states += o.states;
        self.transitions += o.transitions;
        self.traces_validated += o.traces_validated;
        self.evaluations += o.evaluations;
        self.distinct.extend(o.distinct);
        for (k, v) in o.outcomes {
            *self.outcomes.entry(k).or_insert(0) += v;
        }
        for s in o.samples {
            self.sample(s);
        }
        for (k, v) in o.bounds {
            self.bounds.insert(k, v);
        }
        for (k, v) in o.extra {
            self.extra.insert(k, v);
        }
        self.exhaustive &= o.exhaustive;
        if self.capped.is_none() {
            self.capped = o.capped;
        }
        self.violations += o.violations;
        self.known += o.known;
        self.seen_sigs.extend(o.seen_sigs);
        self.machinery_errors.extend(o.machinery_errors);
    }

    pub fn finish(mut self) -> i32 {
        let wall = self.elapsed();
        if self.replay_mode {
            return if !self.machinery_errors.is_empty() {
                2
            } else if self.violations > 0 {
                1
            } else {
                0
            };
        }
        let mut cov = Map::new();
        cov.insert("states".into(), json!(self.states.max(0)));
        cov.insert("transitions".into(), json!(self.transitions));
        cov.insert("traces_validated_against_impl".into(), json!(self.traces_validated));
        cov.insert("evaluations".into(), json!(self.evaluations));
        cov.insert("distinct_nontrivial".into(), json!(self.distinct.len()));
        cov.insert("rule".into(), json!(self.rule));
        if self.samples.is_empty() {
            self.samples.push(json!("no sample recorded"));
        }
        cov.insert("samples".into(), Value::Array(self.samples.clone()));
        cov.insert("exhaustive".into(), json!(self.exhaustive && self.capped.is_none()));
        cov.insert("outcomes".into(), json!(self.outcomes));
        cov.insert("bounds".into(), Value::Object(self.bounds.clone()));
        if let Some(c) = &self.capped {
            cov.insert("capped".into(), json!(c));
        }
        cov.insert("known_findings_reported".into(), json!(self.known));
        if !self.machinery_errors.is_empty() {
            cov.insert("machinery_errors".into(), json!(self.machinery_errors));
        }
        for (k, v) in self.extra.iter() {
            cov.insert(k.clone(), v.clone());
        }
        let ev = json!({
            "property_id": self.id,
            "tier": self.tier.name(),
            "seed": self.seed,
            "level": self.level,
            "coverage": Value::Object(cov),
            "assumptions": self.assumptions,
            "wall_s": wall,
            "violations": self.violations,
        });
        let _ = std::fs::create_dir_all(format!("{}/evidence", verif_dir()));
        let path = format!("{}/evidence/{}.json", verif_dir(), self.id);
        std::fs::write(&path, serde_json::to_string_pretty(&ev).unwrap()).expect("write evidence");
        eprintln!(
            "[{}] tier={} states={} transitions={} validated={} evals={} distinct={} violations={} known={} wall={:.1}s outcomes={:?}",
            self.id, self.tier.name(), self.states, self.transitions, self.traces_validated, self.evaluations,
            self.distinct.len(), self.violations, self.known, wall, self.outcomes
        );
        // a violation is reported as such even when a vacuity gate tripped as well
        // (a broken subject often starves a gate); a run with machinery errors and
        // no violation is never a verdict
        if self.violations > 0 {
            1
        } else if !self.machinery_errors.is_empty() {
            2
        } else {
            0
        }
    }
}

fn sanitize(s: &str) -> String {
    let mut o: String = s.chars().map(|c| if c.is_ascii_alphanumeric() || c == '-' || c == '_' || c == '.' { c } else { '_' }).collect();
    if o.len() > 120 {
        let h = crate::fe::fnv(s.as_bytes());
        o.truncate(100);
        o.push_str(&format!("-{:016x}", h));
    }
    o
}

/// A known signature may end with '*' to match a prefix.
fn sig_matches(known: &str, sig: &str) -> bool {
    if let Some(p) = known.strip_suffix('*') {
        sig.starts_with(p)
    } else {
        known == sig
    }
}

fn load_known(id: &str) -> Vec<(String, String)> {
    let path = format!("{}/known_findings.json", verif_dir());
    let Ok(s) = std::fs::read_to_string(&path) else { return vec![] };
    let Ok(v) = serde_json::from_str::<Value>(&s) else { return vec![] };
    let mut out = vec![];
    if let Some(arr) = v.get("findings").and_then(|f| f.as_array()) {
        for f in arr {
            if f.get("property").and_then(|p| p.as_str()) == Some(id) {
                let sig = f.get("signature").and_then(|p| p.as_str()).unwrap_or("").to_string();
                let what = f.get("what").and_then(|p| p.as_str()).unwrap_or("").to_string();
                out.push((sig, what));
            }
        }
    }
    out
}
