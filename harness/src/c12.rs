//! C12 — not built yet.
use crate::ev::Tier;
pub fn main(_tier: Tier, _replay: Option<serde_json::Value>) -> i32 {
    eprintln!("C12: check not built yet");
    2
}
