//! C12 — curve-group components compute the JubJub group law.

use dusk_jubjub::{GENERATOR_EXTENDED, GENERATOR_NUMS_EXTENDED};
use dusk_plonk::prelude::*;
use serde_json::json;

use crate::e2::Gadget;
use crate::ev::{Run, Tier};
use crate::fe::*;
use crate::gadget::*;
use crate::m5::{self, Pt};

fn points(tier: Tier) -> Vec<(String, Pt)> {
    let g = Pt::from_jubjub(GENERATOR_EXTENDED);
    let gn = Pt::from_jubjub(GENERATOR_NUMS_EXTENDED);
    let mut rho = Rho::new(seed(), 1212);
    let r1 = U320::from_fe(&m5::low_bits(&rho.next_fe(), 250));
    let r2 = U320::from_fe(&m5::low_bits(&rho.next_fe(), 250));
    let mut v = vec![
        ("O".to_string(), Pt::identity()),
        ("G".to_string(), g),
        ("2G".to_string(), g.double().unwrap()),
        ("-G".to_string(), g.neg()),
        ("rG".to_string(), g.mul(&r1).unwrap()),
    ];
    if tier == Tier::Thorough {
        v.push(("r'Gn".to_string(), gn.mul(&r2).unwrap()));
    }
    v
}

fn typed(c: &Composer, x: Witness, y: Witness) -> TorsionFreeWitnessPoint {
    TorsionFreeWitnessPoint::new_unchecked(c.verif_point(x, y))
}

pub fn cases(tier: Tier) -> Vec<GCase> {
    let mut out = vec![];
    let pts = points(tier);
    // add / sub over all ordered pairs (incl. P + (-P), P + P, P + O)
    for (n1, p1) in &pts {
        for (n2, p2) in &pts {
            let sum = p1.add(p2).unwrap();
            let dif = p1.add(&p2.neg()).unwrap();
            let g = Gadget::new(&format!("add_point/{}+{}", n1, n2), vec![p1.x, p1.y, p2.x, p2.y], |c, ins| {
                let r = c.component_add_point(typed(c, ins[0], ins[1]), typed(c, ins[2], ins[3]));
                Ok(vec![*r.x(), *r.y()])
            });
            let mut c = GCase::new(g, Expect::Sat(vec![sum.x, sum.y]), "add_point");
            c.bound2 = true;
            c.rewire = true;
            // solved-for forgery triples: a wrong helper x1*y2 with x3, y3 solved
            // from the two remaining identities
            let (p1c, p2c) = (*p1, *p2);
            c.named = Some(std::sync::Arc::new(move |h: &crate::e2::Honest| {
                let d = crate::m1::edwards_d();
                let mut devs = vec![];
                let honest = p1c.x * p2c.y;
                for (tag, xy) in [("+1", honest + one()), ("0", zero()), ("neg", -honest), ("x2y1", p2c.x * p1c.y + one())] {
                    if xy == honest {
                        continue;
                    }
                    let y1x2 = p1c.y * p2c.x;
                    let dx = one() + d * xy * y1x2;
                    let dy = one() - d * xy * y1x2;
                    if dx == zero() || dy == zero() {
                        continue;
                    }
                    let x3 = (xy + y1x2) * inv(dx);
                    let y3 = (p1c.y * p2c.y + p1c.x * p2c.x) * inv(dy);
                    let lo = h.meta.lo;
                    devs.push(crate::e2::Dev { script: vec![(lo, xy), (lo + 1, x3), (lo + 2, y3)], tag: format!("forged-helper{}", tag), must_confirm: true });
                }
                devs
            }));
            out.push(c);
            let g = Gadget::new(&format!("sub_point/{}-{}", n1, n2), vec![p1.x, p1.y, p2.x, p2.y], |c, ins| {
                let r = c.component_sub_point(typed(c, ins[0], ins[1]), typed(c, ins[2], ins[3]));
                Ok(vec![*r.x(), *r.y()])
            });
            let mut c = GCase::new(g, Expect::Sat(vec![dif.x, dif.y]), "sub_point");
            c.bound2 = true;
            out.push(c);
            // untyped addition seam agrees with the typed component
            let g = Gadget::new(&format!("add_point_gates/{}+{}", n1, n2), vec![p1.x, p1.y, p2.x, p2.y], |c, ins| {
                let a = c.verif_point(ins[0], ins[1]);
                let b = c.verif_point(ins[2], ins[3]);
                let r = c.verif_add_point_gates(a, b);
                Ok(vec![*r.x(), *r.y()])
            });
            let mut c = GCase::new(g, Expect::Sat(vec![sum.x, sum.y]), "add_point_gates");
            c.bound2 = tier == Tier::Thorough;
            c.confirm = false;
            out.push(c);
        }
        // aliased operands: the same witnesses on both sides
        {
            let dbl = p1.add(p1).unwrap();
            let g = Gadget::new(&format!("add_point/{}+same-witnesses", n1), vec![p1.x, p1.y], |c, ins| {
                let p = typed(c, ins[0], ins[1]);
                let r = c.component_add_point(p, p);
                Ok(vec![*r.x(), *r.y()])
            });
            let mut c = GCase::new(g, Expect::Sat(vec![dbl.x, dbl.y]), "add_point/aliased");
            c.bound2 = true;
            c.rewire = true;
            out.push(c);
            let g = Gadget::new(&format!("sub_point/{}-same-witnesses", n1), vec![p1.x, p1.y], |c, ins| {
                let p = typed(c, ins[0], ins[1]);
                let r = c.component_sub_point(p, p);
                Ok(vec![*r.x(), *r.y()])
            });
            let mut c = GCase::new(g, Expect::Sat(vec![zero(), one()]), "sub_point/aliased");
            c.bound2 = true;
            out.push(c);
            let g = Gadget::new(&format!("select_point/{}|same-witnesses", n1), vec![one(), p1.x, p1.y], |c, ins| {
                let p = c.verif_point(ins[1], ins[2]);
                let r = c.component_select_point(ins[0], p, p);
                Ok(vec![*r.x(), *r.y()])
            });
            let mut c = GCase::new(g, Expect::Sat(vec![p1.x, p1.y]), "select_point/aliased");
            c.bound2 = true;
            out.push(c);
        }
        // the composer's constant identity point (coordinates ARE Composer::ZERO / ONE) as an operand
        {
            let idp = Pt { x: zero(), y: one() };
            let neg1p = p1.neg();
            type F2 = fn(&mut Composer, TorsionFreeWitnessPoint) -> TorsionFreeWitnessPoint;
            let ops: Vec<(&str, F2, Pt)> = vec![
                ("add_point/P+IDENTITY", |c, p| c.component_add_point(p, Composer::IDENTITY), *p1),
                ("add_point/IDENTITY+P", |c, p| c.component_add_point(Composer::IDENTITY, p), *p1),
                ("sub_point/P-IDENTITY", |c, p| c.component_sub_point(p, Composer::IDENTITY), *p1),
                ("sub_point/IDENTITY-P", |c, p| c.component_sub_point(Composer::IDENTITY, p), neg1p),
                ("neg_point/IDENTITY", |c, _p| c.component_neg_point(Composer::IDENTITY), idp),
                ("add_point/IDENTITY+IDENTITY", |c, _p| c.component_add_point(Composer::IDENTITY, Composer::IDENTITY), idp),
            ];
            for (nm, f, want) in ops {
                let g = Gadget::new(&format!("{}/{}", nm, n1), vec![p1.x, p1.y], move |c, ins| {
                    let p = typed(c, ins[0], ins[1]);
                    let r = f(c, p);
                    Ok(vec![*r.x(), *r.y()])
                });
                let mut c = GCase::new(g, Expect::Sat(vec![want.x, want.y]), "point-ops/constant-identity");
                c.bound2 = true;
                out.push(c);
            }
            for bit in [0i64, 1] {
                for first in [false, true] {
                    let g = Gadget::new(&format!("select_point/{}|IDENTITY/first={}/bit{}", n1, first, bit), vec![fi(bit), p1.x, p1.y], move |c, ins| {
                        let p = c.verif_point(ins[1], ins[2]);
                        let id: WitnessPoint = Composer::IDENTITY.into();
                        let r = if first { c.component_select_point(ins[0], id, p) } else { c.component_select_point(ins[0], p, id) };
                        Ok(vec![*r.x(), *r.y()])
                    });
                    let chosen = if (bit == 1) == first { idp } else { *p1 };
                    let mut c = GCase::new(g, Expect::Sat(vec![chosen.x, chosen.y]), "select_point/constant-identity");
                    c.bound2 = true;
                    let mut c2 = c.clone();
                    out.push(c);
                    // ... and with the composer's constant bit witnesses
                    c2.g = c2.g.with_const_handles();
                    out.push(c2);
                }
                let g = Gadget::new(&format!("select_identity/IDENTITY/bit{}", bit), vec![fi(bit)], |c, ins| {
                    let r = c.component_select_identity(ins[0], Composer::IDENTITY);
                    Ok(vec![*r.x(), *r.y()])
                });
                let mut c = GCase::new(g, Expect::Sat(vec![zero(), one()]), "select_identity/constant-identity");
                c.bound2 = true;
                out.push(c.clone());
                c.g = c.g.with_const_handles();
                out.push(c);
            }
        }
        let neg = p1.neg();
        let g = Gadget::new(&format!("neg_point/{}", n1), vec![p1.x, p1.y], |c, ins| {
            let r = c.component_neg_point(typed(c, ins[0], ins[1]));
            Ok(vec![*r.x(), *r.y()])
        });
        let mut c = GCase::new(g, Expect::Sat(vec![neg.x, neg.y]), "neg_point");
        c.bound2 = true;
        out.push(c);
        // select_identity: boolean bits select, non-boolean bits are unsatisfiable
        for bit in [0i64, 1, 2, -1] {
            let g = Gadget::new(&format!("select_identity/{}/bit{}", n1, bit), vec![fi(bit), p1.x, p1.y], |c, ins| {
                let r = c.component_select_identity(ins[0], typed(c, ins[1], ins[2]));
                Ok(vec![*r.x(), *r.y()])
            });
            let e = match bit {
                0 => Expect::Sat(vec![zero(), one()]),
                1 => Expect::Sat(vec![p1.x, p1.y]),
                _ => Expect::Unsat,
            };
            let mut c = GCase::new(g, e, "select_identity");
            c.bound2 = true;
            out.push(c);
        }
        // select_point: chosen input for a boolean bit
        for (n2, p2) in pts.iter().take(3) {
            for bit in [0i64, 1] {
                let g = Gadget::new(&format!("select_point/{}|{}/bit{}", n1, n2, bit), vec![fi(bit), p1.x, p1.y, p2.x, p2.y], |c, ins| {
                    let a = c.verif_point(ins[1], ins[2]);
                    let b = c.verif_point(ins[3], ins[4]);
                    let r = c.component_select_point(ins[0], a, b);
                    Ok(vec![*r.x(), *r.y()])
                });
                let chosen = if bit == 1 { p1 } else { p2 };
                let mut c = GCase::new(g, Expect::Sat(vec![chosen.x, chosen.y]), "select_point");
                c.bound2 = tier == Tier::Thorough;
                out.push(c);
            }
        }
    }
    // mul_point: scalars below 2^252 (any, also >= r_J) and out-of-range ones
    let rj = r_jubjub();
    let mut rho = Rho::new(seed(), 1299);
    let scalars: Vec<(String, Fe)> = vec![
        ("0".into(), zero()),
        ("1".into(), one()),
        ("2".into(), fe(2)),
        ("rJ-1".into(), rj - one()),
        ("rJ".into(), rj),
        ("rJ+1".into(), rj + one()),
        ("2^252-1".into(), pow2(252) - one()),
        ("rho".into(), m5::low_bits(&rho.next_fe(), 252)),
        ("2^252".into(), pow2(252)),
        ("-1".into(), neg1()),
    ];
    let mul_points: Vec<(String, Pt)> = tier.pick(pts.iter().skip(1).take(1).cloned().collect(), pts.iter().take(4).cloned().collect());
    for (pn, p) in &mul_points {
        for (sn, s) in &scalars {
            let g = Gadget::new(&format!("mul_point/{}*{}", sn, pn), vec![*s, p.x, p.y], |c, ins| {
                let r = c.component_mul_point(ins[0], typed(c, ins[1], ins[2]));
                Ok(vec![*r.x(), *r.y()])
            });
            let e = if m5::in_range(s, 252) {
                let r = p.mul(&U320::from_fe(s)).unwrap();
                Expect::Sat(vec![r.x, r.y])
            } else {
                Expect::Unsat
            };
            let mut c = GCase::new(g, e, "mul_point");
            // ~2500 allocations per instance: stride the generic deviations
            c.dev_stride = tier.pick(41, 5);
            c.confirm = tier == Tier::Thorough || sn == "rJ+1" || sn == "2^252";
            out.push(c);
        }
    }
    // every case also faces the second-root adversary on each of its curve-addition rows
    for c in out.iter_mut() {
        let prev = c.named.clone();
        c.named = Some(std::sync::Arc::new(move |h: &crate::e2::Honest| {
            let mut d = prev.as_ref().map(|f| f(h)).unwrap_or_default();
            d.extend(add_row_role_forgeries(h));
            d
        }));
    }
    // non-initial states: the component was already applied to the same witnesses
    let again: Vec<GCase> = out.iter().filter(|c| !c.g.name.contains("mul_point") || tier == Tier::Thorough).map(|c| { let mut d = c.after_self_call(); d.confirm = !c.g.name.contains("mul_point"); d }).collect();
    out.extend(again);
    out
}

pub fn main(tier: Tier, replay: Option<serde_json::Value>) -> i32 {
    let mut run = Run::new("C12", tier, "model_checking");
    run.rule = "cases = (component, subgroup points incl. O / P,-P / P,P, bits, scalars incl. r_J-1, r_J, r_J+1, 2^252-1, out-of-range); honest assignment + bound-1 (bound-2 for the few-row gadgets; strided for mul_point and reported) deviations through the real generator decided by M1; predicate: satisfiable, and every satisfying assignment returns the native group result (own affine Edwards arithmetic); select_identity unsatisfiable for non-boolean bits; scalars >= 2^252 unsatisfiable; also aliased operands, Composer::IDENTITY as an operand of every component, and a second application to the same witnesses".into();
    let cs = cases(tier);
    let cache = ConfirmCache::new(crate::setup::pp(1 << 12));
    if let Some(r) = replay {
        return crate::gadget::replay(run, &cs, &cache, &r);
    }
    run.bound("mul_point_deviation_stride", json!(tier.pick(41, 5)));
    if tier == Tier::Quick {
        run.exhaustive = false;
        run.capped = Some("mul_point generic deviations strided (every 41st ordinal + first/last 24); all other gadgets fully enumerated".into());
    } else {
        run.capped = Some("mul_point generic deviations strided (every 5th ordinal + first/last 24); all other gadgets fully enumerated at bound 2".into());
    }
    let names: Vec<String> = cs.iter().map(|c| c.g.name.clone()).collect();
    let reps = crate::par::par_map(&cs, |c| run_case(c, &cache));
    absorb(&mut run, reps, &names);
    run.gate("honest satisfiable cases", run.count("honest:sat") > 0);
    run.gate("unsatisfiable cases", run.count("honest:unsat") > 0);
    run.assumptions = vec![
        "M1 row model (bound to the prover by C05) decides satisfiability".into(),
        "own affine twisted-Edwards arithmetic (M5) is the group-law specification".into(),
        "inputs pinned; adversary deviates the gadget's own allocations".into(),
    ];
    run.finish()
}
