//! C11 — truncation and bit decomposition return the canonical bits.

use std::sync::Arc;

use serde_json::json;

use crate::dispatch;
use crate::e2::{Dev, Gadget, Honest};
use crate::ev::{Run, Tier};
use crate::fe::*;
use crate::gadget::*;
use crate::m5;

fn trunc_widths(tier: Tier) -> Vec<usize> {
    match tier {
        Tier::Quick => vec![0, 1, 3, 7, 8, 9, 63, 65, 127, 129, 250, 252, 253, 254],
        Tier::Thorough => (0..=254).collect(),
    }
}
fn decomp_widths(tier: Tier) -> Vec<usize> {
    match tier {
        Tier::Quick => vec![1, 2, 3, 8, 9, 64, 65, 128, 252, 253, 254, 255, 256],
        Tier::Thorough => (1..=256).collect(),
    }
}

/// Values: 0, 1, r-1, 2^N-1, 2^N, rho, and small values whose sum with r
/// still fits the relevant widths (so that an alias representative exists).
fn values(n: usize, seed: u64, full: bool) -> Vec<Fe> {
    let seed = if full { 0 } else { seed | 1 };
    let rho = Rho::new(seed, 1100 + n as u64).next_fe();
    let mut v = vec![zero(), fe(5), neg1(), rho, m5::low_bits(&rho, n.min(200))];
    if n <= 254 {
        v.push(pow2(n) - one());
        v.push(pow2(n));
    }
    if seed % 2 == 0 {
        // the remaining boundary values rotate with the seed / tier
        v.push(one());
        if n <= 254 {
            v.push(pow2(n) + fe(3));
        }
    }
    // x with x + r < 2^255: x < 2^255 - r
    let gap = U320::pow2(255).sub(&U320::modulus());
    v.push(gap.sub(&U320::from_u64(1)).to_fe());
    v.push(gap.to_fe());
    dedup(v)
}

fn truncate_case(n: usize, x: Fe, tier: Tier) -> GCase {
    let g = Gadget::new(&format!("truncate/N{}", n), vec![x], move |c, ins| Ok(vec![dispatch::truncate(c, ins[0], n)]));
    let mut c = GCase::new(g, Expect::Sat(vec![m5::low_bits(&x, n)]), "truncate");
    // alias split of x + r at N, tried on every ordered pair of allocations
    let xi = U320::from_fe(&x);
    let alias = xi.add(&U320::modulus());
    let fits = alias.lt(&U320::pow2(255));
    let low_a = alias.low(n).to_fe();
    let high_a = alias.shr(n).to_fe();
    let all_pairs = tier == Tier::Thorough && (n % 32 == 1 || n >= 252);
    c.named = Some(Arc::new(move |h: &Honest| {
        let mut devs = vec![];
        // out-of-range splits of the same value: x = (low +- 2^N) + 2^N (high -+ 1);
        // only the range checks on low / high stand against them
        {
            let (lo, hi) = (h.meta.lo, h.meta.hi);
            let low_ord = h.meta.outs[0];
            let w = &h.snap.witnesses;
            for j in lo..hi {
                if j == low_ord {
                    continue;
                }
                devs.push(Dev { script: vec![(low_ord, w[low_ord] + pow2(n)), (j, w[j] - one())], tag: format!("split+2^N(low,o{})", j - lo), must_confirm: false });
                devs.push(Dev { script: vec![(low_ord, w[low_ord] - pow2(n)), (j, w[j] + one())], tag: format!("split-2^N(low,o{})", j - lo), must_confirm: false });
            }
        }
        if !fits && !all_pairs {
            return devs;
        }
        let (lo, hi) = (h.meta.lo, h.meta.hi);
        // the returned witness (low) is the gadget's first allocation; pair it
        // with every later allocation as the candidate `high`
        let low_ord = h.meta.outs[0];
        for j in lo..hi {
            if j == low_ord {
                continue;
            }
            devs.push(Dev { script: vec![(low_ord, low_a), (j, high_a)], tag: format!("alias(low,o{})", j - lo), must_confirm: false });
        }
        if all_pairs {
            // every ordered pair (i, j) receives (low', high')
            let stride = 1usize;
            for i in (lo..hi).step_by(stride) {
                if i == low_ord {
                    continue;
                }
                for j in lo..hi {
                    if j != i {
                        devs.push(Dev { script: vec![(i, low_a), (j, high_a)], tag: format!("alias(o{},o{})", i - lo, j - lo), must_confirm: false });
                    }
                }
            }
        }
        devs
    }));
    c.extra = Some(Arc::new(move |_k, v| vec![("low'".into(), low_a), ("high'".into(), high_a), ("+r-ish".into(), v + pow2(n.min(254)))]));
    c.bound2 = false;
    c.confirm = tier == Tier::Thorough || n % 8 == 0 || n >= 253;
    // wire-level deviations: small widths for every value, wide ones for one value
    c.rewire = n <= 2 || ((n == 254 || (tier == Tier::Thorough && n % 32 == 0)) && x == fe(5));
    c
}

fn decomposition_case(n: usize, x: Fe) -> GCase {
    let g = Gadget::new(&format!("decomposition/N{}", n), vec![x], move |c, ins| Ok(dispatch::decomposition(c, ins[0], n)));
    let xi = U320::from_fe(&x);
    let expect = if m5::in_range(&x, n) { Expect::Sat(m5::bits_le(&xi, n)) } else { Expect::Unsat };
    let class = if n >= 255 { "decomposition/N>=255" } else { "decomposition/N<=254" };
    let mut c = GCase::new(g, expect, class);
    // the complete adversary space given boolean rows: the bits of every other
    // integer representative x + k r < 2^N
    let reps = m5::representatives(&x, n);
    c.named = Some(Arc::new(move |h: &Honest| {
        let mut devs = vec![];
        for (k, m) in reps.iter().enumerate() {
            if *m == xi {
                continue;
            }
            let bits = m5::bits_le(m, n);
            let script: Vec<(usize, Fe)> = h.meta.outs.iter().zip(bits.iter()).map(|(o, b)| (*o, *b)).collect();
            devs.push(Dev { script, tag: format!("alias=x+{}r", k), must_confirm: true });
        }
        // truncated bits of an out-of-range value, top bit set/cleared
        devs
    }));
    c.confirm = true;
    c.rewire = n <= 3 || ((n >= 255 || n == 9) && x == fe(5));
    c
}

pub fn cases(tier: Tier) -> Vec<GCase> {
    let seed = seed();
    let mut out = vec![];
    for n in trunc_widths(tier) {
        for x in values(n, seed, tier == Tier::Thorough) {
            out.push(truncate_case(n, x, tier));
        }
    }
    // non-initial states: the input was range-checked before, or the component was
    // already applied to the same witness (the alias adversaries stay in place)
    for n in trunc_widths(tier) {
        for x in [fe(5), neg1()] {
            for w in [8usize, n, 252] {
                let mut c = truncate_case(n, x, tier);
                c.g = c.g.with_prelude(&format!("range{}", w), move |c, ins| { dispatch::range_bits(c, ins[0], w); Ok(()) });
                if !m5::in_range(&x, w) {
                    c.expect = Expect::Unsat;
                }
                c.class = "truncate/with-history".into();
                c.dev_stride = if n <= 3 { 1 } else { 0 };
                c.confirm = n <= 3 || n >= 253;
                out.push(c);
            }
            let mut c = truncate_case(n, x, tier).after_self_call();
            c.confirm = n <= 3 || n >= 253;
            out.push(c);
        }
    }
    for n in decomp_widths(tier) {
        for x in [fe(5), neg1()] {
            for w in [8usize, n.min(254), 252] {
                let mut c = decomposition_case(n, x);
                c.g = c.g.with_prelude(&format!("range{}", w), move |c, ins| { dispatch::range_bits(c, ins[0], w); Ok(()) });
                if !m5::in_range(&x, w) {
                    c.expect = Expect::Unsat;
                }
                c.class = format!("{}/with-history", c.class);
                c.dev_stride = if n <= 3 { 1 } else { 0 };
                c.rewire = false;
                c.confirm = n <= 9 || n >= 254;
                out.push(c);
            }
            let mut c = decomposition_case(n, x).after_self_call();
            c.confirm = n <= 9 || n >= 254;
            out.push(c);
        }
    }
    // the composer's constant witnesses as inputs
    for n in trunc_widths(tier) {
        for x in [zero(), one()] {
            let mut c = truncate_case(n, x, tier);
            c.g = c.g.with_const_handles();
            c.class = "truncate/const-handles".into();
            c.named = None;
            c.dev_stride = if n <= 3 { 1 } else { 0 };
            c.confirm = n <= 3 || n >= 253;
            out.push(c);
        }
    }
    for n in decomp_widths(tier) {
        for x in [zero(), one()] {
            let mut c = decomposition_case(n, x);
            c.g = c.g.with_const_handles();
            c.class = format!("{}/const-handles", c.class);
            c.dev_stride = if n <= 3 { 1 } else { 0 };
            c.confirm = n <= 9 || n >= 254;
            out.push(c);
        }
    }
    for n in decomp_widths(tier) {
        for x in values(n, seed, tier == Tier::Thorough) {
            out.push(decomposition_case(n, x));
        }
    }
    out
}

pub fn main(tier: Tier, replay: Option<serde_json::Value>) -> i32 {
    let mut run = Run::new("C11", tier, "model_checking");
    run.rule = "cases = (gadget, N, value); honest assignment + every bound-1 deviation + gadget-aware alias deviations (truncate: the (low', high') split of x + r on every ordered allocation pair; decomposition: the bit vectors of every other integer representative x + k r < 2^N, the complete adversary space given the boolean rows) re-run through the real generator and decided by M1; predicate: truncate always satisfiable and returns canonical(x) mod 2^N, decomposition satisfiable iff canonical(x) < 2^N and returns exactly its bits; also out-of-range splits (low +- 2^N, high -+ 1), constant witnesses ZERO / ONE as inputs, inputs range-checked beforehand, a second application to the same witness".into();
    let cs = cases(tier);
    let cache = ConfirmCache::new(crate::setup::pp(1 << 11));
    if let Some(r) = replay {
        return crate::gadget::replay(run, &cs, &cache, &r);
    }
    run.bound("truncate_widths", json!(trunc_widths(tier)));
    run.bound("decomposition_widths", json!(decomp_widths(tier)));
    let names: Vec<String> = cs.iter().map(|c| c.g.name.clone()).collect();
    let reps = crate::par::par_map(&cs, |c| run_case(c, &cache));
    absorb(&mut run, reps, &names);
    run.gate("honest satisfiable cases", run.count("honest:sat") > 0);
    run.gate("decomposition out-of-range cases", run.count("honest:unsat") > 0);
    run.gate("deviations explored", run.count("deviations") > 1000);
    run.assumptions = vec![
        "M1 row model (bound to the prover by C05) decides satisfiability".into(),
        "values from the boundary alphabet; adversary: bound-1 deviations plus the alias menus".into(),
    ];
    run.finish()
}
