//! C06 on large domains (no reference prover needed): the masking structure is
//! checked through its algebra on the commitments. Code paths that switch on
//! the domain size (parallel thresholds) are invisible to the n <= 64 part.

use dusk_bls12_381::{G1Affine, G1Projective};
use dusk_bytes::Serializable;
use dusk_plonk::prelude::*;
use serde_json::json;

use crate::c01::{sized, Shape};
use crate::ev::{Run, Tier};
use crate::fe::*;
use crate::m2;
use crate::rng::{Call, ScriptedRng};

const DRAW_NAMES: [&str; 14] = ["a0", "a1", "b0", "b1", "c0", "c1", "d0", "d1", "z0", "z1", "z2", "t12", "t13", "t14"];

fn untouched(i: usize) -> Vec<usize> {
    match i {
        0..=7 => (0..4).filter(|k| *k != i / 2).collect(),
        8..=10 => vec![0, 1, 2, 3],
        11 => vec![0, 1, 2, 3, 4, 7, 8],
        12 => vec![0, 1, 2, 3, 4, 5, 8],
        _ => vec![0, 1, 2, 3, 4, 5, 6],
    }
}
/// (commitment index, +delta point index, -delta point index)
fn prescribed(i: usize, n: usize) -> Vec<(usize, Option<usize>, Option<usize>)> {
    match i {
        0..=7 => vec![(i / 2, Some(n + i % 2), Some(i % 2))],
        8..=10 => vec![(4, Some(n + (i - 8)), Some(i - 8))],
        _ => vec![(5 + (i - 11), Some(n), None), (5 + (i - 10), None, Some(0))],
    }
}

fn srs_point(pp_bytes: &[u8], i: usize) -> G1Affine {
    let off = 48 + 96 + 96 + 48 * i;
    let mut b = [0u8; 48];
    b.copy_from_slice(&pp_bytes[off..off + 48]);
    G1Affine::from_bytes(&b).expect("srs point")
}

pub fn large_domain(run: &mut Run, tier: Tier) {
    let logs: Vec<u32> = tier.pick(vec![12], vec![11, 12, 13]);
    for log_n in logs {
        let n = 1usize << log_n;
        let class = format!("large/n=2^{}", log_n);
        let pp = crate::setup::pp(n);
        let pp_bytes = pp.to_var_bytes();
        let prog = sized(n - 10, &Shape::Pi(vec![4, -1]));
        let (prover, verifier) = match Compiler::compile_with_circuit(&pp, b"c06-large", &prog) {
            Ok(k) => k,
            Err(e) => {
                run.machinery(format!("{}: compile failed: {:?}", class, e));
                continue;
            }
        };
        let base = ScriptedRng::base(seed(), 6000 + log_n as u64).draws;
        let prove = |draws: &Vec<Fe>| -> Result<(m2::ProofData, Vec<Fe>, Vec<Call>, usize), String> {
            let mut rng = ScriptedRng::new(draws.clone());
            let (proof, pis) = prover.prove(&mut rng, &prog).map_err(|e| format!("{:?}", e))?;
            verifier.verify(&proof, &pis).map_err(|e| format!("does not verify: {:?}", e))?;
            let pd = m2::parse_proof(&proof.to_bytes()).map_err(|e| e)?;
            Ok((pd, pis, rng.calls.clone(), rng.pos))
        };
        let p0 = match prove(&base) {
            Ok(p) => p,
            Err(e) => {
                run.violation(&format!("{}/base-proof", class), &format!("base script: {}", e), json!({"name": class}));
                continue;
            }
        };
        run.states += 1;
        run.traces_validated += 1;
        // (a) exactly 14 fill_bytes(64)
        run.transitions += 1;
        if p0.3 != 14 || p0.2.len() != 14 || p0.2.iter().any(|c| !matches!(c, Call::FillBytes(64) | Call::TryFill(64))) {
            run.violation(&format!("{}/clause-a/calls", class), &format!("RNG calls: {} draws, {:?}", p0.3, &p0.2[..p0.2.len().min(16)]), json!({"name": class}));
        }
        // (d) each draw moved by +1
        for i in 0..14 {
            let mut d = base.clone();
            d[i] += one();
            run.states += 1;
            run.transitions += 2;
            run.evaluations += 1;
            run.nontrivial(fnv(format!("{}{}", class, i).as_bytes()));
            let pi = match prove(&d) {
                Ok(p) => p,
                Err(e) => {
                    run.violation(&format!("{}/draw{}-proof", class, i), &format!("draw {} + 1: {}", DRAW_NAMES[i], e), json!({"name": class, "draw": i}));
                    continue;
                }
            };
            run.traces_validated += 1;
            let stay: Vec<usize> = untouched(i).into_iter().filter(|k| pi.0.comms[*k] != p0.0.comms[*k]).collect();
            if !stay.is_empty() {
                run.violation(&format!("{}/clause-d/untouched-commitment-changed", class), &format!("changing only draw {} ({}) changed commitments {:?}", i, DRAW_NAMES[i], stay.iter().map(|k| m2::COMM_NAMES[*k]).collect::<Vec<_>>()), json!({"name": class, "draw": i}));
            }
            let mut bad = vec![];
            let mut unmoved = vec![];
            for (k, hi, lo) in prescribed(i, n) {
                let mut want = G1Projective::from(p0.0.comms[k]);
                if let Some(h) = hi {
                    want += G1Projective::from(srs_point(&pp_bytes, h));
                }
                if let Some(l) = lo {
                    want -= G1Projective::from(srs_point(&pp_bytes, l));
                }
                if G1Affine::from(want) != pi.0.comms[k] {
                    bad.push(m2::COMM_NAMES[k]);
                }
                if pi.0.comms[k] == p0.0.comms[k] {
                    unmoved.push(m2::COMM_NAMES[k]);
                }
            }
            if !unmoved.is_empty() {
                run.violation(&format!("{}/clause-d/draw-without-effect", class), &format!("changing draw {} ({}) left {:?} unchanged: the draw does not mask what it must", i, DRAW_NAMES[i], unmoved), json!({"name": class, "draw": i}));
            } else if !bad.is_empty() {
                run.violation(&format!("{}/clause-d-delta", class), &format!("changing draw {} ({}) by 1: commitments {:?} did not move by P_(n+k) - P_k", i, DRAW_NAMES[i], bad), json!({"name": class, "draw": i}));
            } else {
                run.outcome("large:draw-masks-as-prescribed");
            }
        }
        // (e) a disjoint script shares no commitment and no wire / permutation opening
        let other = ScriptedRng::base(seed(), 7000 + log_n as u64).draws;
        run.transitions += 1;
        match prove(&other) {
            Err(e) => run.violation(&format!("{}/disjoint-proof", class), &e, json!({"name": class})),
            Ok(p1) => {
                run.traces_validated += 1;
                let mut shared: Vec<String> = (0..11).filter(|k| p1.0.comms[*k] == p0.0.comms[*k]).map(|k| m2::COMM_NAMES[k].to_string()).collect();
                for e in [m2::A_EVAL, m2::B_EVAL, m2::C_EVAL, m2::D_EVAL, m2::A_W_EVAL, m2::B_W_EVAL, m2::D_W_EVAL, m2::Z_EVAL] {
                    if p1.0.evals[e] == p0.0.evals[e] {
                        shared.push(m2::EVAL_NAMES[e].to_string());
                    }
                }
                // differences of commitments must not coincide either (a shared mask cancels in them)
                for (x, y) in [(0usize, 2usize), (1, 3), (0, 1), (2, 3), (0, 3), (1, 2)] {
                    let d0 = G1Projective::from(p0.0.comms[x]) - G1Projective::from(p0.0.comms[y]);
                    let d1 = G1Projective::from(p1.0.comms[x]) - G1Projective::from(p1.0.comms[y]);
                    if G1Affine::from(d0) == G1Affine::from(d1) {
                        shared.push(format!("[{}]-[{}]", m2::COMM_NAMES[x], m2::COMM_NAMES[y]));
                    }
                }
                if !shared.is_empty() {
                    run.violation(&format!("{}/clause-e/shared", class), &format!("two proofs under disjoint scripts share {:?}", shared), json!({"name": class}));
                } else {
                    run.outcome("large:disjoint-scripts-share-nothing");
                }
            }
        }
        run.sample(json!({"part": "large-domain", "n": n, "constraints": n - 10}));
    }
}
