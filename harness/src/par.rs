//! Parallel case execution: worker threads, each with a private 1-thread
//! rayon pool so the subject's internal parallelism cannot funnel into the
//! global pool; panics are caught per case.

use std::panic::{catch_unwind, AssertUnwindSafe};
use std::sync::atomic::{AtomicUsize, Ordering};
use std::sync::Mutex;

pub fn workers() -> usize {
    std::env::var("VERIF_WORKERS").ok().and_then(|s| s.parse().ok()).unwrap_or(16)
}

pub fn install_quiet_panic_hook() {
    // worker-thread panics are caught and reported per case; a panic on the
    // main thread is a harness failure and must be visible
    std::panic::set_hook(Box::new(|info| {
        let main = std::thread::current().name() == Some("main");
        if main || std::env::var("VERIF_DEBUG").is_ok() {
            eprintln!("panic: {}", info);
        }
    }));
}

pub fn panic_msg(e: Box<dyn std::any::Any + Send>) -> String {
    if let Some(s) = e.downcast_ref::<&str>() {
        s.to_string()
    } else if let Some(s) = e.downcast_ref::<String>() {
        s.clone()
    } else {
        "panic".to_string()
    }
}

/// Run `f` over all items on `workers()` threads; results in input order.
/// A panic inside `f` is returned as Err(message).
pub fn par_map<T: Sync, R: Send, F>(items: &[T], f: F) -> Vec<Result<R, String>>
where
    F: Fn(&T) -> R + Sync,
{
    let n = items.len();
    let next = AtomicUsize::new(0);
    let out: Mutex<Vec<Option<Result<R, String>>>> = Mutex::new((0..n).map(|_| None).collect());
    let nw = workers().min(n.max(1));
    std::thread::scope(|s| {
        for _ in 0..nw {
            s.spawn(|| {
                let pool = rayon::ThreadPoolBuilder::new().num_threads(1).build().expect("pool");
                pool.install(|| loop {
                    let i = next.fetch_add(1, Ordering::SeqCst);
                    if i >= n {
                        break;
                    }
                    let r = catch_unwind(AssertUnwindSafe(|| f(&items[i]))).map_err(panic_msg);
                    out.lock().unwrap()[i] = Some(r);
                });
            });
        }
    });
    out.into_inner().unwrap().into_iter().map(|o| o.expect("all cases ran")).collect()
}
