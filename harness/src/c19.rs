//! C19 — FFT and polynomial kernels equal their mathematical definitions.
//!
//! Every case runs on the real (crate-private) kernels through
//! `dusk_plonk::verif::kernels` and is compared with the naive reference M4.
//! Sections: `fft` (sizes x lengths x vectors x real pools of 1..17 threads),
//! `domain`, `poly`, `batch_inv`, `closed` (vanishing / Lagrange / barycentric).

use std::collections::{BTreeMap, BTreeSet};
use std::panic::{catch_unwind, AssertUnwindSafe};

use dusk_plonk::verif::kernels as k;
use serde_json::{json, Value};

use crate::ev::{Run, Tier};
use crate::fe::*;
use crate::m4;
use crate::par::{panic_msg, par_map};

pub const THREADS: [usize; 8] = [1, 2, 3, 4, 5, 8, 16, 17];
const FULL_DFT_MAX: usize = 1 << 10;
const PAR_MIN_LEN: usize = 1 << 12;
const PAR_MIN_THREADS: usize = 4;

// ---------------------------------------------------------------------------
// accumulation
// ---------------------------------------------------------------------------

pub struct Fail {
    pub sig: String,
    pub what: String,
    pub case: Value,
}

#[derive(Default)]
pub struct Acc {
    pub cases: u64,
    pub shapes: BTreeSet<String>,
    pub hashes: Vec<u64>,
    pub fails: Vec<Fail>,
    pub outcomes: BTreeMap<String, u64>,
    pub kernels: BTreeMap<String, u64>,
    pub machinery: Vec<String>,
    pub samples: Vec<Value>,
}

impl Acc {
    /// One case executed on the real kernel `kernel` in configuration `shape`.
    pub fn case(&mut self, kernel: &str, shape: &str, nontrivial: Option<u64>) {
        self.cases += 1;
        *self.kernels.entry(kernel.to_string()).or_insert(0) += 1;
        self.shapes.insert(format!("{}/{}", kernel, shape));
        if let Some(h) = nontrivial {
            self.hashes.push(h);
        }
    }
    pub fn fail(&mut self, section: &str, sig: &str, what: String, mut case: Value) {
        *self.outcomes.entry(format!("violating-cases:{}", sig)).or_insert(0) += 1;
        if self.fails.iter().any(|f| f.sig == sig) {
            return;
        }
        case["section"] = json!(section);
        self.fails.push(Fail { sig: sig.to_string(), what, case });
    }
    pub fn outcome(&mut self, k: &str) {
        *self.outcomes.entry(k.to_string()).or_insert(0) += 1;
    }
    pub fn merge(&mut self, o: Acc) {
        self.cases += o.cases;
        self.shapes.extend(o.shapes);
        self.hashes.extend(o.hashes);
        for f in o.fails {
            if !self.fails.iter().any(|g| g.sig == f.sig) {
                self.fails.push(f);
            }
        }
        for (k, v) in o.outcomes {
            *self.outcomes.entry(k).or_insert(0) += v;
        }
        for (k, v) in o.kernels {
            *self.kernels.entry(k).or_insert(0) += v;
        }
        self.machinery.extend(o.machinery);
        for s in o.samples {
            if self.samples.len() < 12 {
                self.samples.push(s);
            }
        }
    }
}

fn guard<T>(f: impl FnOnce() -> T) -> Result<T, String> {
    catch_unwind(AssertUnwindSafe(f)).map_err(panic_msg)
}

fn hexv(v: &[Fe]) -> Value {
    if v.len() <= 12 {
        json!(v.iter().map(hex).collect::<Vec<_>>())
    } else {
        json!({"len": v.len(), "head": v[..6].iter().map(hex).collect::<Vec<_>>(), "fnv": format!("{:016x}", hash_vec(0, v))})
    }
}

fn hash_vec(seed: u64, v: &[Fe]) -> u64 {
    let mut h = fnv(&seed.to_le_bytes());
    for x in v {
        h = fnv_fe(h, x);
    }
    h
}

fn nonconstant(v: &[Fe]) -> bool {
    v.iter().any(|x| *x != v[0])
}

fn first_diff(a: &[Fe], b: &[Fe]) -> Value {
    if a.len() != b.len() {
        return json!({"len_real": a.len(), "len_expected": b.len()});
    }
    for i in 0..a.len() {
        if a[i] != b[i] {
            return json!({"index": i, "real": hex(&a[i]), "expected": hex(&b[i])});
        }
    }
    json!(null)
}

// ---------------------------------------------------------------------------
// section: fft
// ---------------------------------------------------------------------------

#[derive(Clone, Copy, PartialEq, Eq, Debug)]
pub enum Kind {
    Fft,
    Ifft,
    CosetFft,
    CosetIfft,
}
pub const KINDS: [Kind; 4] = [Kind::Fft, Kind::Ifft, Kind::CosetFft, Kind::CosetIfft];

impl Kind {
    pub fn name(self) -> &'static str {
        match self {
            Kind::Fft => "fft",
            Kind::Ifft => "ifft",
            Kind::CosetFft => "coset_fft",
            Kind::CosetIfft => "coset_ifft",
        }
    }
    pub fn inverse(self) -> Kind {
        match self {
            Kind::Fft => Kind::Ifft,
            Kind::Ifft => Kind::Fft,
            Kind::CosetFft => Kind::CosetIfft,
            Kind::CosetIfft => Kind::CosetFft,
        }
    }
    /// The real kernel on the domain built for `n` coefficients.
    pub fn call(self, n: usize, v: &[Fe]) -> Result<Vec<Fe>, String> {
        let r = match self {
            Kind::Fft => k::fft(n, v),
            Kind::Ifft => k::ifft(n, v),
            Kind::CosetFft => k::coset_fft(n, v),
            Kind::CosetIfft => k::coset_ifft(n, v),
        };
        r.map_err(|e| format!("{:?}", e))
    }
    /// The definition over the FULL input vector (O(n·len)).
    pub fn definition(self, v: &[Fe], n: usize) -> Vec<Fe> {
        match self {
            Kind::Fft => m4::dft(v, n),
            Kind::Ifft => m4::idft(v, n),
            Kind::CosetFft => m4::coset_dft(v, n),
            Kind::CosetIfft => m4::coset_idft(v, n),
        }
    }
    pub fn definition_at(self, v: &[Fe], n: usize, idx: &[usize]) -> Vec<Fe> {
        match self {
            Kind::Fft => m4::dft_at(v, n, idx),
            Kind::Ifft => m4::idft_at(v, n, idx),
            Kind::CosetFft => m4::coset_dft_at(v, n, idx),
            Kind::CosetIfft => m4::coset_idft_at(v, n, idx),
        }
    }
    /// Second route: own recursive radix-2 transform.
    pub fn fast(self, v: &[Fe], n: usize) -> Vec<Fe> {
        match self {
            Kind::Fft => m4::fast_dft(v, n),
            Kind::Ifft => m4::fast_idft(v, n),
            Kind::CosetFft => m4::fast_coset_dft(v, n),
            Kind::CosetIfft => m4::fast_coset_idft(v, n),
        }
    }
}

pub fn lengths(n: usize) -> Vec<usize> {
    let mut s = BTreeSet::new();
    for l in [0, 1, n / 2, n.saturating_sub(1), n, n + 1, 2 * n] {
        s.insert(l);
    }
    // several wraps around the domain (the coefficients fold modulo X^n - 1)
    if n <= 1 << 12 {
        for l in [2 * n + 1, 3 * n, 4 * n + 1] {
            s.insert(l);
        }
    }
    s.into_iter().collect()
}

/// The vector family for one input length (deduplicated by content).
pub fn vectors(len: usize, stream: u64) -> Vec<(&'static str, Vec<Fe>)> {
    if len == 0 {
        return vec![("empty", vec![])];
    }
    let mut rho = Rho::new(seed(), 1900 + stream);
    let rv: Vec<Fe> = (0..len).map(|_| rho.next_fe()).collect();
    let unit = |i: usize| {
        let mut v = vec![zero(); len];
        v[i] = one();
        v
    };
    let mut out: Vec<(&'static str, Vec<Fe>)> = vec![("zeros", vec![zero(); len]), ("e_0", unit(0))];
    if len >= 2 {
        out.push(("e_1", unit(1)));
    }
    out.push(("e_last", unit(len - 1)));
    out.push(("ones", vec![one(); len]));
    let mut tz = rv.clone();
    for x in tz.iter_mut().skip((len + 1) / 2) {
        *x = zero();
    }
    out.push(("trailing_zeros", tz));
    out.push(("rho", rv));
    let mut dedup: Vec<(&'static str, Vec<Fe>)> = vec![];
    for (nm, v) in out {
        if !dedup.iter().any(|(_, w)| *w == v) {
            dedup.push((nm, v));
        }
    }
    dedup
}

pub struct FftCase {
    pub n: usize,
    pub kind: Kind,
    pub len: usize,
    pub vname: &'static str,
    pub input: Vec<Fe>,
}

pub struct FftRef {
    /// definition over the full input vector
    pub expect: Vec<Fe>,
    /// definition over the input cut to the domain size (only for len > n)
    pub trunc: Option<Vec<Fe>>,
    pub selfcheck: Result<(), String>,
}

/// 64 spread indices incl. 0, 1, n/2, n-1.
pub fn spot_indices(n: usize) -> Vec<usize> {
    let mut s = BTreeSet::new();
    for i in [0, 1, n / 2, n - 1] {
        s.insert(i % n);
    }
    let mut kk = 0usize;
    while s.len() < 64.min(n) {
        s.insert((kk * (n / 60).max(1) + kk * 7 + 3) % n);
        kk += 1;
    }
    s.into_iter().collect()
}

pub fn reference(c: &FftCase) -> FftRef {
    let n = c.n;
    if n <= FULL_DFT_MAX {
        let expect = c.kind.definition(&c.input, n);
        let trunc = if c.len > n { Some(c.kind.definition(&c.input[..n], n)) } else { None };
        // the recursive route must agree with the definition on every small case
        let fast = c.kind.fast(&c.input, n);
        let selfcheck = if fast == expect { Ok(()) } else { Err("M4 recursive route differs from the M4 definition".to_string()) };
        FftRef { expect, trunc, selfcheck }
    } else {
        let expect = c.kind.fast(&c.input, n);
        let idx = spot_indices(n);
        let at = c.kind.definition_at(&c.input, n, &idx);
        let mut selfcheck = Ok(());
        for (j, i) in idx.iter().enumerate() {
            if at[j] != expect[*i] {
                selfcheck = Err(format!("M4 recursive route differs from the M4 definition at index {}", i));
                break;
            }
        }
        let trunc = if c.len > n { Some(c.kind.fast(&c.input[..n], n)) } else { None };
        FftRef { expect, trunc, selfcheck }
    }
}

fn size_class(n: usize) -> &'static str {
    if n >= PAR_MIN_LEN {
        "n>=2^12"
    } else {
        "n<2^12"
    }
}
fn thread_class(t: usize) -> &'static str {
    if t >= PAR_MIN_THREADS {
        "threads>=4"
    } else {
        "threads<4"
    }
}

pub struct FftStats {
    pub big_par_runs: u64,
    pub full_definition_big: Vec<usize>,
    pub sizes: Vec<usize>,
    pub threads: Vec<usize>,
}

pub fn section_fft(tier: Tier, acc: &mut Acc) -> FftStats {
    let sizes: Vec<usize> = match tier {
        Tier::Quick => (0..=8).chain([12, 13]).map(|k| 1usize << k).collect(),
        Tier::Thorough => (0..=14).map(|k| 1usize << k).collect(),
    };
    // sizes above FULL_DFT_MAX whose rho vector is additionally compared with
    // the O(n^2) definition at EVERY index
    let full_big: Vec<usize> = match tier {
        Tier::Quick => vec![1 << 12],
        Tier::Thorough => vec![1 << 11, 1 << 12, 1 << 13, 1 << 14],
    };
    // quick: both sides of the >= 4 threads switch plus odd / oversubscribed counts; thorough: every count 1..=17
    let threads: Vec<usize> = match tier {
        Tier::Quick => THREADS.to_vec(),
        Tier::Thorough => (1..=17).collect(),
    };
    let pools: Vec<(usize, rayon::ThreadPool)> =
        threads.iter().map(|t| (*t, rayon::ThreadPoolBuilder::new().num_threads(*t).build().expect("pool"))).collect();
    let mut stats = FftStats { big_par_runs: 0, full_definition_big: vec![], sizes: sizes.clone(), threads: threads.clone() };

    let t0 = std::time::Instant::now();
    for &n in &sizes {
        let log_n = n.trailing_zeros();
        if std::env::var("VERIF_TRACE").is_ok() {
            eprintln!("[C19] fft n=2^{} starts at {:.1}s", log_n, t0.elapsed().as_secs_f64());
        }
        for kind in KINDS {
            let mut cases = vec![];
            for len in lengths(n) {
                for (vname, input) in vectors(len, (log_n as u64) * 8 + len as u64 % 7) {
                    // quick tier: three vector families on the big sizes
                    if tier == Tier::Quick && n > FULL_DFT_MAX && !["empty", "e_last", "trailing_zeros", "rho"].contains(&vname) {
                        continue;
                    }
                    cases.push(FftCase { n, kind, len, vname, input });
                }
            }
            let refs = par_map(&cases, reference);
            // full O(n^2) definition for the rho vector of big sizes, split over the workers
            if n > FULL_DFT_MAX && full_big.contains(&n) {
                if let Some((ci, c)) = cases.iter().enumerate().find(|(_, c)| c.vname == "rho" && c.len == n) {
                    if let Ok(r) = &refs[ci] {
                        let chunks: Vec<Vec<usize>> = (0..n).collect::<Vec<_>>().chunks(n / 64).map(|c| c.to_vec()).collect();
                        let res = par_map(&chunks, |idx| {
                            let at = kind.definition_at(&c.input, n, idx);
                            idx.iter().zip(at).all(|(i, v)| r.expect[*i] == v)
                        });
                        if res.iter().all(|x| matches!(x, Ok(true))) {
                            if !stats.full_definition_big.contains(&n) {
                                stats.full_definition_big.push(n);
                            }
                            acc.outcome("m4:full-definition-confirms-recursive-route(big)");
                        } else {
                            acc.machinery.push(format!("M4 full definition differs from recursive route, n={} {}", n, kind.name()));
                        }
                    }
                }
            }
            for (c, r) in cases.iter().zip(refs) {
                let r = match r {
                    Ok(r) => r,
                    Err(p) => {
                        acc.machinery.push(format!("reference panicked: {} n={} len={} {}: {}", kind.name(), n, c.len, c.vname, p));
                        continue;
                    }
                };
                if let Err(e) = &r.selfcheck {
                    acc.machinery.push(format!("{} ({} n={} len={} {})", e, kind.name(), n, c.len, c.vname));
                    continue;
                }
                let padded: Vec<Fe> = if c.len <= n {
                    let mut p = c.input.clone();
                    p.resize(n, zero());
                    p
                } else {
                    vec![]
                };
                let shape = format!("n=2^{}/len={}", log_n, len_class(c.len, n));
                let mut first_out: Option<Vec<Fe>> = None;
                let case_hash = fnv(format!("{}|{}|{}|{}", kind.name(), n, c.len, c.vname).as_bytes());
                for (t, pool) in &pools {
                    let (seen_threads, out, back) = pool.install(|| {
                        let st = rayon::current_num_threads();
                        let out = guard(|| kind.call(n, &c.input));
                        let back = match &out {
                            Ok(Ok(o)) if c.len <= n => Some(guard(|| kind.inverse().call(n, o))),
                            _ => None,
                        };
                        (st, out, back)
                    });
                    if seen_threads != *t {
                        acc.machinery.push(format!("pool of {} threads reports {}", t, seen_threads));
                    }
                    if n >= PAR_MIN_LEN && seen_threads >= PAR_MIN_THREADS {
                        stats.big_par_runs += 1;
                    }
                    let mk_desc = || json!({"kernel": kind.name(), "n": n, "len": c.len, "vector": c.vname, "threads": t, "input": hexv(&c.input)});
                    let h = case_hash ^ (*t as u64).wrapping_mul(0x9E3779B97F4A7C15);
                    let out = match out {
                        Err(p) => {
                            acc.case(kind.name(), &shape, None);
                            acc.fail("fft", &format!("{}/panic/{}", kind.name(), len_rel(c.len, n)), format!("{} panicked: {}", kind.name(), p), mk_desc());
                            continue;
                        }
                        Ok(Err(e)) => {
                            acc.case(kind.name(), &shape, None);
                            acc.fail("fft", &format!("{}/error/{}", kind.name(), len_rel(c.len, n)), format!("{} returned Err({})", kind.name(), e), mk_desc());
                            continue;
                        }
                        Ok(Ok(o)) => o,
                    };
                    acc.case(kind.name(), &shape, if nonconstant(&out) { Some(h) } else { None });
                    if out == r.expect {
                        acc.outcome(&format!("{}:equals-definition", kind.name()));
                    } else if c.len > n && matches!(kind, Kind::Ifft | Kind::CosetIfft) {
                        // Interpolation on a subgroup of n points is defined for
                        // n values; a longer evaluation vector is not "a vector
                        // on that domain", so the statement does not cover it
                        // (informational; thread-independence is still checked).
                        acc.outcome(&format!("{}:longer-than-domain(outside the statement)", kind.name()));
                    } else if c.len > n && Some(&out) == r.trunc.as_ref() {
                        let mut d = mk_desc();
                        d["first_difference"] = first_diff(&out, &r.expect);
                        acc.fail(
                            "fft",
                            &format!("{}/longer-than-domain/truncated", kind.name()),
                            format!(
                                "{} of a vector longer than the domain (n={}, len={}, {}) returns the transform of the first n entries; the definition over the full vector differs",
                                kind.name(), n, c.len, c.vname
                            ),
                            d,
                        );
                    } else {
                        let mut d = mk_desc();
                        d["first_difference"] = first_diff(&out, &r.expect);
                        acc.fail(
                            "fft",
                            &format!("{}/wrong-output/{}/{}/{}", kind.name(), len_rel(c.len, n), size_class(n), thread_class(*t)),
                            format!("{} differs from the definition (n={}, len={}, {}, {} threads)", kind.name(), n, c.len, c.vname, t),
                            d,
                        );
                    }
                    match &first_out {
                        None => first_out = Some(out.clone()),
                        Some(f) => {
                            if *f != out {
                                let mut d = mk_desc();
                                d["first_difference_vs_1_thread"] = first_diff(&out, f);
                                acc.fail(
                                    "fft",
                                    &format!("{}/thread-count-dependent/{}", kind.name(), size_class(n)),
                                    format!("{} output with {} threads differs from 1 thread (n={}, len={}, {})", kind.name(), t, n, c.len, c.vname),
                                    d,
                                );
                            }
                        }
                    }
                    if let Some(b) = back {
                        acc.case(&format!("{}-roundtrip", kind.name()), &shape, None);
                        match b {
                            Ok(Ok(b)) if b == padded => acc.outcome(&format!("{}:inverse-after-forward-is-identity", kind.name())),
                            Ok(Ok(b)) => {
                                let mut d = mk_desc();
                                d["first_difference"] = first_diff(&b, &padded);
                                acc.fail(
                                    "fft",
                                    &format!("{}/roundtrip/{}/{}", kind.name(), size_class(n), thread_class(*t)),
                                    format!("{}∘{} is not the identity (n={}, len={}, {}, {} threads)", kind.inverse().name(), kind.name(), n, c.len, c.vname, t),
                                    d,
                                );
                            }
                            Ok(Err(e)) => acc.fail("fft", &format!("{}/roundtrip/error", kind.name()), format!("inverse returned Err({})", e), mk_desc()),
                            Err(p) => acc.fail("fft", &format!("{}/roundtrip/panic", kind.name()), format!("inverse panicked: {}", p), mk_desc()),
                        }
                    }
                }
                if acc.samples.len() < 4 && c.vname == "rho" && c.len == n && n >= 4 {
                    acc.samples.push(json!({"kernel": kind.name(), "n": n, "len": c.len, "vector": c.vname, "threads": threads.clone(), "output_fnv": format!("{:016x}", hash_vec(0, &r.expect))}));
                }
            }
        }
    }
    stats
}

fn len_rel(len: usize, n: usize) -> &'static str {
    if len > n {
        "longer-than-domain"
    } else if len == n {
        "len=n"
    } else {
        "shorter-than-domain"
    }
}

fn len_class(len: usize, n: usize) -> String {
    if len == 0 {
        "0".into()
    } else if len == 2 * n {
        "2n".into()
    } else if len == 2 * n + 1 {
        "2n+1".into()
    } else if len == 3 * n {
        "3n".into()
    } else if len == 4 * n + 1 {
        "4n+1".into()
    } else if len == n + 1 {
        "n+1".into()
    } else if len == n {
        "n".into()
    } else if len + 1 == n {
        "n-1".into()
    } else if len == n / 2 {
        "n/2".into()
    } else {
        format!("{}", len)
    }
}

// ---------------------------------------------------------------------------
// section: domain construction and elements
// ---------------------------------------------------------------------------

pub fn section_domain(acc: &mut Acc) {
    let mut ms: Vec<usize> = (0..=33).collect();
    ms.extend([63, 64, 65, 255, 256, 257, 1000, 1024, 1025, (1 << 14) - 1, 1 << 14, (1 << 14) + 1]);
    for m in ms {
        let size = m.max(1).next_power_of_two();
        let w = m4::root_of_unity(size);
        // primitivity of the M4 root (self check)
        if m4::pow_u64(w, size as u64) != one() || (size > 1 && m4::pow_u64(w, size as u64 / 2) != neg1()) {
            acc.machinery.push(format!("M4 root of unity for size {} is not primitive", size));
        }
        let desc = json!({"kernel": "domain", "num_coeffs": m});
        match guard(|| k::domain(m)) {
            Ok(Ok((s, g))) => {
                acc.case("domain", &format!("size=2^{}", size.trailing_zeros()), Some(fnv(format!("domain|{}", m).as_bytes())));
                if s != size || g != w {
                    acc.fail("domain", "domain/wrong-size-or-generator", format!("domain({}) = ({}, {}), expected ({}, {})", m, s, hex(&g), size, hex(&w)), desc.clone());
                }
            }
            Ok(Err(e)) => {
                acc.case("domain", "err", None);
                acc.fail("domain", "domain/error", format!("domain({}) returned Err({:?})", m, e), desc.clone());
            }
            Err(p) => {
                acc.case("domain", "panic", None);
                acc.fail("domain", "domain/panic", format!("domain({}) panicked: {}", m, p), desc.clone());
            }
        }
        if size <= 1 << 14 {
            match guard(|| k::elements(m)) {
                Ok(Ok(e)) => {
                    acc.case("elements", &format!("size=2^{}", size.trailing_zeros()), Some(fnv(format!("elements|{}", m).as_bytes())));
                    let exp = m4::domain_elements(size);
                    if e != exp {
                        acc.fail("domain", "elements/wrong", format!("elements({}) differ from ω^i", m), json!({"kernel": "elements", "num_coeffs": m, "first_difference": first_diff(&e, &exp)}));
                    }
                }
                Ok(Err(e)) => acc.fail("domain", "elements/error", format!("elements({}) returned Err({:?})", m, e), desc.clone()),
                Err(p) => acc.fail("domain", "elements/panic", format!("elements({}) panicked: {}", m, p), desc.clone()),
            }
        }
    }
}

// ---------------------------------------------------------------------------
// section: polynomial arithmetic
// ---------------------------------------------------------------------------

/// All coefficient vectors of length <= 3 over {0, 1, -1, 2}: 85.
pub fn small_polys() -> Vec<Vec<Fe>> {
    let alpha = [zero(), one(), neg1(), fe(2)];
    let mut out = vec![vec![]];
    for len in 1..=3usize {
        for t in 0..4usize.pow(len as u32) {
            let mut idx = t;
            let mut v = vec![];
            for _ in 0..len {
                v.push(alpha[idx % 4]);
                idx /= 4;
            }
            out.push(v);
        }
    }
    out
}

fn rho_scalar() -> Fe {
    Rho::new(seed(), 1919).next_fe()
}

pub fn eval_points() -> Vec<(&'static str, Fe)> {
    vec![("0", zero()), ("1", one()), ("-1", neg1()), ("2", fe(2)), ("rho", rho_scalar()), ("omega_8", m4::root_of_unity(8))]
}

pub fn scalars() -> Vec<(&'static str, Fe)> {
    vec![("0", zero()), ("1", one()), ("-1", neg1()), ("rho", rho_scalar())]
}

fn check_poly(acc: &mut Acc, op: &str, shape: &str, real: Result<Vec<Fe>, String>, expect: &[Fe], desc: Value) {
    let h = fnv(format!("{}|{}", op, desc).as_bytes());
    match real {
        Err(p) => {
            acc.case(op, shape, None);
            acc.fail("poly", &format!("{}/panic", op), format!("{} panicked: {}", op, p), desc);
        }
        Ok(r) => {
            let nt = !m4::trim(expect).is_empty();
            acc.case(op, shape, if nt { Some(h) } else { None });
            if r.last().map_or(false, |c| *c == zero()) {
                acc.outcome(&format!("info:{}:result-has-trailing-zero-coefficients", op));
            }
            if !m4::poly_eq(&r, expect) {
                let mut d = desc;
                d["real"] = hexv(&r);
                d["expected"] = hexv(&m4::trim(expect));
                acc.fail("poly", &format!("{}/wrong-result", op), format!("{} differs from schoolbook arithmetic", op), d);
            }
        }
    }
}

fn check_scalar(acc: &mut Acc, op: &str, shape: &str, real: Result<Fe, String>, expect: Fe, desc: Value) {
    let h = fnv(format!("{}|{}", op, desc).as_bytes());
    match real {
        Err(p) => {
            acc.case(op, shape, None);
            acc.fail("poly", &format!("{}/panic", op), format!("{} panicked: {}", op, p), desc);
        }
        Ok(r) => {
            acc.case(op, shape, if expect != zero() { Some(h) } else { None });
            if r != expect {
                let mut d = desc;
                d["real"] = json!(hex(&r));
                d["expected"] = json!(hex(&expect));
                acc.fail("poly", &format!("{}/wrong-result", op), format!("{} differs from the definition", op), d);
            }
        }
    }
}

fn unary_checks(acc: &mut Acc, a: &[Fe], shape: &str) {
    let da = hexv(a);
    check_poly(acc, "poly_neg", shape, guard(|| k::poly_neg(a)), &m4::poly_neg(a), json!({"a": da}));
    // degree: highest index with a non-zero coefficient, 0 for the zero polynomial
    let deg = m4::trim(a).len().saturating_sub(1);
    match guard(|| k::poly_degree(a)) {
        Ok(d) => {
            acc.case("poly_degree", shape, Some(fnv(format!("deg|{}", da).as_bytes())));
            if d != deg {
                acc.fail("poly", "poly_degree/wrong-result", format!("degree {} expected {}", d, deg), json!({"a": da}));
            }
        }
        Err(p) => acc.fail("poly", "poly_degree/panic", p, json!({"a": da})),
    }
    for (sn, s) in scalars() {
        let d = json!({"a": da, "s": sn});
        check_poly(acc, "poly_scale", shape, guard(|| k::poly_scale(a, &s)), &m4::poly_scale(a, s), d.clone());
        check_poly(acc, "poly_add_scalar", shape, guard(|| k::poly_add_scalar(a, &s)), &m4::poly_add_scalar(a, s), d.clone());
        check_poly(acc, "poly_sub_scalar", shape, guard(|| k::poly_sub_scalar(a, &s)), &m4::poly_add_scalar(a, -s), d);
    }
    for (zn, z) in eval_points() {
        let d = json!({"a": da, "point": zn});
        let v = m4::horner(a, z);
        check_scalar(acc, "poly_eval", shape, guard(|| k::poly_eval(a, &z)), v, d.clone());
        // division by (X - z): quotient·(X − z) + a(z) == a, and equal to the M4 quotient
        let (q, r) = m4::div_linear(a, z);
        if r != v {
            acc.machinery.push("M4 remainder differs from Horner value".into());
        }
        match guard(|| k::poly_ruffini(a, z)) {
            Err(p) => {
                acc.case("poly_ruffini", shape, None);
                acc.fail("poly", "poly_ruffini/panic", format!("ruffini panicked: {}", p), d);
            }
            Ok(rq) => {
                acc.case("poly_ruffini", shape, if !m4::trim(&q).is_empty() { Some(fnv(format!("ruf|{}", d).as_bytes())) } else { None });
                let back = m4::poly_add(&m4::poly_mul(&rq, &[-z, one()]), &[v]);
                if !m4::poly_eq(&back, a) || !m4::poly_eq(&rq, &q) {
                    let mut dd = d;
                    dd["real_quotient"] = hexv(&rq);
                    dd["expected_quotient"] = hexv(&m4::trim(&q));
                    dd["remainder"] = json!(hex(&v));
                    let zc = if z == zero() { "z=0" } else { "z!=0" };
                    acc.fail("poly", &format!("poly_ruffini/wrong-quotient/{}", zc), "quotient·(X−z) + a(z) != a".into(), dd);
                }
            }
        }
    }
}

fn binary_checks(acc: &mut Acc, a: &[Fe], b: &[Fe], shape: &str) {
    let d = json!({"a": hexv(a), "b": hexv(b)});
    let sum = m4::poly_add(a, b);
    let dif = m4::poly_sub(a, b);
    check_poly(acc, "poly_add", shape, guard(|| k::poly_add(a, b)), &sum, d.clone());
    check_poly(acc, "poly_add_assign", shape, guard(|| k::poly_add_assign(a, b)), &sum, d.clone());
    check_poly(acc, "poly_sub", shape, guard(|| k::poly_sub(a, b)), &dif, d.clone());
    check_poly(acc, "poly_sub_assign", shape, guard(|| k::poly_sub_assign(a, b)), &dif, d.clone());
    check_poly(acc, "poly_mul", shape, guard(|| k::poly_mul(a, b)), &m4::poly_mul(&m4::trim(a), &m4::trim(b)), d.clone());
    for (sn, s) in scalars() {
        let mut ds = d.clone();
        ds["s"] = json!(sn);
        check_poly(acc, "poly_add_assign_scaled", shape, guard(|| k::poly_add_assign_scaled(a, s, b)), &m4::poly_add(a, &m4::poly_scale(b, s)), ds);
    }
}

pub fn section_poly(acc: &mut Acc) {
    let polys = small_polys();
    assert_eq!(polys.len(), 85);
    let idx: Vec<usize> = (0..polys.len()).collect();
    let parts = par_map(&idx, |&i| {
        let mut acc = Acc::default();
        let a = &polys[i];
        unary_checks(&mut acc, a, &format!("len={}", a.len()));
        for b in &polys {
            binary_checks(&mut acc, a, b, &format!("len={}xlen={}", a.len(), b.len()));
        }
        acc
    });
    for p in parts {
        match p {
            Ok(a) => acc.merge(a),
            Err(e) => acc.machinery.push(format!("poly worker panicked: {}", e)),
        }
    }
    // long rho vectors, plus cancelling / degree-dropping companions
    let mut longs: Vec<(String, Vec<Fe>)> = vec![];
    for (j, len) in [17usize, 64, 257].iter().enumerate() {
        let mut rho = Rho::new(seed(), 1950 + j as u64);
        let v: Vec<Fe> = (0..*len).map(|_| rho.next_fe()).collect();
        longs.push((format!("rho{}", len), v.clone()));
        longs.push((format!("neg-rho{}", len), m4::poly_neg(&v)));
        let mut w = v.clone();
        w[len - 1] = w[len - 1] + one();
        w[0] = zero();
        longs.push((format!("rho{}-top+1", len), w));
        let mut t = v.clone();
        for x in t.iter_mut().skip(len / 2) {
            *x = zero();
        }
        longs.push((format!("rho{}-trailing-zeros", len), t));
    }
    let li: Vec<usize> = (0..longs.len()).collect();
    let parts = par_map(&li, |&i| {
        let mut acc = Acc::default();
        let (_, a) = &longs[i];
        unary_checks(&mut acc, a, &format!("long-len={}", a.len()));
        for (_, b) in &longs {
            binary_checks(&mut acc, a, b, &format!("long-len={}xlen={}", a.len(), b.len()));
        }
        acc
    });
    for p in parts {
        match p {
            Ok(a) => acc.merge(a),
            Err(e) => acc.machinery.push(format!("poly worker panicked: {}", e)),
        }
    }
    // multiplication whose FFT domain crosses the 2^12 parallel threshold, in real pools
    let mut rho = Rho::new(seed(), 1990);
    let a: Vec<Fe> = (0..2048).map(|_| rho.next_fe()).collect();
    let b: Vec<Fe> = (0..2049).map(|_| rho.next_fe()).collect();
    let rows: Vec<usize> = (0..a.len()).collect();
    // schoolbook product, rows distributed over the workers
    let partial = par_map(&rows.chunks(128).map(|c| c.to_vec()).collect::<Vec<_>>(), |rs| {
        let mut out = vec![zero(); a.len() + b.len() - 1];
        for &i in rs {
            for (j, y) in b.iter().enumerate() {
                out[i + j] = out[i + j] + a[i] * *y;
            }
        }
        out
    });
    let mut prod = vec![zero(); a.len() + b.len() - 1];
    for p in partial {
        match p {
            Ok(p) => {
                for (x, y) in prod.iter_mut().zip(p) {
                    *x = *x + y;
                }
            }
            Err(e) => acc.machinery.push(format!("schoolbook worker panicked: {}", e)),
        }
    }
    for t in [1usize, 4, 8, 17] {
        let pool = rayon::ThreadPoolBuilder::new().num_threads(t).build().expect("pool");
        let r = pool.install(|| guard(|| k::poly_mul(&a, &b)));
        check_poly(acc, "poly_mul", &format!("long-2048x2049/threads={}", t), r, &prod, json!({"a": "rho x2048 (stream 1990)", "b": "rho x2049", "threads": t}));
    }
}

// ---------------------------------------------------------------------------
// section: batch inversion
// ---------------------------------------------------------------------------

pub fn section_batch_inv(acc: &mut Acc) {
    let rho = rho_scalar();
    let alpha = [zero(), one(), neg1(), rho];
    let names = ["0", "1", "-1", "rho"];
    let mut vs: Vec<(Vec<Fe>, String)> = vec![(vec![], "[]".into())];
    for len in 1..=4usize {
        for t in 0..4usize.pow(len as u32) {
            let mut idx = t;
            let mut v = vec![];
            let mut nm = vec![];
            for _ in 0..len {
                v.push(alpha[idx % 4]);
                nm.push(names[idx % 4]);
                idx /= 4;
            }
            vs.push((v, format!("[{}]", nm.join(","))));
        }
    }
    assert_eq!(vs.len(), 341);
    // long vectors: all non-zero, and zeros sprinkled in
    let mut r = Rho::new(seed(), 1960);
    let long: Vec<Fe> = (0..1000).map(|_| r.next_fe()).collect();
    let mut holes = long.clone();
    for i in (0..1000).step_by(7) {
        holes[i] = zero();
    }
    vs.push((long, "rho x1000".into()));
    vs.push((holes, "rho x1000 with every 7th entry zero".into()));
    vs.push((vec![zero(); 33], "0 x33".into()));
    for (v, nm) in vs {
        let expect = m4::invert_each(&v);
        let mut w = v.clone();
        let r = guard(|| {
            k::batch_inversion(&mut w);
        });
        let zeros = v.iter().filter(|x| **x == zero()).count();
        let shape = format!("len={}/zeros={}", v.len().min(5), zeros.min(5));
        let desc = json!({"kernel": "batch_inversion", "input": nm});
        match r {
            Err(p) => {
                acc.case("batch_inversion", &shape, None);
                acc.fail("batch_inv", "batch_inversion/panic", format!("batch_inversion panicked on {}: {}", nm, p), desc);
            }
            Ok(()) => {
                let nt = v.iter().any(|x| *x != zero() && *x != one());
                acc.case("batch_inversion", &shape, if nt { Some(fnv(nm.as_bytes())) } else { None });
                if w != expect {
                    let mut d = desc;
                    d["first_difference"] = first_diff(&w, &expect);
                    acc.fail("batch_inv", "batch_inversion/wrong-result", format!("batch_inversion({}) differs from per-element inversion", nm), d);
                }
            }
        }
    }
}

// ---------------------------------------------------------------------------
// section: vanishing / Lagrange / barycentric closed forms
// ---------------------------------------------------------------------------

fn taus(n: usize) -> Vec<(String, Fe, bool)> {
    let rho = rho_scalar();
    let mut out: Vec<(String, Fe)> = vec![("0".into(), zero()), ("1".into(), one()), ("-1".into(), neg1()), ("2".into(), fe(2)), ("rho".into(), rho)];
    let xs = m4::domain_elements(n);
    if n <= 8 {
        for (i, x) in xs.iter().enumerate() {
            out.push((format!("omega^{}", i), *x));
        }
    } else {
        out.push((format!("omega^{}", n / 2 + 1), xs[n / 2 + 1]));
        out.push((format!("omega^{}", n - 1), xs[n - 1]));
    }
    // classify and dedup by value
    let mut res: Vec<(String, Fe, bool)> = vec![];
    for (nm, t) in out {
        if res.iter().any(|(_, u, _)| *u == t) {
            continue;
        }
        let on = xs.iter().any(|x| *x == t);
        res.push((nm, t, on));
    }
    res
}

fn closed_for_size(n: usize) -> Acc {
    let mut acc = Acc::default();
    let log_n = n.trailing_zeros();
    let xs = m4::domain_elements(n);
    let mut rho = Rho::new(seed(), 1970 + log_n as u64);
    let rv: Vec<Fe> = (0..n).map(|_| rho.next_fe()).collect();
    for (tn, tau, on_domain) in taus(n) {
        let place = if on_domain { "domain-point" } else { "outside-domain" };
        let shape = format!("n=2^{}/{}", log_n, place);
        let lag = m4::lagrange_all(n, tau);
        // M4 self check: closed form == product definition
        for i in 0..n {
            if m4::lagrange_closed(n, i, tau) != lag[i] {
                acc.machinery.push(format!("M4 closed-form L_{} differs from the product definition (n={}, tau={})", i, n, tn));
            }
        }
        // --- lagrange_all
        let desc = json!({"kernel": "lagrange_all", "n": n, "tau": tn, "tau_value": hex(&tau)});
        match guard(|| k::lagrange_all(n, tau)) {
            Ok(Ok(r)) => {
                acc.case("lagrange_all", &shape, Some(fnv(desc.to_string().as_bytes())));
                if r != lag {
                    let mut d = desc.clone();
                    d["first_difference"] = first_diff(&r, &lag);
                    acc.fail("closed", &format!("lagrange_all/wrong-value/{}", place), format!("lagrange_all(n={}, tau={}) differs from the product definition", n, tn), d);
                }
            }
            Ok(Err(e)) => acc.fail("closed", "lagrange_all/error", format!("{:?}", e), desc.clone()),
            Err(p) => acc.fail("closed", &format!("lagrange_all/panic/{}", place), p, desc.clone()),
        }
        // --- vanishing_eval
        let desc = json!({"kernel": "vanishing_eval", "n": n, "tau": tn});
        match guard(|| k::vanishing_eval(n, &tau)) {
            Ok(Ok(r)) => {
                let e = m4::vanishing(n, tau);
                acc.case("vanishing_eval", &shape, if e != zero() { Some(fnv(desc.to_string().as_bytes())) } else { None });
                // Z_H by the product of (tau - omega^i) as well
                let mut prod = one();
                for x in &xs {
                    prod = prod * (tau - *x);
                }
                if prod != e {
                    acc.machinery.push(format!("M4 tau^n-1 differs from the product of (tau - omega^i), n={}", n));
                }
                if r != e {
                    acc.fail("closed", "vanishing_eval/wrong-value", format!("vanishing_eval(n={}, tau={}) = {}, expected {}", n, tn, hex(&r), hex(&e)), desc.clone());
                }
            }
            Ok(Err(e)) => acc.fail("closed", "vanishing_eval/error", format!("{:?}", e), desc.clone()),
            Err(p) => acc.fail("closed", "vanishing_eval/panic", p, desc.clone()),
        }
        // --- barycentric
        let mut evs: Vec<(String, Vec<Fe>)> = vec![("zeros".into(), vec![zero(); n]), ("ones".into(), vec![one(); n]), ("rho".into(), rv.clone())];
        for i in [0usize, 1, n - 1] {
            if i < n && !evs.iter().any(|(nm, _)| *nm == format!("e_{}", i)) {
                let mut v = vec![zero(); n];
                v[i] = one();
                evs.push((format!("e_{}", i), v));
            }
        }
        let mut sparse = rv.clone();
        for (i, x) in sparse.iter_mut().enumerate() {
            if i % 3 != 0 {
                *x = zero();
            }
        }
        evs.push(("sparse-rho".into(), sparse));
        if n >= 2 {
            evs.push(("short-rho(n/2)".into(), rv[..n / 2].to_vec()));
            evs.push(("empty".into(), vec![]));
        }
        for (en, ev) in &evs {
            let expect = m4::eval_from_evals(n, ev, tau);
            // second definition: interpolate, then Horner
            let mut padded = ev.clone();
            padded.resize(n, zero());
            if m4::horner(&m4::idft(&padded, n), tau) != expect {
                acc.machinery.push(format!("M4 Σ v_i L_i differs from Horner of the interpolant (n={}, tau={})", n, tn));
            }
            let desc = json!({"kernel": "barycentric", "n": n, "evaluations": en, "tau": tn, "tau_value": hex(&tau), "evaluation_values": hexv(ev)});
            match guard(|| k::barycentric(n, ev, &tau)) {
                Ok(Ok(r)) => {
                    acc.case("barycentric", &format!("{}/{}", shape, if ev.len() < n { "short" } else { "full" }), if expect != zero() { Some(fnv(desc.to_string().as_bytes())) } else { None });
                    if r != expect {
                        let mut d = desc.clone();
                        d["real"] = json!(hex(&r));
                        d["expected"] = json!(hex(&expect));
                        let sig = if on_domain { "barycentric/domain-point".to_string() } else { "barycentric/wrong-value/outside-domain".to_string() };
                        acc.fail("closed", &sig, format!("barycentric(n={}, evals={}, tau={}) = {}, definition Σ v_i L_i(tau) = {}", n, en, tn, hex(&r), hex(&expect)), d);
                    } else if on_domain {
                        acc.outcome("barycentric/domain-point:agrees(value is zero there)");
                    }
                }
                Ok(Err(e)) => acc.fail("closed", "barycentric/error", format!("{:?}", e), desc.clone()),
                Err(p) => acc.fail("closed", &format!("barycentric/panic/{}", place), p, desc.clone()),
            }
        }
        // --- fused (L_1, PI) evaluation
        let mut subsets: Vec<Vec<usize>> = vec![vec![], vec![0], vec![n - 1], (0..n).collect()];
        if n >= 2 {
            subsets.push(vec![1]);
            subsets.push(vec![0, 1]);
        }
        if n >= 4 {
            subsets.push(vec![0, n / 2, n - 1]);
            subsets.push(vec![n / 2 + 1, 2]);
        }
        let mut seen: Vec<Vec<usize>> = vec![];
        for rows in subsets {
            if seen.contains(&rows) {
                continue;
            }
            seen.push(rows.clone());
            let w = m4::root_of_unity(n);
            let roots: Vec<Fe> = rows.iter().map(|r| m4::inv(m4::pow_u64(w, *r as u64))).collect();
            let base: Vec<Fe> = rows.iter().map(|r| rv[*r]).collect();
            let mut variants: Vec<(&str, Vec<Fe>)> = vec![("rho", base.clone())];
            if !rows.is_empty() {
                let mut z0 = base.clone();
                z0[0] = zero();
                variants.push(("first-zero", z0));
                variants.push(("all-zero", vec![zero(); rows.len()]));
                variants.push(("ones", vec![one(); rows.len()]));
            }
            for (vn, vals) in variants {
                let e_l1 = lag[0];
                let e_pi = m4::eval_sparse(n, &rows, &vals, tau);
                let desc = json!({"kernel": "lagrange_and_public_inputs", "n": n, "pi_rows": rows, "pi_values": vn, "pi_value_list": hexv(&vals), "tau": tn, "tau_value": hex(&tau)});
                let rows_class = if rows.is_empty() { "no-pi".to_string() } else if rows.len() == n { "all-rows".to_string() } else { format!("{}-rows", rows.len()) };
                match guard(|| k::lagrange_and_public_inputs(n, &roots, &vals, &tau)) {
                    Err(p) => {
                        acc.case("lagrange_and_public_inputs", &format!("{}/{}", shape, rows_class), None);
                        acc.fail("closed", &format!("lagrange_pi/panic/{}", place), p, desc);
                    }
                    Ok(Err(e)) => {
                        acc.case("lagrange_and_public_inputs", &format!("{}/{}", shape, rows_class), None);
                        if on_domain {
                            acc.outcome("lagrange_pi/domain-point:Err(as documented)");
                        } else {
                            acc.fail("closed", "lagrange_pi/outside-domain/error", format!("Err({:?}) for a point outside the domain", e), desc);
                        }
                    }
                    Ok(Ok((l1, pi))) => {
                        acc.case("lagrange_and_public_inputs", &format!("{}/{}", shape, rows_class), Some(fnv(desc.to_string().as_bytes())));
                        let ok = l1 == e_l1 && pi == e_pi;
                        if on_domain && ok {
                            acc.outcome("lagrange_pi/domain-point:Ok(correct values)");
                        }
                        if !ok {
                            let mut d = desc;
                            d["real"] = json!([hex(&l1), hex(&pi)]);
                            d["expected"] = json!([hex(&e_l1), hex(&e_pi)]);
                            acc.fail("closed", &format!("lagrange_pi/wrong-value/{}", place), format!("(L_1, PI)(tau={}) differs from the definition (n={}, rows={:?})", tn, n, rows), d);
                        }
                    }
                }
            }
        }
    }
    acc
}

fn coset_vanishing_case(acc: &mut Acc, dom: usize, deg: u64) {
    let shape = format!("D=2^{}/deg={}", dom.trailing_zeros(), if deg.is_power_of_two() { format!("2^{}", deg.trailing_zeros()) } else { deg.to_string() });
    let desc = json!({"kernel": "vanishing_over_coset", "domain": dom, "degree": deg});
    match guard(|| k::vanishing_over_coset(dom, deg)) {
        Ok(Ok(r)) => {
            acc.case("vanishing_over_coset", &shape, Some(fnv(desc.to_string().as_bytes())));
            let g = m4::coset_gen();
            let exp: Vec<Fe> = m4::domain_elements(dom).iter().map(|x| m4::pow_u64(g * *x, deg) - one()).collect();
            if r != exp {
                let mut d = desc;
                d["first_difference"] = first_diff(&r, &exp);
                acc.fail("closed", "vanishing_over_coset/wrong-value", format!("vanishing_over_coset({}, {}) differs from (g·ω^i)^deg − 1", dom, deg), d);
            }
        }
        Ok(Err(e)) => acc.fail("closed", "vanishing_over_coset/error", format!("{:?}", e), desc),
        Err(p) => acc.fail("closed", "vanishing_over_coset/panic", p, desc),
    }
}

pub fn section_closed(tier: Tier, acc: &mut Acc) {
    let sizes: Vec<usize> = (0..=6).map(|k| 1usize << k).collect();
    for p in par_map(&sizes, |&n| closed_for_size(n)) {
        match p {
            Ok(a) => acc.merge(a),
            Err(e) => acc.machinery.push(format!("closed-form worker panicked: {}", e)),
        }
    }
    // vanishing_eval on big domains
    let rho = rho_scalar();
    for lk in 7..=14u32 {
        let n = 1usize << lk;
        let w = m4::root_of_unity(n);
        for (tn, tau) in [("0", zero()), ("1", one()), ("-1", neg1()), ("rho", rho), ("omega^3", m4::pow_u64(w, 3)), ("g", m4::coset_gen())] {
            let e = m4::vanishing(n, tau);
            let desc = json!({"kernel": "vanishing_eval", "n": n, "tau": tn});
            match guard(|| k::vanishing_eval(n, &tau)) {
                Ok(Ok(r)) => {
                    acc.case("vanishing_eval", &format!("n=2^{}/{}", lk, if e == zero() { "domain-point" } else { "outside-domain" }), if e != zero() { Some(fnv(desc.to_string().as_bytes())) } else { None });
                    if r != e {
                        acc.fail("closed", "vanishing_eval/wrong-value", format!("vanishing_eval(n={}, tau={})", n, tn), desc);
                    }
                }
                Ok(Err(e)) => acc.fail("closed", "vanishing_eval/error", format!("{:?}", e), desc),
                Err(p) => acc.fail("closed", "vanishing_eval/panic", p, desc),
            }
        }
    }
    // X^deg - 1 over the coset of a larger domain
    let max_log = tier.pick(9u32, 11u32);
    let mut combos: Vec<(usize, u64)> = vec![];
    for lk in 0..=max_log {
        let n = 1usize << lk;
        combos.push((8 * n, n as u64));
        combos.push((4 * n, n as u64));
        combos.push((2 * n, n as u64));
    }
    combos.extend([(8, 0), (16, 5), (16, 15), (64, 33), (2, 1)]);
    let parts = par_map(&combos, |&(d, g)| {
        let mut a = Acc::default();
        coset_vanishing_case(&mut a, d, g);
        a
    });
    for p in parts {
        match p {
            Ok(a) => acc.merge(a),
            Err(e) => acc.machinery.push(format!("coset vanishing worker panicked: {}", e)),
        }
    }
    // degree >= domain size is refused by an assertion: outside the statement, informational
    match guard(|| k::vanishing_over_coset(8, 8)) {
        Err(_) => acc.outcome("info:vanishing_over_coset(degree>=domain):panics(assert)"),
        Ok(_) => acc.outcome("info:vanishing_over_coset(degree>=domain):returns"),
    }
    // big domains inside real multi-thread pools (par_iter paths), vs the M4 closed form
    // (the closed form was cross-checked against the product definition for n <= 64 above)
    let big_sizes: Vec<usize> = tier.pick(vec![1 << 12], vec![1 << 10, 1 << 12, 1 << 13]);
    for n in big_sizes {
        let w = m4::root_of_unity(n);
        let mut r = Rho::new(seed(), 1980 + n as u64);
        let evals: Vec<Fe> = (0..n).map(|i| if i % 5 == 4 { zero() } else { r.next_fe() }).collect();
        let idx: Vec<usize> = (0..n).collect();
        for (tn, tau) in [("rho", rho), ("0", zero()), ("omega^5", m4::pow_u64(w, 5))] {
            let on_domain = m4::vanishing(n, tau) == zero();
            let place = if on_domain { "domain-point" } else { "outside-domain" };
            let lag: Vec<Fe> = par_map(&idx.chunks(n / 64).map(|c| c.to_vec()).collect::<Vec<_>>(), |is| is.iter().map(|i| m4::lagrange_closed(n, *i, tau)).collect::<Vec<Fe>>())
                .into_iter()
                .flat_map(|x| x.expect("closed form"))
                .collect();
            let mut bexp = zero();
            for (v, l) in evals.iter().zip(&lag) {
                bexp = bexp + *v * *l;
            }
            for t in [1usize, 4, 17] {
                let pool = rayon::ThreadPoolBuilder::new().num_threads(t).build().expect("pool");
                let (rl, rb) = pool.install(|| (guard(|| k::lagrange_all(n, tau)), guard(|| k::barycentric(n, &evals, &tau))));
                let shape = format!("n=2^{}/{}/threads={}", n.trailing_zeros(), place, t);
                let desc = json!({"n": n, "tau": tn, "threads": t, "evaluations": "rho with every 5th zero"});
                match rl {
                    Ok(Ok(r)) => {
                        acc.case("lagrange_all", &shape, Some(fnv(format!("lag|{}", desc).as_bytes())));
                        if r != lag {
                            let mut d = desc.clone();
                            d["first_difference"] = first_diff(&r, &lag);
                            acc.fail("closed", &format!("lagrange_all/wrong-value/{}", place), format!("lagrange_all(n={}, tau={}, {} threads)", n, tn, t), d);
                        }
                    }
                    Ok(Err(e)) => acc.fail("closed", "lagrange_all/error", format!("{:?}", e), desc.clone()),
                    Err(p) => acc.fail("closed", &format!("lagrange_all/panic/{}", place), p, desc.clone()),
                }
                match rb {
                    Ok(Ok(r)) => {
                        acc.case("barycentric", &shape, Some(fnv(format!("bar|{}", desc).as_bytes())));
                        if r != bexp {
                            let mut d = desc.clone();
                            d["real"] = json!(hex(&r));
                            d["expected"] = json!(hex(&bexp));
                            let sig = if on_domain { "barycentric/domain-point".to_string() } else { "barycentric/wrong-value/outside-domain".to_string() };
                            acc.fail("closed", &sig, format!("barycentric(n={}, tau={}, {} threads)", n, tn, t), d);
                        }
                    }
                    Ok(Err(e)) => acc.fail("closed", "barycentric/error", format!("{:?}", e), desc.clone()),
                    Err(p) => acc.fail("closed", &format!("barycentric/panic/{}", place), p, desc.clone()),
                }
            }
        }
    }
}

// ---------------------------------------------------------------------------
// driver
// ---------------------------------------------------------------------------

pub const KERNELS: [&str; 29] = [
    "fft", "ifft", "coset_fft", "coset_ifft", "domain", "elements", "poly_add", "poly_add_assign", "poly_add_assign_scaled", "poly_sub",
    "poly_sub_assign", "poly_neg", "poly_mul", "poly_scale", "poly_add_scalar", "poly_sub_scalar", "poly_eval", "poly_degree", "poly_ruffini",
    "batch_inversion", "lagrange_all", "vanishing_eval", "vanishing_over_coset", "barycentric", "lagrange_and_public_inputs",
    "fft-roundtrip", "ifft-roundtrip", "coset_fft-roundtrip", "coset_ifft-roundtrip",
];

pub fn main(tier: Tier, replay: Option<Value>) -> i32 {
    let mut run = Run::new("C19", tier, "model_checking");
    run.rule = "cases = (kernel, input) pairs executed on the real crate-private kernels through verif::kernels and compared with the naive reference M4 (Horner DFT / definition-based interpolation, schoolbook polynomial arithmetic, per-element inversion, product-definition Lagrange basis); FFT cases = domain size x input length {0,1,n/2,n-1,n,n+1,2n} x vector family x kind {fft,ifft,coset_fft,coset_ifft} x real rayon pool of k threads (quick: k in {1,2,3,4,5,8,16,17}; thorough: every k in 1..=17), each also fed through the inverse kernel; states = distinct (kernel, size/shape) configurations; non-trivial = distinct cases whose output is not constant/zero".into();
    let (only, target_sig) = match &replay {
        Some(r) => {
            run.set_replay_mode();
            (r["case"]["section"].as_str().map(|s| s.to_string()), r["signature"].as_str().map(|s| s.to_string()))
        }
        None => (None, None),
    };
    let want = |s: &str| only.as_deref().map_or(true, |o| o == s);
    let mut acc = Acc::default();
    let mut fft_stats = None;
    if want("fft") {
        fft_stats = Some(section_fft(tier, &mut acc));
        eprintln!("[C19] fft section done at {:.1}s", run.elapsed());
    }
    if want("domain") {
        section_domain(&mut acc);
    }
    if want("poly") {
        section_poly(&mut acc);
        eprintln!("[C19] poly section done at {:.1}s", run.elapsed());
    }
    if want("batch_inv") {
        section_batch_inv(&mut acc);
    }
    if want("closed") {
        section_closed(tier, &mut acc);
        eprintln!("[C19] closed-form section done at {:.1}s", run.elapsed());
    }

    run.states = acc.shapes.len() as u64;
    run.transitions = acc.cases;
    run.traces_validated = acc.cases;
    run.evaluations = acc.cases;
    for h in &acc.hashes {
        run.nontrivial(*h);
    }
    for (k, v) in &acc.outcomes {
        run.outcome_n(k, *v);
    }
    for s in &acc.samples {
        run.sample(s.clone());
    }
    for m in &acc.machinery {
        run.machinery(m.clone());
    }
    if replay.is_some() {
        let mut hit = false;
        for f in &acc.fails {
            if Some(&f.sig) == target_sig.as_ref() {
                hit = true;
                println!("replay: signature {} reproduced: {}", f.sig, f.what);
                run.violation(&f.sig, &f.what, f.case.clone());
            }
        }
        if !hit {
            println!("replay: signature {:?} not reproduced", target_sig);
        }
        return run.finish();
    }
    for f in &acc.fails {
        run.violation(&f.sig, &f.what, f.case.clone());
    }
    // vacuity gates
    if let Some(st) = &fft_stats {
        run.gate("sizes >= 2^12 ran inside pools of >= 4 threads", st.big_par_runs > 0);
        run.gate("the 2^12 rho vector was compared with the full O(n^2) definition", st.full_definition_big.contains(&(1 << 12)));
        run.bound("fft_domain_sizes_log2", json!(st.sizes.iter().map(|n| n.trailing_zeros()).collect::<Vec<_>>()));
        run.bound("fft_full_definition_up_to_log2", json!(10));
        run.bound("fft_big_sizes_full_definition_for_rho_vector_log2", json!(st.full_definition_big.iter().map(|n| n.trailing_zeros()).collect::<Vec<_>>()));
        run.extra.insert("fft_runs_n_ge_2^12_threads_ge_4".into(), json!(st.big_par_runs));
    }
    for kn in KERNELS {
        run.gate(&format!(">=1 case for kernel {}", kn), acc.kernels.get(kn).copied().unwrap_or(0) > 0);
    }
    if let Some(st) = &fft_stats {
        run.bound("thread_counts", json!(st.threads));
    }
    run.bound(
        "fft_vector_families",
        json!(if tier == Tier::Quick { "zeros, e_0, e_1, e_last, ones, trailing zeros, rho for n <= 2^10; e_last, trailing zeros, rho (and the empty vector) for 2^12, 2^13" } else { "zeros, e_0, e_1, e_last, ones, trailing zeros, rho (and the empty vector) for every size" }),
    );
    run.bound("poly_small_vectors", json!(85));
    run.bound("batch_inversion_small_vectors", json!(341));
    run.bound("closed_form_sizes_log2", json!([0, 1, 2, 3, 4, 5, 6]));
    run.extra.insert("cases_per_kernel".into(), json!(acc.kernels));
    run.assumptions = vec![
        "M4 (Horner DFT, product-definition Lagrange basis, schoolbook arithmetic) is the statement of the definitions; dusk_bls12_381 field arithmetic, ROOT_OF_UNITY and GENERATOR are the trusted base".into(),
        "for domain sizes above 2^10 the reference is M4's own recursive radix-2 transform, validated against the Horner definition on every case <= 2^10, at 64 spread indices on every big case and at every index for the rho vector of the listed big sizes".into(),
        "'direct evaluation' of a coefficient vector longer than the domain means evaluating the full polynomial at the domain points; for ifft the literal inverse-DFT sum over all supplied evaluations".into(),
        "thread counts are real rayon pools; interleavings inside a pool are whatever the OS scheduler produced (E5 covers schedules)".into(),
    ];
    run.finish()
}
