//! C04 — a proof binds its statement: public inputs (values, order, length),
//! circuit description, label and protocol version.
//!
//! Oracle: `verify_with_version` accepts iff the verifier's serialized
//! description equals the one the proof was made for, the public-input vector
//! is identical and the version pair is one the reference verifier M2 accepts;
//! every other combination is an `Err` — never `Ok`, never a panic.

use std::collections::BTreeMap;
use std::panic::{catch_unwind, AssertUnwindSafe};
use std::sync::Arc;

use dusk_jubjub::JubJubExtended;
use dusk_plonk::prelude::*;
use dusk_plonk::verif::Snapshot;
use serde_json::{json, Value};

use crate::c03::{self, from_hex_bytes, m2_side, pv, real_side, to_hex, Circ, Side, VERSIONS};
use crate::ev::{Run, Tier};
use crate::fe::*;
use crate::m2::{self, VerifierData, Version};
use crate::prog::Prog;

pub const LABEL: &[u8; 8] = b"c04label";
pub const SELECTOR_NAMES: [&str; 11] = ["q_m", "q_l", "q_r", "q_o", "q_f", "q_c", "q_arith", "q_range", "q_logic", "q_fixed", "q_var"];
pub const WIRE_NAMES: [&str; 4] = ["a", "b", "c", "d"];

// ---------------------------------------------------------------------------
// Circuits as data: the user rows of a composer program
// ---------------------------------------------------------------------------

#[derive(Clone, Debug)]
pub struct SRow {
    pub q: [Fe; 11],
    /// absolute witness indices
    pub w: [usize; 4],
    pub pi: Option<Fe>,
}

#[derive(Clone, Debug)]
pub struct Spec {
    /// witnesses / rows every initialized composer starts with
    pub base_w: usize,
    pub base_rows: usize,
    /// values of the witnesses with index >= base_w
    pub wit: Vec<Fe>,
    /// all witness values (including the initial ones)
    pub all_wit: Vec<Fe>,
    pub rows: Vec<SRow>,
}

impl Spec {
    pub fn from_snapshot(s: &Snapshot) -> Spec {
        let base = Composer::initialized().verif_snapshot();
        let (base_w, base_rows) = (base.witnesses.len(), base.gates.len());
        let pis: BTreeMap<usize, Fe> = s.public_inputs.iter().cloned().collect();
        let rows = s.gates.iter().enumerate().skip(base_rows).map(|(i, g)| SRow { q: g.q, w: g.w, pi: pis.get(&i).copied() }).collect();
        Spec { base_w, base_rows, wit: s.witnesses[base_w..].to_vec(), all_wit: s.witnesses.clone(), rows }
    }
    pub fn prog(&self) -> Prog {
        let sp = self.clone();
        Prog::new(move |c| {
            for v in &sp.wit {
                c.append_witness(*v);
            }
            for r in &sp.rows {
                let w = [c.verif_witness(r.w[0]), c.verif_witness(r.w[1]), c.verif_witness(r.w[2]), c.verif_witness(r.w[3])];
                c.verif_raw_gate(r.q, r.pi, w);
            }
            Ok(())
        })
    }
    /// public-input vector in row order
    pub fn pis(&self) -> Vec<Fe> {
        self.rows.iter().filter_map(|r| r.pi).collect()
    }
}

/// Apply a near-miss descriptor (JSON) to a (spec, label); `None` when the
/// descriptor does not apply.
pub fn apply_variant(spec: &Spec, label: &[u8], v: &Value) -> Option<(Spec, Vec<u8>)> {
    let mut s = spec.clone();
    let mut l = label.to_vec();
    let row = v["row"].as_u64().unwrap_or(0) as usize;
    let k = v["k"].as_u64().unwrap_or(0) as usize;
    match v["kind"].as_str()? {
        "none" => {}
        "selector" => s.rows.get_mut(row)?.q[k] += one(),
        "selector-negated" => {
            let q = &mut s.rows.get_mut(row)?.q[k];
            if *q == zero() {
                return None;
            }
            *q = -*q;
        }
        "wire" | "wire-samevalue" => {
            let to = v["to"].as_u64()? as usize;
            if to >= s.all_wit.len() || s.rows.get(row)?.w[k] == to {
                return None;
            }
            s.rows[row].w[k] = to;
        }
        "pi-added" => {
            let r = s.rows.get_mut(row)?;
            if r.pi.is_some() {
                return None;
            }
            r.pi = Some(zero());
        }
        "pi-removed" => {
            let r = s.rows.get_mut(row)?;
            r.pi?;
            r.pi = None;
        }
        "pi-moved" => {
            let to = v["to"].as_u64()? as usize;
            if to >= s.rows.len() || s.rows[to].pi.is_some() {
                return None;
            }
            let val = s.rows.get(row)?.pi?;
            s.rows[row].pi = None;
            s.rows[to].pi = Some(val);
        }
        "row-added-zero" => s.rows.push(SRow { q: [zero(); 11], w: [0; 4], pi: None }),
        "row-added-dup" => {
            let mut last = s.rows.last()?.clone();
            last.pi = None;
            s.rows.push(last);
        }
        "row-dropped" => {
            s.rows.pop()?;
        }
        "label" => l = from_hex_bytes(v["label_hex"].as_str()?),
        _ => return None,
    }
    Some((s, l))
}

/// All near-miss descriptors for a spec: exactly one thing differs.
pub fn near_misses(spec: &Spec, tier: Tier) -> Vec<Value> {
    let mut out = vec![json!({"kind": "none"})];
    let nw = spec.all_wit.len();
    for (r, row) in spec.rows.iter().enumerate() {
        for k in 0..11 {
            out.push(json!({"kind": "selector", "row": r, "k": k, "name": SELECTOR_NAMES[k]}));
            if tier == Tier::Thorough && row.q[k] != zero() && row.q[k] + row.q[k] != zero() {
                out.push(json!({"kind": "selector-negated", "row": r, "k": k, "name": SELECTOR_NAMES[k]}));
            }
        }
        for k in 0..4 {
            // quick: the next witness index; thorough: every other witness index
            let targets: Vec<usize> = match tier {
                Tier::Quick => vec![(row.w[k] + 1) % nw],
                Tier::Thorough => (0..nw).filter(|j| *j != row.w[k]).collect(),
            };
            for to in targets {
                out.push(json!({"kind": "wire", "row": r, "k": k, "to": to, "name": WIRE_NAMES[k]}));
            }
            // another witness index holding the same VALUE: only the permutation changes
            if let Some(to) = (0..nw).find(|j| *j != row.w[k] && spec.all_wit[*j] == spec.all_wit[row.w[k]]) {
                out.push(json!({"kind": "wire-samevalue", "row": r, "k": k, "to": to, "name": WIRE_NAMES[k]}));
            }
        }
        if row.pi.is_none() {
            out.push(json!({"kind": "pi-added", "row": r}));
        } else {
            out.push(json!({"kind": "pi-removed", "row": r}));
            for to in [r.wrapping_sub(1), r + 1] {
                if to < spec.rows.len() && spec.rows[to].pi.is_none() {
                    out.push(json!({"kind": "pi-moved", "row": r, "to": to}));
                }
            }
        }
    }
    out.push(json!({"kind": "row-added-zero"}));
    out.push(json!({"kind": "row-added-dup"}));
    out.push(json!({"kind": "row-dropped"}));
    out
}

pub fn label_edits() -> Vec<Value> {
    let mut out = Vec::new();
    for bit in 0..64 {
        let mut l = LABEL.to_vec();
        l[bit / 8] ^= 1 << (bit % 8);
        out.push(json!({"kind": "label", "edit": "bit-flip", "label_hex": to_hex(&l)}));
    }
    out.push(json!({"kind": "label", "edit": "empty", "label_hex": ""}));
    out.push(json!({"kind": "label", "edit": "7-bytes", "label_hex": to_hex(&LABEL[..7])}));
    out.push(json!({"kind": "label", "edit": "7-bytes-tail", "label_hex": to_hex(&LABEL[1..])}));
    let mut l = LABEL.to_vec();
    l.push(b'x');
    out.push(json!({"kind": "label", "edit": "9-bytes", "label_hex": to_hex(&l)}));
    let mut l = LABEL.to_vec();
    l.push(0);
    out.push(json!({"kind": "label", "edit": "trailing-nul", "label_hex": to_hex(&l)}));
    out
}

// ---------------------------------------------------------------------------
// Circuits
// ---------------------------------------------------------------------------

pub fn circuit_progs() -> Vec<(&'static str, Prog)> {
    let mut v: Vec<(&'static str, Prog)> = Vec::new();
    // two adjacent public-input rows, the second zero-valued
    v.push((
        "pi2-adjacent-zero",
        Prog::new(|c| {
            let a = c.append_public(fe(9));
            let z = c.append_public(fe(0));
            let s = c.gate_add(Constraint::new().left(1).right(1).a(a).b(z));
            c.assert_equal(s, a);
            Ok(())
        }),
    ));
    // four public inputs: value, (0, 1) of a public point on adjacent rows, a product; a range gadget in between
    v.push((
        "pi4-range-point",
        Prog::new(|c| {
            let a = c.append_public(fe(37));
            c.component_range_bits::<6>(a);
            let p = c.append_public_point(JubJubExtended::identity())?;
            let m = c.gate_mul(Constraint::new().mult(1).a(a).b(*p.y()));
            c.assert_equal_constant(m, fe(0), Some(fe(37)));
            Ok(())
        }),
    ));
    // no public-input row at all: the only valid vector is the empty one
    v.push((
        "pi0",
        Prog::new(|c| {
            let a = c.append_witness(fe(3));
            let b = c.append_witness(fe(5));
            let m = c.gate_mul(Constraint::new().mult(1).a(a).b(b));
            c.assert_equal_constant(m, fe(15), None);
            Ok(())
        }),
    ));
    // one public input
    v.push((
        "pi1",
        Prog::new(|c| {
            let a = c.append_witness(fe(3));
            let b = c.append_witness(fe(5));
            let m = c.gate_mul(Constraint::new().mult(1).a(a).b(b));
            c.assert_equal_constant(m, fe(0), Some(fe(15)));
            Ok(())
        }),
    ));
    // three public inputs, two of them equal, with a gap
    v.push((
        "pi3-equal",
        Prog::new(|c| {
            let a = c.append_public(fe(7));
            let b = c.append_witness(fe(4));
            let m = c.gate_mul(Constraint::new().mult(1).a(a).b(b));
            let d = c.append_public(fe(7));
            c.assert_equal(a, d);
            let e = c.append_public(fe(2));
            let s = c.gate_add(Constraint::new().left(1).right(1).a(m).b(e));
            c.assert_equal_constant(s, fe(30), None);
            Ok(())
        }),
    ));
    // a single zero-valued public input
    v.push((
        "pi1-zero",
        Prog::new(|c| {
            let a = c.append_witness(fe(6));
            let d = c.gate_add(Constraint::new().left(1).right(neg1()).a(a).b(a));
            c.assert_equal_constant(d, fe(0), Some(fe(0)));
            Ok(())
        }),
    ));
    // four distinct public inputs on adjacent rows around one raw XOR row
    // (the public logic gadget is ~170 rows, which would make ~3800 near-miss compiles)
    v.push((
        "pi4-logic",
        Prog::new(|c| {
            use crate::m1::{QARITH, QC, QF, QL, QLOGIC, QR};
            let (qa, qb) = (3u64, 1u64);
            let w = c.append_witness(fe(qa * qb));
            let an = c.append_witness(fe(qa));
            let bn = c.append_witness(fe(qb));
            let dn = c.append_witness(fe(qa ^ qb));
            let z = Composer::ZERO;
            let mut q = [zero(); 11];
            q[QLOGIC] = neg1();
            q[QC] = neg1();
            c.verif_raw_gate(q, None, [z, z, w, z]);
            let mut q2 = [zero(); 11];
            q2[QARITH] = one();
            q2[QL] = one();
            q2[QR] = one();
            q2[QF] = one();
            c.verif_raw_gate(q2, Some(-fe(qa + qb + (qa ^ qb))), [an, bn, z, dn]);
            c.assert_equal_constant(an, fe(0), Some(fe(qa)));
            c.assert_equal_constant(bn, fe(0), Some(fe(qb)));
            c.assert_equal_constant(dn, fe(0), Some(fe(qa ^ qb)));
            Ok(())
        }),
    ));
    v
}

pub fn circuit_names(tier: Tier) -> Vec<&'static str> {
    match tier {
        Tier::Quick => vec!["pi2-adjacent-zero", "pi4-range-point", "pi0"],
        Tier::Thorough => vec!["pi2-adjacent-zero", "pi4-range-point", "pi0", "pi1", "pi3-equal", "pi1-zero", "pi4-logic"],
    }
}

// ---------------------------------------------------------------------------
// Cases
// ---------------------------------------------------------------------------

pub struct Variant {
    pub desc: Value,
    pub verifier: Arc<Verifier>,
    pub vd: VerifierData,
    pub vhash: u64,
    /// serialized description equals the original verifier's
    pub same: bool,
    /// the variant's own public-input vector
    pub pis: Vec<Fe>,
}

#[derive(Clone, Copy, Debug, PartialEq, Eq)]
pub enum Expect {
    Accept,
    Reject,
    /// whatever the reference verifier decides (version pairs)
    M2,
}

pub struct Case {
    pub circ: usize,
    /// index into the circuit's variant list (0 = the original verifier)
    pub variant: usize,
    pub ver: Version,
    /// version the presented proof was made for
    pub proof_ver: Version,
    pub pis: Vec<Fe>,
    pub expect: Expect,
    pub class: String,
    pub what: String,
}

pub struct Subject {
    pub circ: Circ,
    pub spec: Spec,
    pub variants: Vec<Variant>,
    /// honest proofs by version
    pub proofs: BTreeMap<&'static str, Vec<u8>>,
    pub pis: Vec<Fe>,
    /// why there is no V1 proof, if there is none
    pub v1_note: Option<String>,
}

fn permutations(n: usize) -> Vec<Vec<usize>> {
    fn rec(cur: &mut Vec<usize>, used: &mut Vec<bool>, n: usize, out: &mut Vec<Vec<usize>>) {
        if cur.len() == n {
            out.push(cur.clone());
            return;
        }
        for i in 0..n {
            if !used[i] {
                used[i] = true;
                cur.push(i);
                rec(cur, used, n, out);
                cur.pop();
                used[i] = false;
            }
        }
    }
    let mut out = Vec::new();
    rec(&mut Vec::new(), &mut vec![false; n], n, &mut out);
    out
}

pub fn build_variant(spec: &Spec, desc: &Value, orig_bytes: &[u8]) -> Result<Option<Variant>, String> {
    let Some((s, label)) = apply_variant(spec, LABEL, desc) else { return Ok(None) };
    let prog = s.prog();
    let snap = prog.run().map_err(|e| format!("variant {} does not build: {:?}", desc, e))?;
    let pp = crate::setup::pp(c03::trim_size(snap.gates.len()).max(64));
    let (_, verifier) = Compiler::compile_with_circuit(&pp, &label, &prog).map_err(|e| format!("variant {} does not compile: {:?}", desc, e))?;
    let vb = verifier.to_bytes();
    let vd = m2::parse_verifier(&vb).map_err(|e| format!("variant {}: M2 cannot parse the verifier: {}", desc, e))?;
    Ok(Some(Variant { desc: desc.clone(), verifier: Arc::new(verifier), vd, vhash: fnv(&vb), same: vb == orig_bytes, pis: s.pis() }))
}

pub fn build_subject(name: &str, prog: &Prog, tier: Tier) -> Result<Subject, String> {
    let circ = c03::compile(name, prog, LABEL)?;
    let spec = Spec::from_snapshot(&circ.snap);
    let mut proofs = BTreeMap::new();
    let (b3, p3) = c03::prove_real(&circ, Version::V3, 0)?;
    let (b2, p2) = c03::prove_real(&circ, Version::V2, 0)?;
    if p2 != p3 || p3 != spec.pis() {
        return Err(format!("{}: public-input vectors of the prover and of the row description differ", name));
    }
    // a failed derivation (M2's challenges are not the prover's) leaves the V1 proof out
    let v1_note = match c03::derive_v1(&circ, &b2, &p2) {
        Ok(b1) => {
            proofs.insert("V1", b1);
            None
        }
        Err(e) => Some(format!("{}: legacy (V1) proof derivation failed: {}", name, e)),
    };
    proofs.insert("V3", b3);
    proofs.insert("V2", b2);
    let mut descs = near_misses(&spec, tier);
    descs.extend(label_edits());
    let built = crate::par::par_map(&descs, |d| build_variant(&spec, d, &circ.vbytes));
    let mut variants = Vec::new();
    for (d, b) in descs.iter().zip(built) {
        match b {
            Err(p) => return Err(format!("{}: harness panic building variant {}: {}", name, d, p)),
            Ok(Err(e)) => return Err(format!("{}: {}", name, e)),
            Ok(Ok(None)) => {}
            Ok(Ok(Some(v))) => variants.push(v),
        }
    }
    if variants.is_empty() || variants[0].desc["kind"] != "none" {
        return Err(format!("{}: the rebuilt original is missing", name));
    }
    Ok(Subject { circ, spec, variants, proofs, pis: p3, v1_note })
}

pub fn enumerate(subjects: &[Subject], tier: Tier) -> Vec<Case> {
    let mut out: Vec<Case> = Vec::new();
    let alpha = alphabet_fs(seed());
    for (ci, s) in subjects.iter().enumerate() {
        let orig = &s.pis;
        let mk = |variant: usize, ver: Version, proof_ver: Version, pis: Vec<Fe>, expect: Expect, class: &str, what: String| Case { circ: ci, variant, ver, proof_ver, pis, expect, class: class.to_string(), what };
        for ver in VERSIONS {
            // baseline
            out.push(mk(0, ver, ver, orig.clone(), Expect::Accept, "baseline", "unchanged".into()));
            // public-input vector edits, against the original verifier
            let mut edits: Vec<(String, Vec<Fe>)> = Vec::new();
            for i in 0..orig.len() {
                for (ai, a) in alpha.iter().enumerate() {
                    let mut p = orig.clone();
                    p[i] = *a;
                    edits.push((format!("value/alt{}", ai), p));
                }
            }
            for perm in permutations(orig.len()) {
                edits.push(("permutation".into(), perm.iter().map(|i| orig[*i]).collect()));
            }
            if !orig.is_empty() {
                edits.push(("drop-first".into(), orig[1..].to_vec()));
                edits.push(("drop-last".into(), orig[..orig.len() - 1].to_vec()));
                let mut p = orig.clone();
                p.push(*orig.last().unwrap());
                edits.push(("duplicate-last".into(), p));
                edits.push(("empty".into(), vec![]));
            }
            let mut p = orig.clone();
            p.push(zero());
            edits.push(("append-zero".into(), p));
            let mut p = orig.clone();
            p.insert(0, zero());
            edits.push(("prepend-zero".into(), p));
            for (nm, p) in edits {
                let e = if p == *orig { Expect::Accept } else { Expect::Reject };
                out.push(mk(0, ver, ver, p, e, "pi-edit", nm));
            }
            // near-miss verifiers and label edits: the original proof with the original vector,
            // and with the variant's own vector when that differs
            if ver != Version::V1 || tier == Tier::Thorough {
                for (vi, v) in s.variants.iter().enumerate() {
                    let kind = v.desc["kind"].as_str().unwrap_or("?");
                    let (class, what) = if kind == "label" {
                        ("label", v.desc["edit"].as_str().unwrap_or("?").to_string())
                    } else {
                        ("nearmiss", match v.desc["name"].as_str() {
                            Some(n) => format!("{}-{}", kind, n),
                            // a moved / removed public input: zero-valued or not
                            None if kind == "pi-moved" || kind == "pi-removed" => {
                                let row = v.desc["row"].as_u64().unwrap_or(0) as usize;
                                let z = s.spec.rows.get(row).and_then(|r| r.pi).map(|p| p == zero()).unwrap_or(false);
                                format!("{}-{}", kind, if z { "zero" } else { "nonzero" })
                            }
                            None => kind.to_string(),
                        })
                    };
                    let e = if v.same { Expect::Accept } else { Expect::Reject };
                    out.push(mk(vi, ver, ver, orig.clone(), e, class, what.clone()));
                    if v.pis != *orig {
                        out.push(mk(vi, ver, ver, v.pis.clone(), Expect::Reject, class, format!("{}+adapted-pi", what)));
                    }
                }
            }
            // version pairs: decided by the reference verifier
            for proof_ver in VERSIONS {
                out.push(mk(0, ver, proof_ver, orig.clone(), Expect::M2, "version", format!("proof={}/verify={}", proof_ver.name(), ver.name())));
            }
        }
    }
    out.retain(|c| subjects[c.circ].proofs.contains_key(c.proof_ver.name()));
    out
}

pub struct Outcome {
    pub real: Side,
    pub expected_accept: bool,
    pub m2: Option<Side>,
    pub hash: u64,
}

pub fn evaluate(c: &Case, subjects: &[Subject]) -> Outcome {
    let s = &subjects[c.circ];
    let v = &s.variants[c.variant];
    let bytes = &s.proofs[c.proof_ver.name()];
    // variant 0 is the rebuilt original; use the verifier the proofs were made with for it
    let real = if c.variant == 0 { real_side(&s.circ.verifier, bytes, &c.pis, c.ver) } else { real_side(&v.verifier, bytes, &c.pis, c.ver) };
    let (m2s, expected_accept) = match c.expect {
        Expect::Accept => (None, true),
        Expect::Reject => (None, false),
        Expect::M2 => {
            let m = m2_side(&v.vd, bytes, &c.pis, c.ver);
            let a = m.accepts();
            (Some(m), a)
        }
    };
    let mut h = fnv(bytes);
    h = (h ^ v.vhash).wrapping_mul(0x100000001b3);
    h = (h ^ c.ver as u64).wrapping_mul(0x100000001b3);
    for p in &c.pis {
        h = fnv_fe(h, p);
    }
    Outcome { real, expected_accept, m2: m2s, hash: h }
}

fn case_json(c: &Case, subjects: &[Subject]) -> Value {
    let s = &subjects[c.circ];
    json!({
        "circuit": s.circ.name,
        "variant": s.variants[c.variant].desc,
        "version": c.ver.name(),
        "proof_version": c.proof_ver.name(),
        "proof_hex": to_hex(&s.proofs[c.proof_ver.name()]),
        "pis": c.pis.iter().map(hex).collect::<Vec<_>>(),
        "original_pis": s.pis.iter().map(hex).collect::<Vec<_>>(),
        "class": c.class,
        "what": c.what,
        "expected": format!("{:?}", c.expect),
    })
}

fn parse_ver(s: &str) -> Version {
    match s {
        "V1" => Version::V1,
        "V2" => Version::V2,
        _ => Version::V3,
    }
}


/// Label families: base labels of many lengths (below, at and above every
/// plausible block / prefix size) and, for each, labels that differ from it in
/// one byte at the front, in the middle, around byte 32, at the end, or in
/// length. A proof made under the base label must be rejected by a verifier
/// compiled (later, in the same process) under any sibling label, and the
/// sibling's own honest proof must be accepted by it and rejected by the base
/// verifier.
fn label_families(run: &mut Run, tier: Tier) {
    let pp = crate::setup::pp(64);
    let prog = Prog::new(|c| {
        let a = c.append_witness(fe(6));
        let b = c.append_witness(fe(7));
        let o = c.gate_mul(Constraint::new().mult(1).a(a).b(b));
        let p = c.append_public(fe(42));
        c.assert_equal(o, p);
        Ok(())
    });
    let lens: Vec<usize> = tier.pick(vec![1, 8, 32, 33, 40, 64, 100], vec![1, 2, 7, 8, 9, 16, 31, 32, 33, 34, 40, 63, 64, 65, 100, 255, 256, 300]);
    let prove = |p: &Prover, stream: u64| -> Option<(Proof, Vec<Fe>)> {
        let mut rng = crate::rng::ScriptedRng::base(seed(), stream);
        p.prove(&mut rng, &prog).ok()
    };
    for len in lens {
        let base: Vec<u8> = (0..len).map(|i| b"dusk-network/plonk/circuit/label-family/"[i % 40] ^ ((i / 40) as u8)).collect();
        let Ok((pa, va)) = Compiler::compile_with_circuit(&pp, &base, &prog) else {
            run.machinery(format!("label family {}: base compile failed", len));
            continue;
        };
        let Some((proof_a, pis_a)) = prove(&pa, 70) else {
            run.machinery(format!("label family {}: base proof failed", len));
            continue;
        };
        run.transitions += 1;
        if va.verify(&proof_a, &pis_a).is_err() {
            run.violation("label-family/base-rejected", &format!("honest proof under a {}-byte label rejected by its own verifier", len), json!({"name": "label-family", "len": len}));
            continue;
        }
        let mut siblings: Vec<(String, Vec<u8>)> = vec![];
        let mut positions: Vec<usize> = vec![0, len / 2, len.saturating_sub(1)];
        for p in [7usize, 8, 15, 16, 31, 32, 33, 63, 64] {
            if p < len {
                positions.push(p);
            }
        }
        positions.sort();
        positions.dedup();
        for p in positions {
            let mut l = base.clone();
            l[p] ^= 0x01;
            siblings.push((format!("byte{}^1", p), l.clone()));
            let mut l2 = base.clone();
            l2[p] ^= 0x80;
            siblings.push((format!("byte{}^80", p), l2));
        }
        let mut l = base.clone();
        l.push(0);
        siblings.push(("append-nul".into(), l));
        let mut l = base.clone();
        l.push(base[len - 1]);
        siblings.push(("append-dup".into(), l));
        if len > 1 {
            siblings.push(("drop-last".into(), base[..len - 1].to_vec()));
            siblings.push(("drop-first".into(), base[1..].to_vec()));
            let mut l = base.clone();
            l.swap(0, len - 1);
            if l != base {
                siblings.push(("swap-ends".into(), l));
            }
        }
        for (nm, lab) in siblings {
            run.transitions += 2;
            run.evaluations += 1;
            run.traces_validated += 2;
            run.nontrivial(fnv(&lab) ^ len as u64);
            let case = json!({"name": "label-family", "base_len": len, "sibling": nm, "base_hex": to_hex(&base), "sibling_hex": to_hex(&lab)});
            let Ok((pb, vb)) = Compiler::compile_with_circuit(&pp, &lab, &prog) else {
                run.violation("label-family/sibling-compile-failed", &format!("{}-byte base, sibling {}", len, nm), case);
                continue;
            };
            let class = if len <= 32 { "len<=32" } else { "len>32" };
            if vb.verify(&proof_a, &pis_a).is_ok() {
                run.violation(&format!("label-family/{}/foreign-proof-accepted", class), &format!("a proof made under a {}-byte label is accepted by a verifier compiled under the sibling label ({})", len, nm), case.clone());
            } else {
                run.outcome("label-family:foreign-proof-rejected");
            }
            match prove(&pb, 71) {
                None => run.violation(&format!("label-family/{}/sibling-proof-failed", class), &format!("{} {}", len, nm), case),
                Some((proof_b, pis_b)) => {
                    if vb.verify(&proof_b, &pis_b).is_err() {
                        run.violation(&format!("label-family/{}/own-proof-rejected", class), &format!("sibling {} of the {}-byte label rejects its own honest proof", nm, len), case);
                    } else if va.verify(&proof_b, &pis_b).is_ok() {
                        run.violation(&format!("label-family/{}/foreign-proof-accepted", class), &format!("the base verifier ({}-byte label) accepts a proof made under the sibling label ({})", len, nm), case);
                    } else {
                        run.outcome("label-family:sibling-consistent");
                    }
                }
            }
        }
    }
    run.gate("label families explored", run.count("label-family:foreign-proof-rejected") > 50);
}

pub fn main(tier: Tier, replay: Option<Value>) -> i32 {
    let mut run = Run::new("C04", tier, "model_checking");
    run.rule = "cases = (verifier, version, proof, public-input vector): for each circuit an honest proof per version (V2, V3 by the real prover, V1 derived) is presented (1) to its own verifier with every public-input position x every F_s value, every permutation, truncations / extensions; (2) to every near-miss verifier compiled from the circuit's row description with exactly one change (each user row x 11 selectors +1, each wire re-pointed to another witness / to another witness of equal value, a public-input row added / removed / moved, a row appended / dropped) with the original and the variant's own vector; (3) to verifiers compiled under every single-bit flip and length edit of the 8-byte label; (4) under every ordered (proof version, verify version) pair, decided by M2. Expected accept iff Verifier::to_bytes() is byte-identical, the vector is identical, and (version pairs) M2 accepts; non-trivial = distinct (verifier bytes, version, proof, vector) executed on the real verifier".into();
    if let Err(e) = m2::selfcheck() {
        run.machinery(format!("M2 self-check: {}", e));
        return run.finish();
    }
    let progs = circuit_progs();
    let names = if replay.is_some() { circuit_names(Tier::Thorough) } else { circuit_names(tier) };

    if let Some(r) = replay {
        run.set_replay_mode();
        let case = &r["case"];
        let cname = case["circuit"].as_str().unwrap_or("");
        let Some((_, prog)) = progs.iter().find(|(n, _)| *n == cname) else {
            run.machinery(format!("replay: unknown circuit {}", cname));
            return run.finish();
        };
        let circ = match c03::compile(cname, prog, LABEL) {
            Ok(c) => c,
            Err(e) => {
                run.machinery(e);
                return run.finish();
            }
        };
        let spec = Spec::from_snapshot(&circ.snap);
        let v = match build_variant(&spec, &case["variant"], &circ.vbytes) {
            Ok(Some(v)) => v,
            other => {
                run.machinery(format!("replay: variant cannot be rebuilt: {:?}", other.err()));
                return run.finish();
            }
        };
        let ver = parse_ver(case["version"].as_str().unwrap_or(""));
        let bytes = from_hex_bytes(case["proof_hex"].as_str().unwrap_or(""));
        let pis: Vec<Fe> = case["pis"].as_array().map(|a| a.iter().map(|x| from_hex(x.as_str().unwrap_or("0"))).collect()).unwrap_or_default();
        let orig: Vec<Fe> = case["original_pis"].as_array().map(|a| a.iter().map(|x| from_hex(x.as_str().unwrap_or("0"))).collect()).unwrap_or_default();
        let r1 = real_side(&v.verifier, &bytes, &pis, ver);
        let r2 = real_side(&v.verifier, &bytes, &pis, ver);
        if r1 != r2 {
            run.machinery("replay diverged between two executions".into());
        }
        let m = m2_side(&v.vd, &bytes, &pis, ver);
        let expected = match case["expected"].as_str().unwrap_or("") {
            "M2" => m.accepts(),
            _ => v.same && pis == orig && case["proof_version"] == case["version"],
        };
        println!("replay {} {}: real={:?} m2={:?} expected_accept={} same_description={}", cname, ver.name(), r1, m, expected, v.same);
        if r1.accepts() != expected || matches!(r1, Side::Panic(_)) {
            run.violation("replay", "the real verifier still deviates from the binding predicate", case.clone());
        }
        return run.finish();
    }

    // V1 proving must be refused
    let mut subjects = Vec::new();
    for n in &names {
        let (_, p) = progs.iter().find(|(k, _)| k == n).expect("circuit exists");
        match build_subject(n, p, tier) {
            Ok(s) => subjects.push(s),
            Err(e) => {
                run.machinery(e);
                return run.finish();
            }
        }
    }
    for s in &subjects {
        let mut rng = crate::rng::ScriptedRng::base(seed(), 400);
        let prog = s.circ.prog.clone();
        let r = catch_unwind(AssertUnwindSafe(|| s.circ.prover.prove_with_version(&mut rng, &prog, pv(Version::V1))));
        run.transitions += 1;
        run.traces_validated += 1;
        match r {
            Ok(Err(Error::UnsupportedProvingVersion)) => run.outcome("prove-v1:unsupported"),
            Ok(Err(e)) => {
                run.outcome("prove-v1:other-error");
                run.violation("prove-v1/other-error", &format!("prove_with_version(V1) returned {:?} instead of UnsupportedProvingVersion", e), json!({"circuit": s.circ.name}));
            }
            Ok(Ok(_)) => {
                run.outcome("prove-v1:proof");
                run.violation("prove-v1/produced-a-proof", "prove_with_version(V1) produced a proof", json!({"circuit": s.circ.name}));
            }
            Err(e) => {
                run.outcome("prove-v1:panic");
                run.violation("prove-v1/panic", &format!("prove_with_version(V1) panicked: {}", crate::par::panic_msg(e)), json!({"circuit": s.circ.name}));
            }
        }
    }

    let cases = enumerate(&subjects, tier);
    run.bound(
        "circuits",
        json!(subjects.iter().map(|s| json!({"name": s.circ.name, "constraints": s.circ.vd.constraints, "public_input_rows": s.circ.vd.pi_rows, "public_inputs": s.pis.iter().map(hex).collect::<Vec<_>>(), "variants": s.variants.len()})).collect::<Vec<_>>()),
    );
    run.bound("cases", json!(cases.len()));
    run.bound("alphabet_fs", json!(alphabet_fs(seed()).len()));
    let outs = crate::par::par_map(&cases, |c| evaluate(c, &subjects));

    let mut distinct_verifiers = std::collections::HashSet::new();
    let mut accepted = BTreeMap::<(usize, &'static str), u64>::new();
    let mut differing_kinds = BTreeMap::<String, u64>::new();
    let mut same_kinds = BTreeMap::<String, u64>::new();
    let mut identical_edit_accepts = 0u64;
    for (c, o) in cases.iter().zip(outs) {
        run.transitions += 1;
        run.evaluations += 1;
        let o = match o {
            Ok(o) => o,
            Err(p) => {
                run.machinery(format!("harness panic on {}/{}: {}", c.class, c.what, p));
                continue;
            }
        };
        run.traces_validated += 1;
        let s = &subjects[c.circ];
        let v = &s.variants[c.variant];
        distinct_verifiers.insert((v.vhash, c.ver));
        run.nontrivial(o.hash);
        run.outcome(&format!("{}:real-{}/expected-{}", c.class, o.real.name(), if o.expected_accept { "accept" } else { "reject" }));
        if c.class == "baseline" && o.real.accepts() {
            *accepted.entry((c.circ, c.ver.name())).or_insert(0) += 1;
        }
        if c.class == "pi-edit" && o.expected_accept && o.real.accepts() {
            identical_edit_accepts += 1;
        }
        if c.class == "nearmiss" || c.class == "label" {
            let kind = format!("{}/{}", c.class, v.desc["kind"].as_str().unwrap_or("?"));
            *(if v.same { &mut same_kinds } else { &mut differing_kinds }).entry(kind).or_insert(0) += 1;
        }
        if run.transitions % 499 == 1 {
            run.sample(json!({"circuit": s.circ.name, "class": c.class, "what": c.what, "version": c.ver.name(), "real": o.real.name(), "expected_accept": o.expected_accept}));
        }
        // coarse, stable signature: strip per-position detail
        let what = c.what.split("/alt").next().unwrap_or("").to_string();
        if let Side::Panic(msg) = &o.real {
            run.violation(&format!("panic/{}/{}/ver={}", c.class, what, c.ver.name()), &format!("verify_with_version panicked: {}", msg), case_json(c, &subjects));
            continue;
        }
        if o.real.accepts() != o.expected_accept {
            let exp = match c.expect {
                Expect::M2 => format!("m2={}", o.m2.as_ref().map(|m| m.name()).unwrap_or("?")),
                _ => format!("expected={}", if o.expected_accept { "accept" } else { "reject" }),
            };
            run.violation(
                &format!("{}/{}/real={}/{}/ver={}", c.class, what, o.real.name(), exp, c.ver.name()),
                &format!("circuit {}: {} {}: the real verifier says {} but the binding predicate says {}", s.circ.name, c.class, c.what, o.real.name(), if o.expected_accept { "accept" } else { "reject" }),
                case_json(c, &subjects),
            );
        }
    }
    run.states = distinct_verifiers.len() as u64;
    let notes: Vec<String> = subjects.iter().filter_map(|s| s.v1_note.clone()).collect();
    if !notes.is_empty() {
        run.extra.insert("v1_derivation_failures".into(), json!(notes));
        if run.violations + run.known == 0 {
            run.machinery(format!("V1 proof derivation failed without any reported violation: {}", notes[0]));
        }
    }
    for (ci, s) in subjects.iter().enumerate() {
        for ver in VERSIONS {
            if !s.proofs.contains_key(ver.name()) {
                continue;
            }
            run.gate(&format!("honest proof of {} accepted under {}", s.circ.name, ver.name()), accepted.get(&(ci, ver.name())).copied().unwrap_or(0) > 0);
        }
        run.gate(&format!("{}: the verifier rebuilt from the row description is byte-identical", s.circ.name), s.variants[0].same);
    }
    for kind in ["nearmiss/selector", "nearmiss/wire", "nearmiss/pi-added", "nearmiss/pi-removed", "nearmiss/pi-moved", "nearmiss/row-added-zero", "nearmiss/row-added-dup", "nearmiss/row-dropped", "label/label"] {
        run.gate(&format!(">=1 {} variant with a different serialized verifier", kind), differing_kinds.get(kind).copied().unwrap_or(0) > 0);
    }
    run.gate(">=1 same-description verifier accepted (rebuilt original)", same_kinds.values().sum::<u64>() > 0);
    run.gate(">=1 public-input edit that leaves the vector identical (accept expected and observed)", identical_edit_accepts > 0);
    run.extra.insert("variant_cases_with_different_description".into(), json!(differing_kinds));
    run.extra.insert("variant_cases_with_same_description".into(), json!(same_kinds));
    run.assumptions = vec![
        "'same circuit description' is decided by byte equality of Verifier::to_bytes()".into(),
        "expected verdict of (proof version, verify version) pairs is M2's verdict (C03 binds M2 to the code)".into(),
        "V1 proofs are derived by the harness from V2 proofs (the crate refuses to prove under V1)".into(),
        "alternative public-input values come from the 12-element alphabet F_s, not the whole field".into(),
    ];
    label_families(&mut run, tier);
    run.finish()
}
