//! m5 — reference model (to be written)
