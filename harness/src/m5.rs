//! M5 — integer / group specifications of the gadgets (DESIGN §3).
//! Integers are U320 (own code); the JubJub group law is stated through the
//! affine twisted-Edwards formulas over BlsScalar (own code), cross-checked
//! against dusk-jubjub where that is convenient.

use crate::fe::*;
use crate::m1::edwards_d;
use ff::Field;

/// canonical value of v is below 2^w
pub fn in_range(v: &Fe, w: usize) -> bool {
    if w >= 256 {
        return true;
    }
    U320::from_fe(v).lt(&U320::pow2(w))
}

/// canonical(v) mod 2^n as a field element
pub fn low_bits(v: &Fe, n: usize) -> Fe {
    U320::from_fe(v).low(n).to_fe()
}

pub fn logic(a: &Fe, b: &Fe, bits: usize, xor: bool) -> Fe {
    let x = U320::from_fe(a).low(bits);
    let y = U320::from_fe(b).low(bits);
    if xor {
        x.xor(&y).to_fe()
    } else {
        x.and(&y).to_fe()
    }
}

/// little-endian bits of an integer
pub fn bits_le(v: &U320, n: usize) -> Vec<Fe> {
    (0..n).map(|i| fe(v.bit(i) as u64)).collect()
}

/// all integer representatives x + k*r (k = 0,1,2,...) below 2^n
pub fn representatives(v: &Fe, n: usize) -> Vec<U320> {
    let mut out = vec![];
    let r = U320::modulus();
    let mut cur = U320::from_fe(v);
    let lim = if n >= 319 { None } else { Some(U320::pow2(n)) };
    for _ in 0..6 {
        match &lim {
            Some(l) if !cur.lt(l) => break,
            _ => {}
        }
        out.push(cur);
        if cur.bits() >= 300 {
            break;
        }
        cur = cur.add(&r);
    }
    out
}

// ---------------------------------------------------------------- JubJub

#[derive(Clone, Copy, Debug, PartialEq, Eq)]
pub struct Pt {
    pub x: Fe,
    pub y: Fe,
}

impl Pt {
    pub fn identity() -> Pt {
        Pt { x: zero(), y: one() }
    }
    pub fn on_curve(&self) -> bool {
        let x2 = self.x * self.x;
        let y2 = self.y * self.y;
        y2 - x2 == one() + edwards_d() * x2 * y2
    }
    /// Complete twisted Edwards addition (a = -1). Returns None on a pole
    /// (only possible for off-curve inputs).
    pub fn add(&self, o: &Pt) -> Option<Pt> {
        let d = edwards_d();
        let x1y2 = self.x * o.y;
        let y1x2 = self.y * o.x;
        let y1y2 = self.y * o.y;
        let x1x2 = self.x * o.x;
        let t = d * x1x2 * y1y2;
        let dx = one() + t;
        let dy = one() - t;
        if dx == zero() || dy == zero() {
            return None;
        }
        Some(Pt { x: (x1y2 + y1x2) * inv(dx), y: (y1y2 + x1x2) * inv(dy) })
    }
    pub fn neg(&self) -> Pt {
        Pt { x: -self.x, y: self.y }
    }
    pub fn double(&self) -> Option<Pt> {
        self.add(self)
    }
    /// Double-and-add with a 256-bit little-endian integer scalar.
    pub fn mul(&self, k: &U320) -> Option<Pt> {
        let mut acc = Pt::identity();
        for i in (0..k.bits()).rev() {
            acc = acc.double()?;
            if k.bit(i) == 1 {
                acc = acc.add(self)?;
            }
        }
        Some(acc)
    }
    /// on the curve and annihilated by the subgroup order
    pub fn in_subgroup(&self) -> bool {
        if !self.on_curve() {
            return false;
        }
        match self.mul(&U320::from_fe(&r_jubjub())) {
            Some(p) => p == Pt::identity(),
            None => false,
        }
    }
    pub fn from_jubjub(p: dusk_jubjub::JubJubExtended) -> Pt {
        let a = dusk_jubjub::JubJubAffine::from(p);
        Pt { x: a.get_u(), y: a.get_v() }
    }
    pub fn to_affine(&self) -> dusk_jubjub::JubJubAffine {
        dusk_jubjub::JubJubAffine::from_raw_unchecked(self.x, self.y)
    }
}

/// A generator of the 8-torsion subgroup E[8] found by clearing the prime
/// part of a curve point: T = [r_J] P for an on-curve P of full order.
pub fn torsion_points() -> Vec<Pt> {
    // search x = 1,2,... for an on-curve point: y^2 = (1 + x^2) / (1 - d x^2)
    let d = edwards_d();
    let rj = U320::from_fe(&r_jubjub());
    let mut x = one();
    loop {
        x += one();
        let x2 = x * x;
        let den = one() - d * x2;
        if den == zero() {
            continue;
        }
        let y2 = (one() + x2) * inv(den);
        let y: Option<Fe> = y2.sqrt().into();
        let Some(y) = y else { continue };
        let p = Pt { x, y };
        debug_assert!(p.on_curve());
        let t = p.mul(&rj).expect("on-curve multiplication has no poles");
        // order of t divides 8; want exact order 8
        let t4 = t.double().unwrap().double().unwrap();
        if t4 != Pt::identity() {
            // t has order 8
            let mut out = vec![];
            let mut cur = Pt::identity();
            for _ in 0..8 {
                out.push(cur);
                cur = cur.add(&t).unwrap();
            }
            assert_eq!(cur, Pt::identity());
            return out;
        }
    }
}

/// 8^{-1} mod r_J as an integer (by Fermat in the scalar field of JubJub,
/// computed with dusk-jubjub's Fr only for the inversion).
pub fn eight_inv() -> U320 {
    let e = dusk_jubjub::JubJubScalar::from(8u64).invert().unwrap();
    let b = e.to_bytes();
    let mut l = [0u64; 5];
    for i in 0..4 {
        let mut w = [0u8; 8];
        w.copy_from_slice(&b[i * 8..i * 8 + 8]);
        l[i] = u64::from_le_bytes(w);
    }
    U320(l)
}

/// A pair (x, y) with delta(x) + delta(y) = 0 and delta(x) != 0, where
/// delta(f) = f(f-1)(f-2)(f-3): two quad residuals that cancel when they are
/// (wrongly) given the same weight. With u = f - 3/2 and p = u^2 - 5/4,
/// delta = p^2 - 1, so the pairs are the points of the conic p^2 + q^2 = 2
/// whose coordinates shifted by 5/4 are squares. `k` selects the k-th such pair.
pub fn cancelling_quads(k: usize) -> (Fe, Fe) {
    let half = inv(fe(2));
    let c54 = fe(5) * inv(fe(4));
    let mut found = 0;
    let mut t = one();
    loop {
        t += one();
        let den = one() + t * t;
        if den == zero() {
            continue;
        }
        let s = -(fe(2) * (one() + t)) * inv(den);
        let p = one() + s;
        let q = one() + t * s;
        if p * p == one() || q * q == one() {
            continue;
        }
        let ux: Option<Fe> = (p + c54).sqrt().into();
        let uy: Option<Fe> = (q + c54).sqrt().into();
        if let (Some(ux), Some(uy)) = (ux, uy) {
            if found == k {
                let x = fe(3) * half + ux;
                let y = fe(3) * half + uy;
                let d = |f: Fe| f * (f - fe(1)) * (f - fe(2)) * (f - fe(3));
                assert!(d(x) + d(y) == zero() && d(x) != zero());
                return (x, y);
            }
            found += 1;
        }
    }
}

// ---------------------------------------------------------------- cubic roots

type P3 = [Fe; 3]; // polynomial of degree < 3, little-endian

/// a * b mod f, f monic cubic x^3 + f2 x^2 + f1 x + f0
fn mulmod3(a: &P3, b: &P3, f: &[Fe; 3]) -> P3 {
    let mut t = [zero(); 5];
    for i in 0..3 {
        for j in 0..3 {
            t[i + j] += a[i] * b[j];
        }
    }
    // reduce x^4, x^3 using x^3 = -(f2 x^2 + f1 x + f0)
    for k in (3..5).rev() {
        let c = t[k];
        t[k] = zero();
        t[k - 1] -= c * f[2];
        t[k - 2] -= c * f[1];
        t[k - 3] -= c * f[0];
    }
    [t[0], t[1], t[2]]
}

fn powmod3(base: &P3, exp: &U320, f: &[Fe; 3]) -> P3 {
    let mut acc: P3 = [one(), zero(), zero()];
    for i in (0..exp.bits()).rev() {
        acc = mulmod3(&acc, &acc, f);
        if exp.bit(i) == 1 {
            acc = mulmod3(&acc, base, f);
        }
    }
    acc
}

fn poly_trim(mut p: Vec<Fe>) -> Vec<Fe> {
    while p.last().map_or(false, |c| *c == zero()) {
        p.pop();
    }
    p
}
fn poly_rem(a: &[Fe], b: &[Fe]) -> Vec<Fe> {
    let mut a = poly_trim(a.to_vec());
    let b = poly_trim(b.to_vec());
    if b.is_empty() {
        return a;
    }
    let lb = inv(*b.last().unwrap());
    while a.len() >= b.len() {
        let c = *a.last().unwrap() * lb;
        let off = a.len() - b.len();
        for i in 0..b.len() {
            a[off + i] -= c * b[i];
        }
        a = poly_trim(a);
        if a.is_empty() {
            break;
        }
    }
    a
}
fn poly_gcd(a: &[Fe], b: &[Fe]) -> Vec<Fe> {
    let (mut x, mut y) = (poly_trim(a.to_vec()), poly_trim(b.to_vec()));
    while !y.is_empty() {
        let r = poly_rem(&x, &y);
        x = y;
        y = r;
    }
    if let Some(l) = x.last().copied() {
        let li = inv(l);
        for c in x.iter_mut() {
            *c *= li;
        }
    }
    x
}

/// All roots in the field of c3 x^3 + c2 x^2 + c1 x + c0 (c3 != 0), by
/// gcd with x^r - x and equal-degree splitting (own code).
pub fn cubic_roots(c: [Fe; 4]) -> Vec<Fe> {
    assert!(c[3] != zero());
    let li = inv(c[3]);
    let f = [c[0] * li, c[1] * li, c[2] * li];
    let fm = vec![f[0], f[1], f[2], one()];
    let r = U320::modulus();
    // x^r mod f
    let xr = powmod3(&[zero(), one(), zero()], &r, &f);
    let mut h = vec![xr[0], xr[1] - one(), xr[2]]; // x^r - x
    h = poly_trim(h);
    let g = if h.is_empty() { fm.clone() } else { poly_gcd(&fm, &h) };
    let mut roots = vec![];
    let mut stack = vec![g];
    let half = {
        // (r - 1) / 2
        let rm1 = r.sub(&U320::from_u64(1));
        rm1.shr(1)
    };
    let mut shift = zero();
    let mut guard = 0;
    while let Some(p) = stack.pop() {
        guard += 1;
        if guard > 200 {
            break;
        }
        match p.len() {
            0 | 1 => {}
            2 => roots.push(-p[0] * inv(p[1])),
            _ => {
                // split with gcd(p, (x + s)^((r-1)/2) - 1)
                shift += one();
                let base: P3 = [shift, one(), zero()];
                let e = powmod3(&base, &half, &f);
                let q = poly_trim(vec![e[0] - one(), e[1], e[2]]);
                let d = poly_gcd(&p, &q);
                if d.len() <= 1 || d.len() == p.len() {
                    stack.push(p);
                    continue;
                }
                // p / d
                let mut quo = vec![zero(); p.len() - d.len() + 1];
                let mut rem = p.clone();
                for i in (0..quo.len()).rev() {
                    let cc = rem[i + d.len() - 1];
                    quo[i] = cc;
                    for j in 0..d.len() {
                        rem[i + j] -= cc * d[j];
                    }
                }
                stack.push(d);
                stack.push(quo);
            }
        }
    }
    roots.retain(|x| c[0] + *x * (c[1] + *x * (c[2] + *x * c[3])) == zero());
    roots
}
