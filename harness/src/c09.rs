//! C09 — range check admits exactly [0, 2^BITS).

use std::sync::Arc;

use serde_json::json;

use crate::dispatch;
use crate::e2::Gadget;
use crate::ev::{Run, Tier};
use crate::fe::*;
use crate::gadget::*;
use crate::m1;
use crate::m5;
use crate::prog::Prog;

fn widths(tier: Tier) -> Vec<usize> {
    match tier {
        Tier::Quick => vec![0, 1, 2, 3, 6, 7, 8, 9, 10, 16, 17, 63, 64, 65, 127, 128, 251, 252, 253, 254, 255, 256],
        Tier::Thorough => (0..=256).collect(),
    }
}

fn values(w: usize, seed: u64) -> Vec<Fe> {
    let rho = Rho::new(seed, 900 + w as u64).next_fe();
    let mut v = vec![zero(), one(), neg1(), rho, m5::low_bits(&rho, w)];
    if w <= 255 {
        v.push(pow2(w) - one());
        v.push(pow2(w));
        v.push(pow2(w) + one());
    }
    if w + 1 <= 255 {
        v.push(pow2(w + 1));
    }
    if w + 2 <= 255 {
        v.push(pow2(w + 2) - one());
    }
    // values just above multiples of the quad padding
    if w >= 2 && w + 1 <= 254 {
        v.push(pow2(w) + pow2(w - 1));
    }
    dedup(v)
}

#[derive(Clone, Copy, PartialEq, Eq, Debug)]
enum Entry {
    /// component_range_bits::<BITS>
    Bits,
    /// runtime seam (pub(super) range_check)
    Seam,
    /// deprecated component_range::<BIT_PAIRS>
    Pairs,
}

fn gadget(entry: Entry, w: usize, x: Fe) -> Gadget {
    let name = format!("range/{:?}/w{}", entry, w);
    Gadget::new(&name, vec![x], move |c, ins| {
        match entry {
            Entry::Bits => dispatch::range_bits(c, ins[0], w),
            Entry::Seam => c.verif_range_check(ins[0], w),
            Entry::Pairs => dispatch::range_pairs(c, ins[0], w / 2),
        }
        Ok(vec![])
    })
}

pub fn cases(tier: Tier) -> Vec<GCase> {
    let mut out = vec![];
    let seed = seed();
    for w in widths(tier) {
        for x in values(w, seed) {
            let expect = if m5::in_range(&x, w) { Expect::Sat(vec![]) } else { Expect::Unsat };
            let mut entries = vec![Entry::Bits];
            if w % 2 == 0 {
                entries.push(Entry::Pairs);
            }
            if tier == Tier::Thorough || w % 8 == 1 {
                entries.push(Entry::Seam);
            }
            for e in entries {
                let wclass = if w >= 255 { "w>=255" } else if w % 2 == 0 { "even" } else { "odd" };
                let mut c = GCase::new(gadget(e, w, x), expect.clone(), &format!("range/{:?}/{}", e, wclass));
                // gadget-specific replacement values: quads and width-relative values
                c.extra = Some(Arc::new(move |_k, v| {
                    vec![("+2".into(), v + fe(2)), ("+3".into(), v + fe(3)), ("x2".into(), v + v), ("-4".into(), v - fe(4))]
                }));
                c.bound2 = tier == Tier::Thorough && w <= 12;
                c.rewire = w <= 17 || tier == Tier::Thorough;
                // prover confirmation on a subset in quick
                c.confirm = tier == Tier::Thorough || e == Entry::Bits;
                out.push(c);
            }
        }
    }
    // non-initial states: the witness was already range-checked to another width
    {
        let ws: Vec<usize> = match tier { Tier::Quick => vec![1, 8, 9, 64, 252, 254], Tier::Thorough => vec![0, 1, 2, 3, 8, 9, 16, 17, 64, 127, 128, 251, 252, 253, 254] };
        for &w1 in &ws {
            for &w2 in &ws {
                if w1 == w2 {
                    continue;
                }
                let (lo, hi) = (w1.min(w2), w1.max(w2));
                for x in [pow2(lo) - one(), pow2(lo), pow2(hi) - one(), pow2(hi)] {
                    let expect = if m5::in_range(&x, lo) { Expect::Sat(vec![]) } else { Expect::Unsat };
                    let mut c = GCase::new(gadget(Entry::Bits, w2, x).with_prelude(&format!("range{}", w1), move |c, ins| { dispatch::range_bits(c, ins[0], w1); Ok(()) }), expect, "range/with-history");
                    c.dev_stride = if w2 <= 17 { 1 } else { 0 };
                    c.confirm = true;
                    out.push(c);
                }
            }
        }
    }
    // the composer's constant witnesses as the range-checked value
    for w in widths(tier) {
        for x in [zero(), one()] {
            let expect = if m5::in_range(&x, w) { Expect::Sat(vec![]) } else { Expect::Unsat };
            let mut c = GCase::new(gadget(Entry::Bits, w, x).with_const_handles(), expect, "range/Bits/const-handles");
            c.rewire = w <= 17;
            c.confirm = w <= 17 || w >= 254;
            out.push(c);
        }
    }
    // crafted attack: a forged accumulator chain in which two ADJACENT quads are
    // (x, y) with delta(x) + delta(y) = 0; the range-checked value is the forged
    // final accumulator (far out of range). The row model rejects it (two quad
    // identities fail); it is always replayed on the real prover, which would
    // accept it if the two identities shared a separation weight.
    let (cx, cy) = m5::cancelling_quads(1);
    let even_widths: Vec<usize> = widths(tier).into_iter().filter(|w| w % 2 == 0 && *w >= 8 && *w <= 254).collect();
    for w in even_widths {
        let n_acc = {
            // number of accumulators = allocations of the gadget on an even width
            let probe = gadget(Entry::Bits, w, zero());
            match crate::e2::honest(&probe) {
                Ok(h) => h.meta.hi - h.meta.lo,
                Err(_) => continue,
            }
        };
        if n_acc < 3 {
            continue;
        }
        let mid = n_acc / 2;
        for off in 0..4usize.min(n_acc - 1) {
            let i0 = (mid + off).min(n_acc - 2);
            let mut acc = zero();
            let mut chain = vec![];
            for i in 0..n_acc {
                let quad = if i == i0 { cx } else if i == i0 + 1 { cy } else { fe(1 + (i % 3) as u64) };
                acc = fe(4) * acc + quad;
                chain.push(acc);
            }
            let vstar = acc;
            // the forged value is a pseudo-random field element: for wide widths it may be in range
            let e = if m5::in_range(&vstar, w) { Expect::Sat(vec![]) } else { Expect::Unsat };
            let mut c = GCase::new(gadget(Entry::Bits, w, vstar), e, "range/Bits/forged-chain");
            c.dev_stride = 0;
            let chain2 = chain.clone();
            c.named = Some(Arc::new(move |h: &crate::e2::Honest| {
                let script: Vec<(usize, Fe)> = chain2.iter().enumerate().map(|(i, v)| (h.meta.lo + i, *v)).collect();
                vec![crate::e2::Dev { script, tag: format!("cancelling-quads@{}", i0), must_confirm: true }]
            }));
            c.confirm = true;
            out.push(c);
        }
    }
    out
}

/// Both entry points emit identical gates for equal widths.
fn layout_equivalence(run: &mut Run, tier: Tier) {
    let pairs: Vec<usize> = match tier {
        Tier::Quick => vec![0, 1, 2, 3, 4, 5, 31, 32, 33, 64, 126, 127, 128, 129, 130, 200, 1000],
        Tier::Thorough => (0..=130).chain([200usize, 1000]).collect(),
    };
    for p in pairs {
        let bits = (2 * p).min(256);
        for x in [zero(), fe(5), neg1()] {
            let a = Prog::new(move |c| {
                let w = c.append_witness(x);
                dispatch::range_pairs(c, w, p);
                Ok(())
            });
            let b = Prog::new(move |c| {
                let w = c.append_witness(x);
                dispatch::range_bits(c, w, bits);
                Ok(())
            });
            run.transitions += 1;
            run.evaluations += 1;
            match (a.run(), b.run()) {
                (Ok(sa), Ok(sb)) => {
                    run.outcome("entrypoints:compared");
                    if m1::layout_key(&sa) != m1::layout_key(&sb) || sa.gates != sb.gates {
                        run.violation(
                            "range/entrypoints-differ",
                            &format!("component_range::<{}> and component_range_bits::<{}> emit different gates", p, bits),
                            json!({"bit_pairs": p, "bits": bits, "value": hex(&x)}),
                        );
                    }
                }
                (ra, rb) => run.violation(
                    "range/entrypoints-error",
                    &format!("range entry points failed: {:?} / {:?}", ra.err(), rb.err()),
                    json!({"bit_pairs": p, "bits": bits}),
                ),
            }
        }
    }
}

pub fn main(tier: Tier, replay: Option<serde_json::Value>) -> i32 {
    let mut run = Run::new("C09", tier, "model_checking");
    run.rule = "cases = (entry point, width, value) with boundary values per width; for each the honest assignment and every bound-1 deviation (bound 2 for widths <= 12 in thorough) of the gadget's own allocations, re-run through the real witness generator, is decided by M1; predicate: satisfiable iff canonical value < 2^w and no deviation makes an out-of-range value satisfiable; non-trivial = distinct (entry, width, value) whose exploration ran; non-initial states: constant witnesses ZERO / ONE as the checked value, and witnesses already range-checked to another width (every ordered pair of widths)".into();
    let cs = cases(tier);
    let cache = ConfirmCache::new(crate::setup::pp(1 << 9));
    if let Some(r) = replay {
        return crate::gadget::replay(run, &cs, &cache, &r);
    }
    run.bound("widths", json!(widths(tier)));
    run.bound("deviation_bound", json!(if tier == Tier::Thorough { "1 (2 for w<=12)" } else { "1" }));
    let names: Vec<String> = cs.iter().map(|c| c.g.name.clone()).collect();
    let reps = crate::par::par_map(&cs, |c| run_case(c, &cache));
    absorb(&mut run, reps, &names);
    layout_equivalence(&mut run, tier);
    run.gate("some in-range honest cases", run.count("honest:sat") > 0);
    run.gate("some out-of-range cases", run.count("honest:unsat") > 0);
    run.gate("deviations explored", run.count("deviations") > 1000);
    run.assumptions = vec![
        "M1 row model (bound to the prover by C05) decides satisfiability".into(),
        "field values: boundary alphabet per width, not the whole field".into(),
        "adversary: <=1 (<=2 for small widths) deviating allocations, later allocations recomputed honestly".into(),
    ];
    run.finish()
}
