//! E1 — operation-sequence explorer: breadth-first over sequences of public
//! composer operations (DESIGN §4 E1, Appendix D), each state pushed through
//! the real pipeline (compile direct / compressed / from bytes, prove, verify).

use std::sync::Arc;

use dusk_jubjub::{JubJubScalar, GENERATOR_EXTENDED};
use dusk_plonk::prelude::*;
use dusk_plonk::verif::Snapshot;

use crate::c05::{family_assignment, merged_row, Fam};
use crate::fe::*;
use crate::m1;
use crate::prog::Prog;
use crate::rng::ScriptedRng;

/// State threaded through a program: outputs of the previous operation.
#[derive(Default, Clone)]
pub struct St {
    pub scalar: Option<(Witness, Fe)>,
    pub point: Option<(WitnessPoint, (Fe, Fe))>,
}

pub type OpFn = Arc<dyn Fn(&mut Composer, &mut St) -> Result<(), Error> + Send + Sync>;

#[derive(Clone)]
pub struct Op {
    pub name: &'static str,
    pub cheap: bool,
    pub f: OpFn,
}

fn op<F>(name: &'static str, cheap: bool, f: F) -> Op
where
    F: Fn(&mut Composer, &mut St) -> Result<(), Error> + Send + Sync + 'static,
{
    Op { name, cheap, f: Arc::new(f) }
}

/// previous output if it satisfies `pred`, else a fresh witness with `fresh`
fn scalar_in(c: &mut Composer, st: &St, fresh: Fe, pred: &dyn Fn(&Fe) -> bool) -> (Witness, Fe) {
    match &st.scalar {
        Some((w, v)) if pred(v) => (*w, *v),
        _ => (c.append_witness(fresh), fresh),
    }
}

fn gpt(k: u64) -> (Fe, Fe) {
    crate::c05::affine(GENERATOR_EXTENDED * JubJubScalar::from(k))
}

fn point_in(c: &mut Composer, st: &St, k: u64) -> Result<(WitnessPoint, (Fe, Fe)), Error> {
    match &st.point {
        Some(p) => Ok(*p),
        None => {
            let p = GENERATOR_EXTENDED * JubJubScalar::from(k);
            let w = c.append_point(p)?;
            Ok((w, gpt(k)))
        }
    }
}

fn tf(p: WitnessPoint) -> TorsionFreeWitnessPoint {
    TorsionFreeWitnessPoint::new_unchecked(p)
}

fn raw_family(c: &mut Composer, fam: Fam, variant: usize) {
    let row = merged_row(&[fam]);
    let (cur, next) = family_assignment(fam, variant);
    let w: Vec<Witness> = cur.iter().map(|v| c.append_witness(*v)).collect();
    c.verif_raw_gate(row.q, None, [w[0], w[1], w[2], w[3]]);
    let n: Vec<Witness> = next.iter().map(|v| c.append_witness(*v)).collect();
    c.verif_raw_gate([zero(); 11], None, [n[0], n[1], n[2], n[3]]);
}

pub fn alphabet() -> Vec<Op> {
    let any = |_: &Fe| true;
    let rho = Rho::new(seed(), 61).next_fe();
    let mut v = vec![];
    v.push(op("append_gate", true, move |c, st| {
        let (a, av) = scalar_in(c, st, fe(3), &any);
        let b = c.append_witness(fe(5));
        let out = c.append_witness(av * fe(5) + av + fe(5));
        c.append_gate(Constraint::new().mult(1).left(1).right(1).output(-BlsScalar::one()).a(a).b(b).c(out));
        st.scalar = Some((out, av * fe(5) + av + fe(5)));
        Ok(())
    }));
    v.push(op("append_gate_pi", true, move |c, st| {
        let (a, av) = scalar_in(c, st, fe(3), &any);
        let b = c.append_witness(fe(7));
        let d = c.append_witness(fe(2));
        // a + b - c + d + 3 + PI = 0 with PI = rho
        let out = av + fe(7) + fe(2) + fe(3) + rho;
        let o = c.append_witness(out);
        c.append_gate(Constraint::new().left(1).right(1).output(-BlsScalar::one()).fourth(1).constant(3).public(rho).a(a).b(b).c(o).d(d));
        st.scalar = Some((o, out));
        Ok(())
    }));
    v.push(op("gate_add", true, move |c, st| {
        let (a, av) = scalar_in(c, st, fe(4), &any);
        let b = c.append_witness(fe(9));
        let o = c.gate_add(Constraint::new().left(2).right(1).constant(1).a(a).b(b));
        st.scalar = Some((o, fe(2) * av + fe(9) + one()));
        Ok(())
    }));
    v.push(op("gate_mul", true, move |c, st| {
        let (a, av) = scalar_in(c, st, fe(4), &any);
        let b = c.append_witness(fe(9));
        let o = c.gate_mul(Constraint::new().mult(1).a(a).b(b));
        st.scalar = Some((o, av * fe(9)));
        Ok(())
    }));
    v.push(op("evaluated_output_qo2", true, move |c, st| {
        let (a, av) = scalar_in(c, st, fe(6), &any);
        let o = c.append_evaluated_output(Constraint::new().left(2).output(2).a(a)).expect("q_O = 2");
        st.scalar = Some((o, -av));
        Ok(())
    }));
    v.push(op("evaluated_output_qo0", true, move |c, st| {
        // no output; the row enforces a - a = 0 on its inputs
        let (a, _) = scalar_in(c, st, fe(6), &any);
        let r = c.append_evaluated_output(Constraint::new().left(1).right(-BlsScalar::one()).a(a).b(a));
        assert!(r.is_none());
        Ok(())
    }));
    v.push(op("assert_equal", true, move |c, st| {
        let (a, av) = scalar_in(c, st, fe(8), &any);
        let b = c.append_witness(av);
        c.assert_equal(a, b);
        Ok(())
    }));
    v.push(op("assert_equal_shared", true, move |c, st| {
        // the same witness on both operands (shared wiring)
        let (a, _) = scalar_in(c, st, fe(8), &any);
        c.assert_equal(a, a);
        Ok(())
    }));
    v.push(op("assert_equal_constant", true, move |c, st| {
        let a = c.append_witness(fe(77));
        c.assert_equal_constant(a, fe(77), None);
        st.scalar = Some((a, fe(77)));
        Ok(())
    }));
    v.push(op("assert_equal_constant_pi", true, move |c, st| {
        let (a, av) = scalar_in(c, st, fe(80), &any);
        c.assert_equal_constant(a, fe(3), Some(av - fe(3)));
        Ok(())
    }));
    v.push(op("append_constant", true, move |c, st| {
        let w = c.append_constant(fe(1234));
        st.scalar = Some((w, fe(1234)));
        Ok(())
    }));
    v.push(op("append_public_zero", true, move |c, st| {
        let w = c.append_public(zero());
        st.scalar = Some((w, zero()));
        Ok(())
    }));
    v.push(op("append_public_rho", true, move |c, st| {
        let w = c.append_public(rho);
        st.scalar = Some((w, rho));
        Ok(())
    }));
    v.push(op("component_boolean", true, move |c, st| {
        let (a, _) = scalar_in(c, st, one(), &|v| *v == zero() || *v == one());
        c.component_boolean(a);
        Ok(())
    }));
    v.push(op("component_select", true, move |c, st| {
        let (bit, bv) = scalar_in(c, st, one(), &|v| *v == zero() || *v == one());
        let a = c.append_witness(fe(10));
        let b = c.append_witness(fe(20));
        let o = c.component_select(bit, a, b);
        st.scalar = Some((o, if bv == one() { fe(10) } else { fe(20) }));
        Ok(())
    }));
    v.push(op("component_select_one", true, move |c, st| {
        let (bit, bv) = scalar_in(c, st, zero(), &|v| *v == zero() || *v == one());
        let a = c.append_witness(fe(10));
        let o = c.component_select_one(bit, a);
        st.scalar = Some((o, if bv == one() { fe(10) } else { one() }));
        Ok(())
    }));
    v.push(op("component_select_zero", true, move |c, st| {
        let (bit, bv) = scalar_in(c, st, one(), &|v| *v == zero() || *v == one());
        let a = c.append_witness(fe(10));
        let o = c.component_select_zero(bit, a);
        st.scalar = Some((o, if bv == one() { fe(10) } else { zero() }));
        Ok(())
    }));
    macro_rules! range_op {
        ($name:expr, $bits:expr) => {
            v.push(op($name, true, move |c, st| {
                let (a, _) = scalar_in(c, st, if $bits == 0 { zero() } else { pow2($bits) - one() }, &|x| crate::m5::in_range(x, $bits));
                c.component_range_bits::<$bits>(a);
                Ok(())
            }));
        };
    }
    range_op!("range_bits_0", 0);
    range_op!("range_bits_1", 1);
    range_op!("range_bits_2", 2);
    range_op!("range_bits_7", 7);
    range_op!("range_bits_8", 8);
    v.push(op("range_pairs_4", true, move |c, st| {
        let (a, _) = scalar_in(c, st, fe(200), &|x| crate::m5::in_range(x, 8));
        #[allow(deprecated)]
        c.component_range::<4>(a);
        Ok(())
    }));
    v.push(op("decomposition_3", true, move |c, st| {
        let (a, av) = scalar_in(c, st, fe(5), &|x| crate::m5::in_range(x, 3));
        let bits = c.component_decomposition::<3>(a);
        st.scalar = Some((bits[0], fe(limbs(&av)[0] & 1)));
        Ok(())
    }));
    v.push(op("append_point", true, move |c, st| {
        let w = c.append_point(GENERATOR_EXTENDED * JubJubScalar::from(3u64))?;
        st.point = Some((w, gpt(3)));
        Ok(())
    }));
    v.push(op("append_public_point", true, move |c, st| {
        let w = c.append_public_point(GENERATOR_EXTENDED * JubJubScalar::from(2u64))?;
        st.point = Some((w, gpt(2)));
        Ok(())
    }));
    v.push(op("assert_equal_point", true, move |c, st| {
        let (p, pv) = point_in(c, st, 4)?;
        let x = c.append_witness(pv.0);
        let y = c.append_witness(pv.1);
        let q = c.verif_point(x, y);
        c.assert_equal_point(p, q);
        Ok(())
    }));
    v.push(op("assert_equal_public_point", true, move |c, st| {
        let (p, pv) = point_in(c, st, 4)?;
        c.assert_equal_public_point(p, dusk_jubjub::JubJubAffine::from_raw_unchecked(pv.0, pv.1))?;
        Ok(())
    }));
    v.push(op("neg_point", true, move |c, st| {
        let (p, pv) = point_in(c, st, 5)?;
        let r = c.component_neg_point(tf(p));
        st.point = Some((r.into(), (-pv.0, pv.1)));
        Ok(())
    }));
    v.push(op("add_point", true, move |c, st| {
        let (p, pv) = point_in(c, st, 5)?;
        let q = c.append_point(GENERATOR_EXTENDED * JubJubScalar::from(6u64))?;
        let r = c.component_add_point(tf(p), tf(q));
        let s = crate::m5::Pt { x: pv.0, y: pv.1 }.add(&crate::m5::Pt { x: gpt(6).0, y: gpt(6).1 }).unwrap();
        st.point = Some((r.into(), (s.x, s.y)));
        Ok(())
    }));
    v.push(op("add_point_shared", true, move |c, st| {
        // P + P with the same witnesses on both operands
        let (p, pv) = point_in(c, st, 5)?;
        let r = c.component_add_point(tf(p), tf(p));
        let pt = crate::m5::Pt { x: pv.0, y: pv.1 };
        let s = pt.add(&pt).unwrap();
        st.point = Some((r.into(), (s.x, s.y)));
        Ok(())
    }));
    v.push(op("select_point", true, move |c, st| {
        let (p, pv) = point_in(c, st, 5)?;
        let bit = c.append_witness(one());
        c.component_boolean(bit);
        let q = c.append_point(GENERATOR_EXTENDED)?;
        let r = c.component_select_point(bit, p, q);
        st.point = Some((r, pv));
        Ok(())
    }));
    v.push(op("select_identity", true, move |c, st| {
        let (p, _) = point_in(c, st, 5)?;
        let bit = c.append_witness(zero());
        let r = c.component_select_identity(bit, tf(p));
        st.point = Some((r.into(), (zero(), one())));
        Ok(())
    }));
    for (name, fam, var) in [("raw_range", Fam::Range, 1usize), ("raw_and", Fam::And, 1), ("raw_xor", Fam::Xor, 2), ("raw_var", Fam::Var, 1), ("raw_fixed", Fam::Fixed, 1)] {
        v.push(op(name, true, move |c, _| {
            raw_family(c, fam, var);
            Ok(())
        }));
    }
    // expensive operations
    v.push(op("logic_and_1", false, move |c, st| {
        let (a, av) = scalar_in(c, st, fe(2), &any);
        let b = c.append_witness(fe(3));
        let o = c.append_logic_and::<1>(a, b);
        st.scalar = Some((o, crate::m5::logic(&av, &fe(3), 2, false)));
        Ok(())
    }));
    v.push(op("logic_xor_2", false, move |c, st| {
        let (a, av) = scalar_in(c, st, fe(9), &any);
        let b = c.append_witness(fe(5));
        let o = c.append_logic_xor::<2>(a, b);
        st.scalar = Some((o, crate::m5::logic(&av, &fe(5), 4, true)));
        Ok(())
    }));
    v.push(op("truncate_3", false, move |c, st| {
        let (a, av) = scalar_in(c, st, fe(45), &any);
        let o = c.component_truncate::<3>(a);
        st.scalar = Some((o, crate::m5::low_bits(&av, 3)));
        Ok(())
    }));
    v.push(op("append_constant_point", false, move |c, st| {
        let w = c.append_constant_point(GENERATOR_EXTENDED * JubJubScalar::from(11u64))?;
        st.point = Some((w.into(), gpt(11)));
        Ok(())
    }));
    v.push(op("assert_torsion_free_point", false, move |c, st| {
        let (p, _) = point_in(c, st, 7)?;
        c.assert_torsion_free_point(p);
        Ok(())
    }));
    v.push(op("sub_point", false, move |c, st| {
        let (p, pv) = point_in(c, st, 9)?;
        let q = c.append_point(GENERATOR_EXTENDED * JubJubScalar::from(2u64))?;
        let r = c.component_sub_point(tf(p), tf(q));
        let s = crate::m5::Pt { x: pv.0, y: pv.1 }.add(&crate::m5::Pt { x: gpt(2).0, y: gpt(2).1 }.neg()).unwrap();
        st.point = Some((r.into(), (s.x, s.y)));
        Ok(())
    }));
    v.push(op("mul_generator", false, move |c, st| {
        let (s, sv) = scalar_in(c, st, fe(0xabcdef), &|x| U320::from_fe(x).lt(&U320::from_fe(&r_jubjub())));
        let r = c.component_mul_generator(s, GENERATOR_EXTENDED)?;
        let p = crate::m5::Pt::from_jubjub(GENERATOR_EXTENDED).mul(&U320::from_fe(&sv)).unwrap();
        st.point = Some((r.into(), (p.x, p.y)));
        Ok(())
    }));
    v.push(op("mul_point", false, move |c, st| {
        let (p, pv) = point_in(c, st, 3)?;
        let s = c.append_witness(fe(0x1234567));
        let r = c.component_mul_point(s, tf(p));
        let q = crate::m5::Pt { x: pv.0, y: pv.1 }.mul(&U320::from_u64(0x1234567)).unwrap();
        st.point = Some((r.into(), (q.x, q.y)));
        Ok(())
    }));
    v
}

#[derive(Clone)]
pub struct Program {
    pub ops: Vec<usize>,
    pub name: String,
}

pub fn program_prog(alpha: &[Op], p: &Program) -> Prog {
    let fs: Vec<OpFn> = p.ops.iter().map(|i| alpha[*i].f.clone()).collect();
    Prog::new(move |c| {
        let mut st = St::default();
        for f in &fs {
            f(c, &mut st)?;
        }
        Ok(())
    })
}

/// All programs up to the tier's depth (breadth-first order, shortest first).
pub fn programs(alpha: &[Op], depth_all: usize, depth_cheap: usize, expensive_partners: usize) -> Vec<Program> {
    let mut out = vec![];
    let name = |ops: &[usize]| ops.iter().map(|i| alpha[*i].name).collect::<Vec<_>>().join(">");
    let cheap: Vec<usize> = (0..alpha.len()).filter(|i| alpha[*i].cheap).collect();
    let exp: Vec<usize> = (0..alpha.len()).filter(|i| !alpha[*i].cheap).collect();
    // depth 1: everything
    for i in 0..alpha.len() {
        out.push(Program { ops: vec![i], name: name(&[i]) });
    }
    if depth_all >= 2 {
        for &i in &cheap {
            for &j in &cheap {
                out.push(Program { ops: vec![i, j], name: name(&[i, j]) });
            }
        }
        // expensive ops paired with a rotating subset of cheap partners, both orders
        for (k, &e) in exp.iter().enumerate() {
            for t in 0..expensive_partners.min(cheap.len()) {
                let partner = cheap[(k * 7 + t * 5) % cheap.len()];
                out.push(Program { ops: vec![partner, e], name: name(&[partner, e]) });
                out.push(Program { ops: vec![e, partner], name: name(&[e, partner]) });
            }
        }
    }
    if depth_cheap >= 3 {
        // depth 3 on a reduced cheap alphabet (every second op) to keep it finite and useful
        let red: Vec<usize> = cheap.iter().cloned().step_by(2).collect();
        for &i in &red {
            for &j in &red {
                for &k in &red {
                    out.push(Program { ops: vec![i, j, k], name: name(&[i, j, k]) });
                }
            }
        }
    }
    out
}

/// Everything observed when a program is pushed through the pipeline.
pub struct Obs {
    pub snap: Option<Snapshot>,
    pub build_err: Option<String>,
    pub model_sat: bool,
    pub constraints: usize,
    pub layout: u64,
    pub direct: RouteObs,
    pub compressed: RouteObs,
    pub serialized: RouteObs,
    pub compress_err: Option<String>,
    pub compressed_len: usize,
}

impl Obs {
    /// Drop what a judge does not need once the case has run (serialized prover
    /// keys are ~25 MB and snapshots ~2 MB at 2^12 constraints; thousands of
    /// retained cases would not fit in memory). Public-input rows are kept.
    pub fn slim(mut self) -> Self {
        for r in [&mut self.direct, &mut self.compressed, &mut self.serialized] {
            r.prover_bytes = Vec::new();
        }
        if let Some(s) = self.snap.as_mut() {
            s.gates = Vec::new();
            s.witnesses = Vec::new();
        }
        self
    }
}

#[derive(Default, Clone)]
pub struct RouteObs {
    pub compile_err: Option<String>,
    pub prover_bytes: Vec<u8>,
    pub verifier_bytes: Vec<u8>,
    pub prove_err: Option<String>,
    pub proof: Vec<u8>,
    pub pis: Vec<Fe>,
    pub verify_err: Option<String>,
    pub ran: bool,
}

fn prove_verify(pr: &Prover, ve: &Verifier, prog: &Prog, obs: &mut RouteObs) {
    use dusk_bytes::Serializable;
    obs.ran = true;
    obs.prover_bytes = pr.to_bytes();
    obs.verifier_bytes = ve.to_bytes();
    let mut rng = ScriptedRng::base(seed(), 31);
    match std::panic::catch_unwind(std::panic::AssertUnwindSafe(|| pr.prove(&mut rng, prog))) {
        Err(e) => obs.prove_err = Some(format!("panic: {}", crate::par::panic_msg(e))),
        Ok(Err(e)) => obs.prove_err = Some(format!("{:?}", e)),
        Ok(Ok((proof, pis))) => {
            obs.proof = proof.to_bytes().to_vec();
            obs.pis = pis.clone();
            match std::panic::catch_unwind(std::panic::AssertUnwindSafe(|| ve.verify(&proof, &pis))) {
                Err(e) => obs.verify_err = Some(format!("panic: {}", crate::par::panic_msg(e))),
                Ok(Err(e)) => obs.verify_err = Some(format!("{:?}", e)),
                Ok(Ok(())) => {}
            }
        }
    }
}

/// Push a circuit through the three routes against `pp`.
pub fn pipeline(prog: &Prog, pp: &PublicParameters, label: &[u8], routes: (bool, bool, bool)) -> Obs {
    let mut obs = Obs {
        snap: None,
        build_err: None,
        model_sat: false,
        constraints: 0,
        layout: 0,
        direct: RouteObs::default(),
        compressed: RouteObs::default(),
        serialized: RouteObs::default(),
        compress_err: None,
        compressed_len: 0,
    };
    match std::panic::catch_unwind(std::panic::AssertUnwindSafe(|| prog.run())) {
        Err(e) => {
            obs.build_err = Some(format!("panic: {}", crate::par::panic_msg(e)));
            return obs;
        }
        Ok(Err(e)) => {
            obs.build_err = Some(format!("{:?}", e));
            return obs;
        }
        Ok(Ok(s)) => {
            obs.model_sat = m1::decide_self(&s).satisfied();
            obs.constraints = s.gates.len();
            obs.layout = m1::layout_key(&s);
            obs.snap = Some(s);
        }
    }
    // direct
    let direct = std::panic::catch_unwind(std::panic::AssertUnwindSafe(|| Compiler::compile_with_circuit(pp, label, prog)));
    let keys = match direct {
        Err(e) => {
            obs.direct.compile_err = Some(format!("panic: {}", crate::par::panic_msg(e)));
            None
        }
        Ok(Err(e)) => {
            obs.direct.compile_err = Some(format!("{:?}", e));
            None
        }
        Ok(Ok(k)) => Some(k),
    };
    if let Some((pr, ve)) = &keys {
        if routes.0 {
            prove_verify(pr, ve, prog, &mut obs.direct);
        } else {
            obs.direct.prover_bytes = pr.to_bytes();
            obs.direct.verifier_bytes = ve.to_bytes();
        }
    }
    // compressed
    if routes.1 {
        prog.install_default();
        match std::panic::catch_unwind(|| Prog::compress()) {
            Err(e) => obs.compress_err = Some(format!("panic: {}", crate::par::panic_msg(e))),
            Ok(Err(e)) => obs.compress_err = Some(format!("{:?}", e)),
            Ok(Ok(bytes)) => {
                obs.compressed_len = bytes.len();
                match std::panic::catch_unwind(std::panic::AssertUnwindSafe(|| Compiler::compile_with_compressed(pp, label, &bytes))) {
                    Err(e) => obs.compressed.compile_err = Some(format!("panic: {}", crate::par::panic_msg(e))),
                    Ok(Err(e)) => obs.compressed.compile_err = Some(format!("{:?}", e)),
                    Ok(Ok((pr, ve))) => prove_verify(&pr, &ve, prog, &mut obs.compressed),
                }
            }
        }
    }
    // serialized
    if routes.2 {
        if let Some((pr, ve)) = &keys {
            let pb = pr.to_bytes();
            let vb = ve.to_bytes();
            let r = std::panic::catch_unwind(|| (Prover::try_from_bytes(&pb), Verifier::try_from_bytes(&vb)));
            match r {
                Err(e) => obs.serialized.compile_err = Some(format!("panic: {}", crate::par::panic_msg(e))),
                Ok((Ok(p2), Ok(v2))) => prove_verify(&p2, &v2, prog, &mut obs.serialized),
                Ok((a, b)) => obs.serialized.compile_err = Some(format!("decode: prover {:?} verifier {:?}", a.err(), b.err())),
            }
        }
    }
    obs
}

/// Minimal `setup` degree admitting `constraints`, i.e. pp.max_degree() - 6.
pub fn min_degree(constraints: usize) -> usize {
    (constraints + 6).next_power_of_two()
}


/// Transcript labels of boundary lengths and byte contents (the label is stored in
/// a serialized prover behind a length field and absorbed into every transcript).
pub fn label_menu(tier: crate::ev::Tier) -> Vec<(String, Vec<u8>)> {
    let lens: Vec<usize> = tier.pick(vec![0, 1, 7, 8, 9, 32, 63, 64, 65, 255, 256, 257, 4096, 65535, 65536], vec![0, 1, 2, 7, 8, 9, 15, 16, 17, 31, 32, 33, 47, 48, 63, 64, 65, 127, 128, 129, 255, 256, 257, 1023, 1024, 4096, 65535, 65536, 65537, 1 << 20]);
    let mut out = vec![];
    for len in lens {
        for pat in ["text", "zeros", "ff"] {
            if len == 0 && pat != "text" {
                continue;
            }
            if len > 300 && pat != "text" && tier == crate::ev::Tier::Quick {
                continue;
            }
            let bytes: Vec<u8> = match pat {
                "text" => {
                    let base: &[u8] = b"dusk-network/plonk label \x00\xff";
                    (0..len).map(|i| base[i % base.len()] ^ ((i / base.len()) as u8)).collect()
                }
                "zeros" => vec![0u8; len],
                _ => vec![0xffu8; len],
            };
            out.push((format!("label/{}-{}", len, pat), bytes));
        }
    }
    out
}

/// Label used for a named case: the menu entry for `label/...` names, otherwise
/// empty or a short fixed label by name parity.
pub fn label_of(name: &str, tier: crate::ev::Tier, fixed: &[u8]) -> Vec<u8> {
    if name.starts_with("label/") {
        if let Some((_, b)) = label_menu(tier).into_iter().find(|(n, _)| n == name) {
            return b;
        }
    }
    if name.len() % 2 == 0 {
        vec![]
    } else {
        fixed.to_vec()
    }
}
