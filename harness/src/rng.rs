//! Scripted RNG: every draw is chosen by the harness and every call logged.

use rand_core::{CryptoRng, RngCore};

use crate::fe::Fe;

#[derive(Clone, Debug, PartialEq, Eq)]
pub enum Call {
    FillBytes(usize),
    NextU32,
    NextU64,
    TryFill(usize),
    /// a `try_fill_bytes` call the scripted entropy source refused (no draw consumed)
    TryFillErr(usize),
}

pub struct ScriptedRng {
    pub draws: Vec<Fe>,
    pub pos: usize,
    pub calls: Vec<Call>,
    /// what to produce when the script is exhausted
    pub fallback: Fe,
    /// entropy outages: `(draw position, n)` = the next n `try_fill_bytes` calls made
    /// while `pos` is at that position return an error; `fill_bytes` (the blocking
    /// interface) always succeeds
    pub faults: Vec<(usize, usize)>,
}

impl ScriptedRng {
    pub fn new(draws: Vec<Fe>) -> Self {
        ScriptedRng { draws, pos: 0, calls: vec![], fallback: crate::fe::fe(0xdead_beef), faults: vec![] }
    }
    /// 14 distinct non-zero draws derived from a seed.
    pub fn base(seed: u64, stream: u64) -> Self {
        let mut rho = crate::fe::Rho::new(seed, 1000 + stream);
        Self::new((0..14).map(|_| rho.next_fe()).collect())
    }
}

impl RngCore for ScriptedRng {
    fn next_u32(&mut self) -> u32 {
        self.calls.push(Call::NextU32);
        0x1234_5678
    }
    fn next_u64(&mut self) -> u64 {
        self.calls.push(Call::NextU64);
        0x1234_5678_9abc_def0
    }
    fn fill_bytes(&mut self, dest: &mut [u8]) {
        self.calls.push(Call::FillBytes(dest.len()));
        let v = if self.pos < self.draws.len() { self.draws[self.pos] } else { self.fallback };
        self.pos += 1;
        for b in dest.iter_mut() {
            *b = 0;
        }
        let bytes = v.to_bytes();
        let n = dest.len().min(32);
        dest[..n].copy_from_slice(&bytes[..n]);
    }
    fn try_fill_bytes(&mut self, dest: &mut [u8]) -> Result<(), rand_core::Error> {
        let pos = self.pos;
        if let Some(f) = self.faults.iter_mut().find(|(p, n)| *p == pos && *n > 0) {
            f.1 -= 1;
            self.calls.push(Call::TryFillErr(dest.len()));
            return Err(rand_core::Error::from(core::num::NonZeroU32::new(rand_core::Error::CUSTOM_START + 7).unwrap()));
        }
        self.calls.push(Call::TryFill(dest.len()));
        self.fill_bytes(dest);
        self.calls.pop();
        Ok(())
    }
}
impl CryptoRng for ScriptedRng {}

/// Simple deterministic RNG for `PublicParameters::setup`.
pub struct SeedRng(pub crate::fe::Rho);
impl RngCore for SeedRng {
    fn next_u32(&mut self) -> u32 {
        self.0.next_u64() as u32
    }
    fn next_u64(&mut self) -> u64 {
        self.0.next_u64()
    }
    fn fill_bytes(&mut self, dest: &mut [u8]) {
        for chunk in dest.chunks_mut(8) {
            let v = self.0.next_u64().to_le_bytes();
            chunk.copy_from_slice(&v[..chunk.len()]);
        }
    }
    fn try_fill_bytes(&mut self, dest: &mut [u8]) -> Result<(), rand_core::Error> {
        self.fill_bytes(dest);
        Ok(())
    }
}
impl CryptoRng for SeedRng {}
