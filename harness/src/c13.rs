//! C13 — subgroup boundary: only prime-order subgroup points are admitted.

use dusk_jubjub::{JubJubExtended, GENERATOR_EXTENDED, GENERATOR_NUMS_EXTENDED};
use dusk_plonk::prelude::*;
use serde_json::json;

use crate::e2::Gadget;
use crate::ev::{Run, Tier};
use crate::fe::*;
use crate::gadget::*;
use crate::m5::{self, Pt};
use crate::prog::Prog;

fn subgroup_points(tier: Tier) -> Vec<(String, Pt)> {
    let g = Pt::from_jubjub(GENERATOR_EXTENDED);
    let gn = Pt::from_jubjub(GENERATOR_NUMS_EXTENDED);
    let rho = U320::from_fe(&m5::low_bits(&Rho::new(seed(), 1313).next_fe(), 250));
    let mut v = vec![
        ("O".to_string(), Pt::identity()),
        ("G".to_string(), g),
        ("2G".to_string(), g.double().unwrap()),
        ("-G".to_string(), g.neg()),
        ("rhoG".to_string(), g.mul(&rho).unwrap()),
    ];
    if tier == Tier::Thorough {
        v.push(("Gnums".to_string(), gn));
        v.push(("7Gnums".to_string(), gn.mul(&U320::from_u64(7)).unwrap()));
    }
    v
}

fn offcurve_points() -> Vec<(String, Pt)> {
    let g = Pt::from_jubjub(GENERATOR_EXTENDED);
    let v = vec![
        ("(0,0)".to_string(), Pt { x: zero(), y: zero() }),
        ("(1,1)".to_string(), Pt { x: one(), y: one() }),
        ("(Gx,Gy+1)".to_string(), Pt { x: g.x, y: g.y + one() }),
        ("(Gx+1,Gy)".to_string(), Pt { x: g.x + one(), y: g.y }),
        ("(0,-1)x2".to_string(), Pt { x: zero(), y: fe(2) }),
        ("(2,3)".to_string(), Pt { x: fe(2), y: fe(3) }),
        // neighbours of a member that share one coordinate (or its parity) with it
        ("(Gx+2,Gy)".to_string(), Pt { x: g.x + fe(2), y: g.y }),
        ("(Gx,Gy+2)".to_string(), Pt { x: g.x, y: g.y + fe(2) }),
        ("(Gx+2,Gy+2)".to_string(), Pt { x: g.x + fe(2), y: g.y + fe(2) }),
        ("(2,1)".to_string(), Pt { x: fe(2), y: one() }),
        ("(0,3)".to_string(), Pt { x: zero(), y: fe(3) }),
    ];
    v.into_iter().filter(|(_, p)| !p.on_curve()).collect()
}

/// candidate points P: subgroup points, every torsion coset, off-curve pairs
fn candidates(tier: Tier) -> Vec<(String, Pt)> {
    let tors = m5::torsion_points();
    let mut out = vec![];
    let subs = subgroup_points(tier);
    for (n, s) in &subs {
        out.push((n.clone(), *s));
    }
    let coset_bases = tier.pick(2usize, subs.len());
    for (n, s) in subs.iter().take(coset_bases) {
        for (i, t) in tors.iter().enumerate().skip(1) {
            out.push((format!("{}+T{}", n, i), s.add(t).unwrap()));
        }
    }
    out.extend(offcurve_points());
    out
}

/// auxiliary points Q a prover may choose for P
fn aux_points(p: &Pt, tier: Tier) -> Vec<(String, Pt)> {
    let tors = m5::torsion_points();
    let mut out = vec![];
    if p.on_curve() {
        // [8^-1 mod r_J] P and all its torsion translates: the complete set of
        // on-curve preimages of the subgroup component of P under [8]
        let q0 = p.mul(&m5::eight_inv()).unwrap();
        for (i, t) in tors.iter().enumerate() {
            out.push((format!("8inv*P+T{}", i), q0.add(t).unwrap()));
        }
        out.push(("P".to_string(), *p));
    }
    out.push(("O".to_string(), Pt::identity()));
    let g = Pt::from_jubjub(GENERATOR_EXTENDED);
    out.push(("G".to_string(), g));
    for (n, q) in offcurve_points().into_iter().take(tier.pick(3, 6)) {
        out.push((n, q));
    }
    // off-curve Q that would still make the doubling chain land on P when P is simple
    out.push(("(Px,Py)+(1,0)".to_string(), Pt { x: p.x + one(), y: p.y }));
    out
}

fn eight_times(q: &Pt) -> Option<Pt> {
    q.double()?.double()?.double()
}

pub fn cases(tier: Tier) -> Vec<GCase> {
    let mut out = vec![];
    // the typed point an entry point hands back must BE the admitted point: every
    // deviation of the coordinates it allocated has to be unsatisfiable (the native
    // verdict is carried into the circuit by the constant / public-input rows), also
    // when the point then flows into a component that relies on its type
    for (pn, p) in subgroup_points(tier).into_iter().chain([("O".to_string(), Pt::identity())]) {
        let ext = JubJubExtended::from_raw_unchecked(p.x, p.y, one(), p.x, p.y);
        let g = Gadget::new(&format!("append_constant_point/{}", pn), vec![], move |c, _| {
            let w = c.append_constant_point(ext)?;
            Ok(vec![*w.x(), *w.y()])
        });
        let mut c = GCase::new(g, Expect::Sat(vec![p.x, p.y]), "entry/append_constant_point/binding");
        c.bound2 = true;
        out.push(c);
        let g = Gadget::new(&format!("append_public_point/{}", pn), vec![], move |c, _| {
            let w = c.append_public_point(ext)?;
            Ok(vec![*w.x(), *w.y()])
        });
        let mut c = GCase::new(g, Expect::Sat(vec![p.x, p.y]), "entry/append_public_point/binding");
        c.bound2 = true;
        out.push(c);
        let g = Gadget::new(&format!("append_constant_point+neg_point/{}", pn), vec![], move |c, _| {
            let w = c.append_constant_point(ext)?;
            let r = c.component_neg_point(w);
            Ok(vec![*r.x(), *r.y()])
        });
        let mut c = GCase::new(g, Expect::Sat(vec![-p.x, p.y]), "entry/append_constant_point/binding");
        c.bound2 = true;
        out.push(c);
    }
    for (pn, p) in candidates(tier) {
        let member = p.in_subgroup();
        // honest entry point
        let g = Gadget::new(&format!("assert_torsion_free_point/{}", pn), vec![p.x, p.y], |c, ins| {
            let pt = c.verif_point(ins[0], ins[1]);
            c.assert_torsion_free_point(pt);
            Ok(vec![])
        });
        let mut c = GCase::new(g, if member { Expect::Sat(vec![]) } else { Expect::Unsat }, if member { "torsion-free/member" } else { "torsion-free/non-member" });
        c.bound2 = tier == Tier::Thorough && !member;
        c.rewire = member;
        out.push(c);
        // prover-chosen auxiliary point
        for (qn, q) in aux_points(&p, tier) {
            let valid_q = q.on_curve() && eight_times(&q) == Some(p);
            let (qu, qv) = (q.x, q.y);
            let g = Gadget::new(&format!("torsion_free_gates/{}/Q={}", pn, qn), vec![p.x, p.y], move |c, ins| {
                let pt = c.verif_point(ins[0], ins[1]);
                c.verif_assert_torsion_free_gates(pt, qu, qv);
                Ok(vec![])
            });
            let (e, class) = if !member {
                (Expect::Unsat, "torsion-free-gates/non-member")
            } else if valid_q {
                (Expect::Sat(vec![]), "torsion-free-gates/member/valid-Q")
            } else {
                (Expect::UnsatHonest, "torsion-free-gates/member/invalid-Q")
            };
            let mut c = GCase::new(g, e, class);
            c.confirm = tier == Tier::Thorough || qn.starts_with("8inv") || qn == "O";
            out.push(c);
        }
    }
    out
}

#[derive(Clone)]
struct Rep {
    name: String,
    ext: JubJubExtended,
    /// Z != 0
    representable: bool,
    /// T1*T2*Z == U*V
    consistent: bool,
    affine: Option<Pt>,
}

fn representations(pn: &str, p: &Pt) -> Vec<Rep> {
    let mut out = vec![];
    let mk = |name: &str, u: Fe, v: Fe, z: Fe, t1: Fe, t2: Fe| {
        let representable = z != zero();
        let affine = if representable { Some(Pt { x: u * inv(z), y: v * inv(z) }) } else { None };
        Rep { name: format!("{}/{}", pn, name), ext: JubJubExtended::from_raw_unchecked(u, v, z, t1, t2), representable, consistent: t1 * t2 * z == u * v, affine }
    };
    out.push(mk("affine-normal", p.x, p.y, one(), p.x, p.y));
    let z = fe(7);
    out.push(mk("scaled-Z", p.x * z, p.y * z, z, p.x, p.y * z));
    out.push(mk("Z=0", p.x, p.y, zero(), p.x, p.y));
    out.push(mk("Z=0,all-zero", zero(), zero(), zero(), zero(), zero()));
    out.push(mk("inconsistent-T", p.x, p.y, one(), p.x + one(), p.y));
    out
}

fn direct_entry_points(run: &mut Run, tier: Tier, only: Option<(&str, &str, &str)>) {
    let mut reps = vec![];
    for (pn, p) in candidates(tier) {
        reps.extend(representations(&pn, &p));
    }
    let mut n_z0 = 0;
    // histories: sequences of VALID earlier calls on the same composer; the verdict on
    // the next point must not depend on them
    let gen = GENERATOR_EXTENDED;
    let idn = JubJubExtended::from_raw_unchecked(zero(), one(), one(), zero(), one());
    let two_g = gen + gen;
    let mut histories: Vec<(String, Vec<(bool, JubJubExtended)>)> = vec![
        ("".into(), vec![]),
        ("constant(identity)".into(), vec![(true, idn)]),
        ("constant(G)".into(), vec![(true, gen)]),
        ("generator(G)".into(), vec![(false, gen)]),
        ("constant(identity),generator(G)".into(), vec![(true, idn), (false, gen)]),
    ];
    if tier == Tier::Thorough {
        histories.push(("constant(2G)".into(), vec![(true, two_g)]));
        histories.push(("generator(2G),constant(G)".into(), vec![(false, two_g), (true, gen)]));
        histories.push(("constant(-G)".into(), vec![(true, -gen)]));
    }
    let hsuffix = |h: &str| if h.is_empty() { String::new() } else { "/after-history".to_string() };
    for r in &reps {
        let member = r.affine.map(|a| a.in_subgroup()).unwrap_or(false);
        let prime_order = member && r.affine != Some(Pt::identity());
        if !r.representable {
            n_z0 += 1;
        }
        type Call = Box<dyn Fn(&mut Composer, JubJubExtended) -> Result<Option<(Fe, Fe)>, Error>>;
        let calls: Vec<(&str, Call)> = vec![
            ("append_point", Box::new(|c, e| c.append_point(e).map(|w| Some((c[*w.x()], c[*w.y()]))))),
            ("append_public_point", Box::new(|c, e| c.append_public_point(e).map(|w| Some((c[*w.x()], c[*w.y()]))))),
            ("append_constant_point", Box::new(|c, e| c.append_constant_point(e).map(|w| Some((c[*w.x()], c[*w.y()]))))),
            (
                "assert_equal_public_point",
                Box::new(|c, e| {
                    let w = c.append_point(JubJubExtended::from(dusk_jubjub::GENERATOR))?;
                    c.assert_equal_public_point(w, e).map(|_| None)
                }),
            ),
            (
                "component_mul_generator",
                Box::new(|c, e| {
                    let s = c.append_witness(fe(1));
                    c.component_mul_generator(s, e).map(|w| Some((c[*w.x()], c[*w.y()])))
                }),
            ),
        ];
        for (name, call) in &calls {
          let name = *name;
          for (hname, hist) in &histories {
            if let Some((e, rp, h)) = only {
                if e != name || rp != r.name || h != hname {
                    continue;
                }
            }
            run.transitions += 1;
            run.evaluations += 1;
            run.traces_validated += 1;
            let ext = r.ext;
            let res = std::panic::catch_unwind(std::panic::AssertUnwindSafe(|| {
                let mut c = Composer::initialized();
                // a non-initial composer: valid points went through the entry points before
                for (constant, hp) in hist {
                    if *constant {
                        c.append_constant_point(*hp).expect("history: valid constant point");
                    } else {
                        let s = c.append_witness(fe(3));
                        c.component_mul_generator(s, *hp).expect("history: valid generator");
                    }
                }
                call(&mut c, ext)
            }));
            let case = json!({"entry": name, "representation": r.name, "history": hname});
            run.nontrivial(fnv(format!("{}{}{}", name, r.name, hname).as_bytes()));
            run.outcome(if hist.is_empty() { "entry:fresh-composer" } else { "entry:after-history" });
            let rep_class = r.name.rsplit('/').next().unwrap_or("").to_string();
            match res {
                Err(p) => {
                    run.outcome(&format!("{}:panic", name));
                    run.violation(&format!("entry/{}/panic/{}{}", name, rep_class, hsuffix(hname)), &format!("{} panicked on {}: {}", name, r.name, crate::par::panic_msg(p)), case);
                }
                Ok(res) => {
                    let ok = res.is_ok();
                    run.outcome(&format!("{}:{}", name, if ok { "ok" } else { "err" }));
                    let must: Option<bool> = if !r.representable {
                        Some(false)
                    } else {
                        match name {
                            "append_constant_point" => {
                                if !member {
                                    Some(false)
                                } else if r.consistent {
                                    Some(true)
                                } else {
                                    None
                                }
                            }
                            "component_mul_generator" => {
                                if !prime_order {
                                    Some(false)
                                } else if r.consistent {
                                    Some(true)
                                } else {
                                    None
                                }
                            }
                            _ => Some(true),
                        }
                    };
                    if let Some(m) = must {
                        if m != ok {
                            run.violation(
                                &format!("entry/{}/{}/{}{}", name, if ok { "accepted" } else { "rejected" }, rep_class, hsuffix(hname)),
                                &format!("{} {} {} (member={}, representable={}, consistent={}) after history [{}]: {:?}", name, if ok { "accepted" } else { "rejected" }, r.name, member, r.representable, r.consistent, hname, res.as_ref().err()),
                                case.clone(),
                            );
                        }
                    }
                    // accepted points must be allocated with the affine image
                    if let (Ok(Some((x, y))), Some(a)) = (&res, &r.affine) {
                        if name != "component_mul_generator" && (*x != a.x || *y != a.y) {
                            run.violation(&format!("entry/{}/wrong-coordinates", name), &format!("{} allocated ({}, {}) for {}", name, hex(x), hex(y), r.name), case);
                        }
                    }
                }
            }
          }
        }
    }
    run.gate("zero-Z representations exercised", n_z0 > 0 || only.is_some());
    let _ = Prog::new(|_| Ok(()));
}

pub fn main(tier: Tier, replay: Option<serde_json::Value>) -> i32 {
    let mut run = Run::new("C13", tier, "model_checking");
    run.rule = "P over subgroup points, every torsion coset S + T (T in E[8] \\ {O}: orders 2, 4, 8) and off-curve pairs; Q over the complete on-curve preimage set [8^-1]P + T' (all 8 T'), other on-curve points and off-curve pairs; every (P, Q) through the real torsion-free gates (seam) plus bound-1 deviations, decided by M1; oracle: satisfiable iff Q on-curve and [8]Q = P (own affine Edwards arithmetic), hence for some Q iff P is an on-curve subgroup member; the direct entry points over extended representations (normal, scaled Z, Z = 0, inconsistent T1 T2) must accept exactly members (generator: and non-identity) and reject Z = 0 without panicking; entry points run on a fresh composer AND after every history of valid earlier calls (constant identity / G, generator G, combinations); candidates include off-curve neighbours sharing a coordinate with a member".into();
    let cs = cases(tier);
    let cache = ConfirmCache::new(crate::setup::pp(64));
    if let Some(r) = replay {
        if let Some(e) = r["case"]["entry"].as_str() {
            run.set_replay_mode();
            let before = run.transitions;
            direct_entry_points(&mut run, Tier::Thorough, Some((e, r["case"]["representation"].as_str().unwrap_or(""), r["case"]["history"].as_str().unwrap_or(""))));
            if run.transitions == before {
                run.machinery("replay: entry-point case not in the enumeration".into());
            }
            println!("replay: {} entry-point case(s) re-run, {} violations", run.transitions - before, run.violations);
            return run.finish();
        }
        return crate::gadget::replay(run, &cs, &cache, &r);
    }
    let tors = m5::torsion_points();
    run.gate("8 torsion points of orders 1,2,4,4,8,8,8,8", tors.len() == 8 && tors.iter().all(|t| t.on_curve()));
    let names: Vec<String> = cs.iter().map(|c| c.g.name.clone()).collect();
    let reps = crate::par::par_map(&cs, |c| run_case(c, &cache));
    absorb(&mut run, reps, &names);
    direct_entry_points(&mut run, tier, None);
    run.gate("members and non-members explored", run.count("honest:sat") > 0 && run.count("honest:unsat") > 0);
    run.assumptions = vec![
        "M1 row model (bound to the prover by C05) decides satisfiability".into(),
        "own affine twisted-Edwards arithmetic (M5) states the group law and subgroup membership".into(),
        "P and Q range over the listed structural classes, not all field pairs".into(),
    ];
    run.finish()
}
