//! Script-driven circuits: a `Prog` is a closure over the composer plus
//! post-hoc witness overrides; it records a snapshot of every run.

use std::cell::RefCell;
use std::sync::Arc;

use dusk_plonk::prelude::*;
use dusk_plonk::verif::Snapshot;

use crate::fe::Fe;

pub type BuildFn = Arc<dyn Fn(&mut Composer) -> Result<(), Error> + Send + Sync>;

#[derive(Clone)]
pub struct Prog {
    pub build: BuildFn,
    /// post-hoc overrides applied after `build` (witness index, value)
    pub overrides: Vec<(usize, Fe)>,
    /// append-time script (allocation ordinal, value)
    pub script: Vec<(usize, Fe)>,
    pub snap: RefCell<Option<Snapshot>>,
}

unsafe impl Sync for Prog {}

thread_local! {
    static DEFAULT_PROG: RefCell<Option<Prog>> = const { RefCell::new(None) };
}

impl Prog {
    pub fn new<F>(f: F) -> Self
    where
        F: Fn(&mut Composer) -> Result<(), Error> + Send + Sync + 'static,
    {
        Prog { build: Arc::new(f), overrides: vec![], script: vec![], snap: RefCell::new(None) }
    }
    pub fn with_overrides(&self, o: Vec<(usize, Fe)>) -> Self {
        Prog { build: self.build.clone(), overrides: o, script: self.script.clone(), snap: RefCell::new(None) }
    }
    pub fn with_script(&self, s: Vec<(usize, Fe)>) -> Self {
        Prog { build: self.build.clone(), overrides: self.overrides.clone(), script: s, snap: RefCell::new(None) }
    }
    /// Run the builder on a fresh initialized composer and return the snapshot
    /// (or the component error).
    pub fn run(&self) -> Result<Snapshot, Error> {
        // the script may target the composer's own initial allocations
        self.install_script();
        let mut c = Composer::initialized();
        self.circuit(&mut c)?;
        Ok(self.snap.borrow().clone().expect("snapshot recorded"))
    }
    /// Install this program's append-time script on the current thread now
    /// (before a caller such as `Prover::prove` creates its composer, so that
    /// the initial allocations are covered too). `circuit()` clears it again.
    pub fn install_script(&self) {
        if !self.script.is_empty() {
            dusk_plonk::verif::set_witness_script(&self.script);
        }
    }
    pub fn last_snapshot(&self) -> Option<Snapshot> {
        self.snap.borrow().clone()
    }
    /// Make this program the thread's `Default` (needed by `Circuit::compress`
    /// and `Compiler::compile::<Prog>`).
    pub fn install_default(&self) {
        DEFAULT_PROG.with(|d| *d.borrow_mut() = Some(self.clone()));
    }
}

impl Default for Prog {
    fn default() -> Self {
        DEFAULT_PROG.with(|d| d.borrow().clone()).expect("default prog installed")
    }
}

impl Circuit for Prog {
    fn circuit(&self, c: &mut Composer) -> Result<(), Error> {
        if !self.script.is_empty() {
            dusk_plonk::verif::set_witness_script(&self.script);
        }
        let r = (self.build)(c);
        if !self.script.is_empty() {
            dusk_plonk::verif::set_witness_script(&[]);
        }
        r?;
        for (i, v) in &self.overrides {
            let w = c.verif_witness(*i);
            c.verif_set_witness(w, *v);
        }
        *self.snap.borrow_mut() = Some(c.verif_snapshot());
        Ok(())
    }
}
