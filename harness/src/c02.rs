//! C02 — soundness: an adversary menu (forced honest algorithm, reference
//! adversarial prover M3, broken copy constraints, solved-for forged
//! evaluations, splices, degenerate proofs) is presented to the real verifier
//! under every version; nothing but the controls may be accepted.

use std::collections::{BTreeMap, BTreeSet, HashMap};
use std::panic::{catch_unwind, AssertUnwindSafe};
use std::sync::{Arc, Mutex};

use dusk_bls12_381::G1Affine;
use dusk_bytes::Serializable;
use dusk_plonk::prelude::*;
use serde_json::{json, Value};

use crate::c03::{self, pv, to_hex, Circ};
use crate::c05::{family_assignment, merged_row, solve_pis, Fam};
use crate::ev::{Run, Tier};
use crate::fe::*;
use crate::m1;
use crate::m2::{self, Version};
use crate::m3::{self, Adversary, Instance, ProverData, Stage};
use crate::prog::Prog;
use crate::rows::{self, Assign, Layout, Place, RowSpec};

const LABEL: &[u8] = b"c02";
pub const VERSIONS: [Version; 3] = [Version::V1, Version::V2, Version::V3];
pub const SELECTOR_SLOTS: [usize; 4] = [m3::E_QARITH, m3::E_QC, m3::E_QL, m3::E_QR];

// ---------------------------------------------------------------------------
// base circuits
// ---------------------------------------------------------------------------

#[derive(Clone)]
pub enum Source {
    /// raw rows; the satisfying assignments (>= 1)
    Rows(Layout, Vec<Assign>),
    /// public components; instances differ by post-hoc witness overrides
    Comp(Prog),
}

pub struct Base {
    pub name: String,
    pub family: &'static str,
    pub source: Source,
    pub circ: Circ,
    pub pd: Arc<ProverData>,
    pub model: m1::Model,
}

/// How an instance of a base circuit is built.
#[derive(Clone, Debug)]
pub enum Inst {
    Rows(Assign),
    Over(Vec<(usize, Fe)>),
}

impl Base {
    pub fn prog(&self, inst: &Inst) -> Prog {
        match (&self.source, inst) {
            (Source::Rows(lay, _), Inst::Rows(a)) => rows::prog(lay, a),
            (Source::Comp(p), Inst::Over(o)) => p.with_overrides(o.clone()),
            _ => panic!("instance kind does not match the base circuit"),
        }
    }
    pub fn honest(&self, variant: usize) -> Inst {
        match &self.source {
            Source::Rows(_, asgs) => Inst::Rows(asgs[variant % asgs.len()].clone()),
            Source::Comp(_) => Inst::Over(vec![]),
        }
    }
}

fn two_rows(f: Fam) -> (Layout, Vec<Assign>) {
    let lay = Layout { rows: vec![merged_row(&[f]), RowSpec::zero()], share: vec![], place: Place::First };
    let asgs = (1..3)
        .map(|v| {
            let (c, n) = family_assignment(f, v);
            Assign::new(vec![c, n], vec![zero(); 2])
        })
        .collect();
    (lay, asgs)
}

fn base_sources() -> Vec<(&'static str, &'static str, Source)> {
    let mut v: Vec<(&'static str, &'static str, Source)> = Vec::new();
    // arithmetic, two public inputs
    {
        let lay = Layout { rows: vec![merged_row(&[Fam::Arith]), merged_row(&[Fam::Arith])], share: vec![], place: Place::First };
        let mut asgs = vec![];
        for k in 0..2u64 {
            let mut a = Assign::new(vec![[fe(2 + k), fe(3), fe(5), fe(7)], [fe(11), fe(13), fe(17 + k), fe(19)]], vec![zero(); 2]);
            solve_pis(&lay, &mut a);
            asgs.push(a);
        }
        v.push(("arith2pi", "arith", Source::Rows(lay, asgs)));
    }
    for (name, fam, f) in [("range", "range", Fam::Range), ("fixed", "fixed", Fam::Fixed), ("var", "var", Fam::Var)] {
        let (lay, asgs) = two_rows(f);
        v.push((name, fam, Source::Rows(lay, asgs)));
    }
    // logic: AND and XOR rows
    {
        let lay = Layout { rows: vec![merged_row(&[Fam::And]), RowSpec::zero(), merged_row(&[Fam::Xor]), RowSpec::zero()], share: vec![], place: Place::First };
        let asgs = (1..3)
            .map(|k| {
                let (c1, n1) = family_assignment(Fam::And, k);
                let (c2, n2) = family_assignment(Fam::Xor, k + 1);
                Assign::new(vec![c1, n1, c2, n2], vec![zero(); 4])
            })
            .collect();
        v.push(("logic", "logic", Source::Rows(lay, asgs)));
    }
    // all families + arithmetic/PI rows, last row of a full domain active
    {
        let (lay, asgs) = m3::circuits::mixed_layout(16);
        v.push(("mixed16", "mixed", Source::Rows(lay, asgs)));
    }
    // arithmetic rows sharing a witness (copy constraint on active rows)
    {
        let lay = Layout {
            rows: vec![merged_row(&[Fam::Arith]), merged_row(&[Fam::Arith])],
            share: vec![vec![(0, 0), (1, 0)], vec![(0, 2), (1, 1)], vec![(0, 3), (1, 3)]],
            place: Place::First,
        };
        let mut a = Assign::new(vec![[fe(4), fe(3), fe(5), fe(7)], [fe(4), fe(5), fe(17), fe(7)]], vec![zero(); 2]);
        solve_pis(&lay, &mut a);
        v.push(("copyarith", "copy", Source::Rows(lay, vec![a])));
    }
    // public components
    v.push((
        "components",
        "components",
        Source::Comp(Prog::new(|c| {
            let x = c.append_witness(fe(0xa7));
            c.component_range_bits::<8>(x);
            let b = c.append_witness(fe(1));
            c.component_boolean(b);
            let y = c.append_witness(fe(9));
            let s = c.component_select(b, x, y);
            c.assert_equal_constant(s, fe(0), Some(fe(0xa7)));
            Ok(())
        })),
    ));
    v
}

fn make_base(name: &str, family: &'static str, source: Source) -> Result<Base, String> {
    let prog = match &source {
        Source::Rows(lay, asgs) => rows::prog(lay, &asgs[0]),
        Source::Comp(p) => p.with_overrides(vec![]),
    };
    let circ = c03::compile(name, &prog, LABEL)?;
    let pd = m3::parse_prover(&circ.prover.to_bytes()).map_err(|e| format!("{}: M3 cannot parse the prover: {}", name, e))?;
    if pd.size > 64 && !name.starts_with("c05long") {
        return Err(format!("{}: n = {} exceeds M3's bound", name, pd.size));
    }
    let model = m1::Model::new(&circ.snap);
    Ok(Base { name: name.to_string(), family, source, circ, pd: Arc::new(pd), model })
}

// ---------------------------------------------------------------------------
// items
// ---------------------------------------------------------------------------

#[derive(Clone, Debug)]
pub enum Work {
    /// honest proofs (V2, V3 real prover; V1-shaped through M3): must be accepted
    Control,
    /// real prover with the force switch (V3 and V2 proofs)
    Forced(Inst),
    /// M3 with the remainder dropped
    M3Drop(Inst),
    /// M3 on a violating instance, evaluation `slot` solved so that the
    /// linearisation balances; all opening shapes
    Forge(Inst, usize),
    /// splices of two honest proofs; pair 0: same witness, two RNG scripts;
    /// pair 1: two witnesses
    Splice(usize, Version),
    Degenerate,
    /// S7: M3 betting that z_comm is not absorbed: z(X) is solved row by row
    /// *after* alpha is known so that the whole quotient identity holds on the
    /// domain although a gate (or copy constraint) is violated
    AdaptiveZ(Inst),
    /// S8: the adversary bets that `u` (the only challenge the prover never
    /// uses) does not depend on the opening witnesses and solves W_z, W_zw after
    /// everything else is fixed - on a forced proof of a violated instance, on
    /// an honest proof presented with wrong public inputs, and on an
    /// all-identity proof
    AdaptiveW(Inst),
}

#[derive(Clone, Debug)]
pub struct Item {
    pub name: String,
    pub strategy: &'static str,
    pub base: usize,
    pub work: Work,
}

/// Single-position perturbations of an assignment.
fn perturb_values(v: Fe) -> Vec<(&'static str, Fe)> {
    let mut out = vec![("+1", v + one()), ("-1", v - one()), ("+4", v + fe(4))];
    if v + v != v {
        out.push(("x2", v + v));
    }
    out
}

/// Candidate deviations of bound 1 (and 2) for a base; the M1 filter is applied
/// by the worker (only M1-unsatisfied instances are adversarial).
fn deviations(b: &Base, bound2: bool) -> Vec<(String, Inst)> {
    let mut out = Vec::new();
    match &b.source {
        Source::Rows(lay, asgs) => {
            let a0 = &asgs[0];
            let mut singles: Vec<(String, usize, usize, Fe)> = vec![];
            for r in 0..lay.rows.len() {
                for k in 0..4 {
                    for (pn, pv) in perturb_values(a0.vals[r][k]) {
                        let mut a = a0.clone();
                        a.vals[r][k] = pv;
                        out.push((format!("r{}w{}{}", r, k, pn), Inst::Rows(a)));
                        if pn == "+1" || pn == "-1" {
                            singles.push((format!("r{}w{}{}", r, k, pn), r, k, pv));
                        }
                    }
                }
                if lay.rows[r].has_pi {
                    let mut a = a0.clone();
                    a.pis[r] += one();
                    out.push((format!("r{}pi+1", r), Inst::Rows(a)));
                }
            }
            if bound2 {
                for i in 0..singles.len() {
                    for j in i + 1..singles.len() {
                        let (n1, r1, k1, v1) = &singles[i];
                        let (n2, r2, k2, v2) = &singles[j];
                        if (r1, k1) == (r2, k2) {
                            continue;
                        }
                        // keep the pair space bounded on layouts of more than 12 rows: same or adjacent rows
                        if lay.rows.len() > 12 && (*r1 as i64 - *r2 as i64).abs() > 1 {
                            continue;
                        }
                        let mut a = a0.clone();
                        a.vals[*r1][*k1] = *v1;
                        a.vals[*r2][*k2] = *v2;
                        out.push((format!("pair/{}/{}", n1, n2), Inst::Rows(a)));
                    }
                }
            }
        }
        Source::Comp(_) => {
            let nw = b.circ.snap.witnesses.len();
            for i in 0..nw {
                for (pn, pv) in perturb_values(b.circ.snap.witnesses[i]) {
                    out.push((format!("w{}{}", i, pn), Inst::Over(vec![(i, pv)])));
                }
            }
            if bound2 {
                for i in 0..nw {
                    for j in i + 1..nw {
                        out.push((format!("pair/w{}+1/w{}+1", i, j), Inst::Over(vec![(i, b.circ.snap.witnesses[i] + one()), (j, b.circ.snap.witnesses[j] + one())])));
                    }
                }
            }
        }
    }
    out
}

/// Instances of `copyarith` that satisfy every row but break one compiled copy
/// constraint.
fn copy_breaks(b: &Base) -> Vec<(String, Inst)> {
    let Source::Rows(lay, asgs) = &b.source else { return vec![] };
    let mut out = vec![];
    for (gi, g) in lay.share.iter().enumerate() {
        for delta in [1u64, 5] {
            let mut a = asgs[0].clone();
            // every position its own witness except the other groups
            a.share = Some(lay.share.iter().enumerate().filter(|(i, _)| *i != gi).map(|(_, g)| g.clone()).collect());
            let (r, k) = g[1];
            a.vals[r][k] += fe(delta);
            solve_pis(lay, &mut a);
            out.push((format!("group{}+{}", gi, delta), Inst::Rows(a)));
        }
    }
    out
}

pub struct World {
    pub bases: Vec<Base>,
    pub items: Vec<Item>,
}

pub fn build_world(tier: Tier) -> Result<World, String> {
    let thorough = tier == Tier::Thorough;
    let mut specs: Vec<(String, &'static str, Source)> = base_sources().into_iter().map(|(n, f, s)| (n.to_string(), f, s)).collect();
    // S3: c05's copy layouts (zero rows sharing one witness) with broken instances
    let copy_cases: Vec<crate::c05::Case> = crate::c05::enumerate(tier).into_iter().filter(|c| c.name.starts_with("copy/") && c.name.ends_with("/broken")).collect();
    // ... and the long copy class (ZERO on 1200 filler positions) split next to every
    // multiple of 1024 positions (quick: a window around the first one)
    let long_cases: Vec<crate::c05::Case> = crate::c05::enumerate(tier)
        .into_iter()
        .filter(|c| c.name.starts_with("long-class-split/filler300/from"))
        .filter(|c| {
            let from: usize = c.name.rsplit("from").next().and_then(|t| t.parse().ok()).unwrap_or(0);
            (from >= 1000 && from <= 1032) || (tier == Tier::Thorough && from % 16 == 0)
        })
        .collect();
    let mut long_index: Vec<(usize, Assign, String)> = Vec::new();
    let mut copy_index: Vec<(usize, Assign, String)> = Vec::new();
    let mut seen: HashMap<u64, usize> = HashMap::new();
    for c in &copy_cases {
        let key = c.lay.key();
        let bi = *seen.entry(key).or_insert_with(|| {
            specs.push((format!("c05copy{:016x}", key), "copy", Source::Rows(c.lay.clone(), vec![rows::zero_assign(&c.lay)])));
            specs.len() - 1
        });
        copy_index.push((bi, c.asg.clone(), c.name.clone()));
    }
    for c in &long_cases {
        let key = c.lay.key();
        let bi = *seen.entry(key).or_insert_with(|| {
            specs.push((format!("c05long{:016x}", key), "copy", Source::Rows(c.lay.clone(), vec![rows::zero_assign(&c.lay)])));
            specs.len() - 1
        });
        long_index.push((bi, c.asg.clone(), c.name.clone()));
    }
    let built = crate::par::par_map(&specs, |(n, f, s)| make_base(n, f, s.clone()));
    let mut bases = Vec::new();
    for r in built {
        bases.push(r.map_err(|p| format!("panic while compiling a base circuit: {}", p))??);
    }

    let mut items = Vec::new();
    let n_named = base_sources().len();
    for (bi, b) in bases.iter().enumerate().take(n_named) {
        items.push(Item { name: format!("control/{}", b.name), strategy: "control", base: bi, work: Work::Control });
        // S1 / S2
        if b.family != "copy" {
            for (dn, inst) in deviations(b, thorough) {
                items.push(Item { name: format!("S1/{}/{}", b.name, dn), strategy: "S1", base: bi, work: Work::Forced(inst.clone()) });
                // M3 is slower than the real prover: bound-1 "+1" deviations in quick; all
                // bound-1 deviations, and the pairs of the small circuits, in thorough
                let pair = dn.starts_with("pair/");
                let s2 = if thorough { !pair || b.pd.size <= 8 } else { !pair && dn.ends_with("+1") };
                if s2 {
                    items.push(Item { name: format!("S2/{}/{}", b.name, dn), strategy: "S2", base: bi, work: Work::M3Drop(inst) });
                }
            }
        }
        // S3 on active rows
        for (dn, inst) in copy_breaks(b) {
            if b.family == "copy" {
                items.push(Item { name: format!("S3/{}/{}/forced", b.name, dn), strategy: "S3", base: bi, work: Work::Forced(inst.clone()) });
                items.push(Item { name: format!("S3/{}/{}/m3", b.name, dn), strategy: "S3", base: bi, work: Work::M3Drop(inst) });
            }
        }
        // S4
        let s4 = match tier {
            Tier::Quick => ["arith2pi", "range", "logic", "fixed", "var", "mixed16"].contains(&b.name.as_str()),
            Tier::Thorough => b.family != "copy",
        };
        if s4 {
            if let Some((dn, inst)) = first_violation(b) {
                for slot in 0..15 {
                    items.push(Item { name: format!("S4/{}/{}/{}", b.name, dn, m3::EVAL_NAMES[slot]), strategy: "S4", base: bi, work: Work::Forge(inst.clone(), slot) });
                }
            }
        }
        // S5
        let s5 = match tier {
            Tier::Quick => ["arith2pi", "fixed"].contains(&b.name.as_str()),
            Tier::Thorough => b.family != "copy",
        };
        if s5 {
            for ver in [Version::V3, Version::V2] {
                for pair in 0..2 {
                    if pair == 1 && matches!(b.source, Source::Comp(_)) {
                        continue;
                    }
                    items.push(Item { name: format!("S5/{}/pair{}/{}", b.name, pair, ver.name()), strategy: "S5", base: bi, work: Work::Splice(pair, ver) });
                }
            }
        }
        // S7
        let s7 = match tier {
            Tier::Quick => ["arith2pi", "range", "mixed16", "copyarith"].contains(&b.name.as_str()),
            Tier::Thorough => true,
        };
        if s7 {
            let viol = if b.family == "copy" { copy_breaks(b).into_iter().next() } else { first_violation(b) };
            if let Some((dn, inst)) = viol {
                items.push(Item { name: format!("S7/{}/{}", b.name, dn), strategy: "S7", base: bi, work: Work::AdaptiveZ(inst) });
            }
        }
        // S8
        {
            let viol = if b.family == "copy" { copy_breaks(b).into_iter().next() } else { first_violation(b) };
            if let Some((dn, inst)) = viol {
                items.push(Item { name: format!("S8/{}/{}", b.name, dn), strategy: "S8", base: bi, work: Work::AdaptiveW(inst) });
            }
        }
        // S6
        let s6 = match tier {
            Tier::Quick => ["arith2pi", "mixed16", "copyarith", "components"].contains(&b.name.as_str()),
            Tier::Thorough => true,
        };
        if s6 {
            items.push(Item { name: format!("S6/{}", b.name), strategy: "S6", base: bi, work: Work::Degenerate });
        }
    }
    for (bi, asg, cname) in copy_index {
        items.push(Item { name: format!("S3/{}/forced", cname), strategy: "S3", base: bi, work: Work::Forced(Inst::Rows(asg.clone())) });
        items.push(Item { name: format!("S3/{}/m3", cname), strategy: "S3", base: bi, work: Work::M3Drop(Inst::Rows(asg)) });
    }
    for (bi, asg, cname) in long_index {
        items.push(Item { name: format!("S3/{}/forced", cname), strategy: "S3", base: bi, work: Work::Forced(Inst::Rows(asg)) });
    }
    Ok(World { bases, items })
}

/// First bound-1 deviation M1 classifies as violating a gate.
fn first_violation(b: &Base) -> Option<(String, Inst)> {
    for (dn, inst) in deviations(b, false) {
        if let Ok(snap) = b.prog(&inst).run() {
            if let m1::Verdict::Rows { gate_fails, .. } = b.model.decide(&snap) {
                if !gate_fails.is_empty() {
                    return Some((dn, inst));
                }
            }
        }
    }
    None
}

// ---------------------------------------------------------------------------
// presenting a proof to the real verifier
// ---------------------------------------------------------------------------

#[derive(Clone, Debug, PartialEq, Eq)]
pub enum Out {
    Accept,
    Reject(String),
    /// `Proof::from_bytes` refuses the bytes (counts as rejected)
    Undecodable,
    Panic(String),
}
impl Out {
    fn short(&self) -> &'static str {
        match self {
            Out::Accept => "accept",
            Out::Reject(_) => "reject",
            Out::Undecodable => "undecodable",
            Out::Panic(_) => "panic",
        }
    }
}

/// One presentation of adversarial (or control) bytes to one verifier version.
#[derive(Clone, Debug)]
pub struct Pres {
    /// what was presented (splice name, opening shape, ...)
    pub label: String,
    pub ver: Version,
    pub out: Out,
    pub expect_accept: bool,
    /// S4: the forged slot when this presentation is the documented-legacy
    /// acceptance candidate (V1 verifier, V1-shaped proof, selector slot)
    pub f5_slot: Option<usize>,
    /// S4: forged slot (any)
    pub slot: Option<usize>,
    pub m2: Option<bool>,
    pub wellformed: bool,
    pub hash: u64,
    pub bytes_hex: Option<String>,
}

fn present_one(b: &Base, bytes: &[u8], pis: &[Fe], ver: Version) -> (Out, bool) {
    let Ok(arr) = <[u8; 1008]>::try_from(bytes) else { return (Out::Undecodable, false) };
    let proof = match catch_unwind(AssertUnwindSafe(|| <Proof as Serializable<1008>>::from_bytes(&arr))) {
        Err(e) => return (Out::Panic(format!("Proof::from_bytes: {}", crate::par::panic_msg(e))), false),
        Ok(Err(_)) => return (Out::Undecodable, false),
        Ok(Ok(p)) => p,
    };
    let r = catch_unwind(AssertUnwindSafe(|| b.circ.verifier.verify_with_version(&proof, pis, pv(ver))));
    let out = match r {
        Err(e) => Out::Panic(crate::par::panic_msg(e)),
        Ok(Ok(())) => Out::Accept,
        Ok(Err(e)) => Out::Reject(format!("{:?}", e)),
    };
    (out, true)
}

struct Presenter<'a> {
    b: &'a Base,
    pres: Vec<Pres>,
    proofs: u64,
}
impl<'a> Presenter<'a> {
    /// Present to all three versions; `accept_at` lists the versions where
    /// acceptance is the expected (control) outcome.
    fn all(&mut self, label: &str, bytes: &[u8], pis: &[Fe], accept_at: &[Version], with_m2: bool, slot: Option<usize>, f5: bool) {
        self.proofs += 1;
        let mut h = fnv(bytes);
        for p in pis {
            h = fnv_fe(h, p);
        }
        let pd = if with_m2 { m2::parse_proof(bytes).ok() } else { None };
        for ver in VERSIONS {
            let (out, wellformed) = present_one(self.b, bytes, pis, ver);
            let m2v = if with_m2 { Some(pd.as_ref().map_or(false, |p| m2::verify(&self.b.circ.vd, p, pis, ver))) } else { None };
            let keep_bytes = out == Out::Accept && !accept_at.contains(&ver) || matches!(out, Out::Panic(_));
            self.pres.push(Pres {
                label: label.to_string(),
                ver,
                out,
                expect_accept: accept_at.contains(&ver),
                f5_slot: if f5 && ver == Version::V1 { slot } else { None },
                slot,
                m2: m2v,
                wellformed,
                hash: h,
                bytes_hex: if keep_bytes { Some(to_hex(bytes)) } else { None },
            });
        }
    }
}

// ---------------------------------------------------------------------------
// workers
// ---------------------------------------------------------------------------

struct ForceGuard;
impl ForceGuard {
    fn on() -> Self {
        dusk_plonk::verif::set_prover_forced(true);
        ForceGuard
    }
}
impl Drop for ForceGuard {
    fn drop(&mut self) {
        dusk_plonk::verif::set_prover_forced(false);
    }
}

fn m3ver(v: Version) -> m3::Version {
    match v {
        Version::V3 => m3::Version::V3,
        _ => m3::Version::V2,
    }
}

/// Real prover under a scripted RNG; `forced` turns the force switch on for
/// the duration of the call (reset also on panic).
fn real_prove(b: &Base, prog: &Prog, ver: Version, stream: u64, forced: bool) -> Result<(Vec<u8>, Vec<Fe>), String> {
    let mut rng = crate::rng::ScriptedRng::base(seed(), 200 + stream);
    let r = {
        let _g = if forced { Some(ForceGuard::on()) } else { None };
        catch_unwind(AssertUnwindSafe(|| b.circ.prover.prove_with_version(&mut rng, prog, pv(ver))))
    };
    dusk_plonk::verif::set_prover_forced(false);
    match r {
        Err(e) => Err(format!("panic: {}", crate::par::panic_msg(e))),
        Ok(Err(e)) => Err(format!("{:?}", e)),
        Ok(Ok((p, pis))) => Ok((p.to_bytes().to_vec(), pis)),
    }
}

#[derive(Clone, Debug, Default)]
pub struct ItemOut {
    pub pres: Vec<Pres>,
    pub proofs: u64,
    /// M1 verdict summary of the instance: families of the failing components,
    /// whether a copy constraint fails
    pub fail_families: Vec<&'static str>,
    pub copy_fails: bool,
    /// not adversarial (M1 satisfied) or could not be built; reason
    pub skipped: Option<String>,
    pub notes: Vec<String>,
    /// S4: per-shape solver status
    pub forge_status: Vec<(String, String)>,
}

fn family_of_component(k: usize) -> &'static str {
    match k {
        0 => "arith",
        1..=4 => "range",
        5..=9 => "logic",
        10..=13 => "fixed",
        _ => "var",
    }
}

fn classify(b: &Base, prog: &Prog, out: &mut ItemOut) -> Option<Instance> {
    let snap = match prog.run() {
        Ok(s) => s,
        Err(e) => {
            out.skipped = Some(format!("instance does not build: {:?}", e));
            return None;
        }
    };
    match b.model.decide(&snap) {
        m1::Verdict::Rows { gate_fails, copy_fails } => {
            if gate_fails.is_empty() && copy_fails.is_empty() {
                out.skipped = Some("M1: satisfied (not adversarial)".into());
                return None;
            }
            let fams: BTreeSet<&'static str> = gate_fails.iter().map(|(_, k)| family_of_component(*k)).collect();
            out.fail_families = fams.into_iter().collect();
            out.copy_fails = !copy_fails.is_empty();
        }
        m1::Verdict::SizeMismatch { .. } => {
            out.skipped = Some("M1: size mismatch".into());
            return None;
        }
    }
    Some(Instance::from_snapshot(&snap))
}

fn opening_shapes(slot: usize) -> Vec<(&'static str, Version, Option<Vec<Option<usize>>>)> {
    let mut v: Vec<(&'static str, Version, Option<Vec<Option<usize>>>)> = vec![("v1", Version::V1, Some(m3::opening_list_v1())), ("v2", Version::V2, None), ("v3", Version::V3, None)];
    // a verifier that forgot to bind this selector evaluation would batch
    // without it: later members shifted down, or the power left unused
    if let Some(p) = SELECTOR_SLOTS.iter().position(|s| *s == slot) {
        let member = 8 + p;
        let shift: Vec<Option<usize>> = (0..12).filter(|k| *k != member).map(Some).collect();
        let gap: Vec<Option<usize>> = (0..12).map(|k| if k == member { None } else { Some(k) }).collect();
        v.push(("v2-drop-shift", Version::V2, Some(shift.clone())));
        v.push(("v2-drop-gap", Version::V2, Some(gap.clone())));
        v.push(("v3-drop-shift", Version::V3, Some(shift)));
        v.push(("v3-drop-gap", Version::V3, Some(gap)));
    }
    v
}

fn splice(a: &[u8], b: &[u8], from_b: &dyn Fn(usize) -> bool) -> Vec<u8> {
    let mut out = a.to_vec();
    for f in 0..m2::N_FIELDS {
        if from_b(f) {
            let (lo, hi) = m2::field_range(f);
            out[lo..hi].copy_from_slice(&b[lo..hi]);
        }
    }
    out
}

/// Solve z on the domain from
///   G_i + alpha (N_i z_i - D_i z_(i+1)) + alpha^2 [i = 0] (z_i - 1) = 0,  i = 0..n-1 (cyclic),
/// G_i the gate identity (with public input) of row i, N_i / D_i the identity /
/// copy side of the permutation product. Every z_i is affine in t = z_0; the
/// cyclic closure fixes t.
fn adaptive_z(pd: &ProverData, im: &mut m3::Intermediates) {
    let n = im.n;
    let pts = im.domain.clone();
    let sel: Vec<Vec<Fe>> = (0..11).map(|k| m3::dft(&pd.selectors[k], &pts)).collect();
    let (alpha, beta, gamma) = (im.ch.alpha, im.ch.beta, im.ch.gamma);
    let ks = [fe(1), fe(m3::K1), fe(m3::K2), fe(m3::K3)];
    let cst = |p: m3::Poly| m3::peval(&p, zero());
    let mut g = vec![zero(); n];
    let mut num = vec![one(); n];
    let mut den = vec![one(); n];
    for i in 0..n {
        let j = (i + 1) % n;
        let wv = |k: usize, r: usize| [im.wire_vals[k][r]];
        let (a, b_, c, d, aw, bw, dw) = (wv(0, i), wv(1, i), wv(2, i), wv(3, i), wv(0, j), wv(1, j), wv(3, j));
        let ws = m3::WireSet { a: &a, b: &b_, c: &c, d: &d, aw: &aw, bw: &bw, dw: &dw };
        let q = |k: usize| sel[k][i];
        g[i] = q(6) * (q(0) * a[0] * b_[0] + q(1) * a[0] + q(2) * b_[0] + q(3) * c[0] + q(4) * d[0] + q(5))
            + im.pi_dense[i]
            + im.ch.range_sep * q(7) * cst(m3::range_identity(&ws, im.ch.range_sep))
            + im.ch.logic_sep * q(8) * cst(m3::logic_identity(&ws, &[q(5)], im.ch.logic_sep))
            + im.ch.fixed_sep * q(9) * cst(m3::fixed_identity(&ws, &[q(1)], &[q(2)], &[q(5)], im.ch.fixed_sep))
            + im.ch.var_sep * q(10) * cst(m3::var_identity(&ws, im.ch.var_sep));
        for k in 0..4 {
            num[i] *= im.wire_vals[k][i] + beta * ks[k] * pts[i] + gamma;
            den[i] *= im.wire_vals[k][i] + beta * im.sigma_evals[k][i] + gamma;
        }
    }
    // z_i = p_i + q_i t
    let mut p = vec![zero(); n + 1];
    let mut q = vec![zero(); n + 1];
    q[0] = one();
    for i in 0..n {
        let ad = inv(alpha * den[i]);
        let l1 = if i == 0 { alpha * alpha } else { zero() };
        // alpha D_i z_(i+1) = G_i + alpha N_i z_i + l1 (z_i - 1)
        p[i + 1] = (g[i] + (alpha * num[i] + l1) * p[i] - l1) * ad;
        q[i + 1] = (alpha * num[i] + l1) * q[i] * ad;
    }
    if q[n] == one() {
        return; // no unique closure; leave the honest z
    }
    let t = p[n] * inv(one() - q[n]);
    im.z_vec = (0..n).map(|i| p[i] + q[i] * t).collect();
    im.z_poly_unblinded = m3::idft(&im.z_vec, &pts);
    im.z_poly = m3::blind(&im.z_poly_unblinded, &im.draws[8..11], n);
}

pub fn run_item(w: &World, it: &Item) -> ItemOut {
    let b = &w.bases[it.base];
    let mut out = ItemOut::default();
    let mut pr = Presenter { b, pres: vec![], proofs: 0 };
    match &it.work {
        Work::Control => {
            let inst = b.honest(0);
            for ver in [Version::V3, Version::V2] {
                match real_prove(b, &b.prog(&inst), ver, 0, false) {
                    Ok((bytes, pis)) => pr.all(&format!("honest-{}", ver.name()), &bytes, &pis, &[ver], true, None, false),
                    Err(e) => out.notes.push(format!("honest {} proof failed: {}", ver.name(), e)),
                }
            }
            // V1-shaped honest proof through M3 (the real prover does not make them)
            let prog = b.prog(&inst);
            match prog.run() {
                Ok(snap) => {
                    let i3 = Instance::from_snapshot(&snap);
                    let adv = Adversary { opening_list: Some(m3::opening_list_v1()), ..Default::default() };
                    match m3::prove(&b.pd, &i3, &m3::base_draws(1), m3::Version::V2, &adv) {
                        Ok((bytes, _)) => pr.all("honest-V1(m3)", &bytes, &i3.pi_values(), &[Version::V1], true, None, false),
                        Err(e) => out.notes.push(format!("M3 V1-shaped honest proof failed: {}", e)),
                    }
                }
                Err(e) => out.notes.push(format!("honest instance does not build: {:?}", e)),
            }
        }
        Work::Forced(inst) => {
            let prog = b.prog(inst);
            if classify(b, &prog, &mut out).is_some() {
                for ver in [Version::V3, Version::V2] {
                    match real_prove(b, &b.prog(inst), ver, 1, true) {
                        Ok((bytes, pis)) => pr.all(&format!("forced-{}", ver.name()), &bytes, &pis, &[], false, None, false),
                        Err(e) => out.notes.push(format!("forced prover ({}) returned no proof: {}", ver.name(), e)),
                    }
                }
            }
        }
        Work::M3Drop(inst) => {
            let prog = b.prog(inst);
            if let Some(i3) = classify(b, &prog, &mut out) {
                let adv = Adversary { drop_remainder: true, ..Default::default() };
                for ver in [Version::V3, Version::V2] {
                    match m3::prove(&b.pd, &i3, &m3::base_draws(3), m3ver(ver), &adv) {
                        Ok((bytes, im)) => {
                            if !im.remainder_dropped {
                                out.notes.push("M3: numerator divisible although M1 says unsatisfied".into());
                            }
                            pr.all(&format!("m3drop-{}", ver.name()), &bytes, &i3.pi_values(), &[], false, None, false)
                        }
                        Err(e) => out.notes.push(format!("M3 ({}) failed: {}", ver.name(), e)),
                    }
                }
            }
        }
        Work::Forge(inst, slot) => {
            let prog = b.prog(inst);
            if let Some(i3) = classify(b, &prog, &mut out) {
                let slot = *slot;
                for (shape, ver, list) in opening_shapes(slot) {
                    let status: Arc<Mutex<String>> = Arc::new(Mutex::new("not-run".into()));
                    let st = status.clone();
                    let pd = b.pd.clone();
                    let adv = Adversary {
                        drop_remainder: true,
                        opening_list: list,
                        forge: Some(Box::new(move |im| {
                            let mut t = im.evals;
                            t[slot] = zero();
                            let b0 = m3::balance(&pd, im, &t);
                            t[slot] = one();
                            let b1 = m3::balance(&pd, im, &t);
                            let slope = b1 - b0;
                            let mut s = st.lock().unwrap();
                            if slope == zero() {
                                *s = "zero-coefficient".into();
                                return;
                            }
                            t[slot] = -b0 * inv(slope);
                            if m3::balance(&pd, im, &t) != zero() {
                                *s = "nonlinear".into();
                                return;
                            }
                            if t[slot] == im.evals[slot] {
                                *s = "already-balanced".into();
                                return;
                            }
                            im.evals = t;
                            *s = "solved".into();
                        })),
                        ..Default::default()
                    };
                    let r = m3::prove(&b.pd, &i3, &m3::base_draws(4), m3ver(ver), &adv);
                    let s = status.lock().unwrap().clone();
                    out.forge_status.push((shape.to_string(), s.clone()));
                    match r {
                        Ok((bytes, _)) if s == "solved" => {
                            let f5 = shape == "v1" && SELECTOR_SLOTS.contains(&slot);
                            pr.all(shape, &bytes, &i3.pi_values(), &[], true, Some(slot), f5)
                        }
                        Ok(_) => {}
                        Err(e) => out.notes.push(format!("M3 forge ({}) failed: {}", shape, e)),
                    }
                }
            }
        }
        Work::Splice(pair, ver) => {
            let (ia, ib, sa, sb) = if *pair == 0 { (b.honest(0), b.honest(0), 10, 11) } else { (b.honest(0), b.honest(1), 12, 13) };
            let pa = real_prove(b, &b.prog(&ia), *ver, sa, false);
            let pb = real_prove(b, &b.prog(&ib), *ver, sb, false);
            match (pa, pb) {
                (Ok((a, pis_a)), Ok((bb, pis_b))) => {
                    let mut splices: Vec<(String, Vec<u8>)> = vec![];
                    for f in 0..m2::N_FIELDS {
                        splices.push((format!("A<-B:{}", m2::field_name(f)), splice(&a, &bb, &|k| k == f)));
                        splices.push((format!("B<-A:{}", m2::field_name(f)), splice(&bb, &a, &|k| k == f)));
                    }
                    for k in 0..=m2::N_FIELDS {
                        splices.push((format!("crossover:{}", k), splice(&a, &bb, &|f| f >= k)));
                    }
                    let groups: [(&str, std::ops::Range<usize>); 5] = [("wires", 0..4), ("z", 4..5), ("quotient", 5..9), ("openings", 9..11), ("evals", 11..26)];
                    for (gn, g) in groups.iter() {
                        splices.push((format!("A<-B:group-{}", gn), splice(&a, &bb, &|f| g.contains(&f))));
                        splices.push((format!("B<-A:group-{}", gn), splice(&bb, &a, &|f| g.contains(&f))));
                    }
                    let pi_sets: Vec<(&str, &Vec<Fe>)> = if pis_a == pis_b { vec![("pisA", &pis_a)] } else { vec![("pisA", &pis_a), ("pisB", &pis_b)] };
                    for (sn, bytes) in &splices {
                        for (pn, pis) in &pi_sets {
                            let trivial = (bytes == &a && *pis == &pis_a) || (bytes == &bb && *pis == &pis_b);
                            let accept: Vec<Version> = if trivial { vec![*ver] } else { vec![] };
                            pr.all(&format!("{}/{}", sn, pn), bytes, pis, &accept, false, None, false);
                        }
                    }
                }
                (a, bb) => out.notes.push(format!("honest proofs for splicing failed: {:?} {:?}", a.err(), bb.err())),
            }
        }
        Work::AdaptiveZ(inst) => {
            let prog = b.prog(inst);
            if let Some(i3) = classify(b, &prog, &mut out) {
                for ver in [Version::V3, Version::V2] {
                    let pd = b.pd.clone();
                    let adv = Adversary {
                        skip_absorb_z_comm: true,
                        stage_hook: Some(Box::new(move |st, im| {
                            if st == Stage::Perm {
                                adaptive_z(&pd, im);
                            }
                        })),
                        ..Default::default()
                    };
                    // no remainder is dropped: the solved z(X) makes the numerator divisible
                    match m3::prove(&b.pd, &i3, &m3::base_draws(6), m3ver(ver), &adv) {
                        Ok((bytes, _)) => pr.all(&format!("adaptive-z/{}", ver.name()), &bytes, &i3.pi_values(), &[], true, None, false),
                        Err(e) => out.notes.push(format!("adaptive z ({}): {}", ver.name(), e)),
                    }
                }
            }
        }
        Work::AdaptiveW(inst) => {
            let prog = b.prog(inst);
            if classify(b, &prog, &mut out).is_none() {
                return out;
            }
            let honest = b.honest(0);
            for pver in [Version::V3, Version::V2] {
                let _g = ForceGuard::on();
                let forced = real_prove(b, &prog, pver, 40, true);
                drop(_g);
                let hon = real_prove(b, &b.prog(&honest), pver, 41, false);
                let mut bases: Vec<(String, Vec<u8>, Vec<Fe>)> = vec![];
                if let Ok((bytes, pis)) = forced {
                    bases.push((format!("forced-{}", pver.name()), bytes, pis));
                }
                if let Ok((bytes, pis)) = hon {
                    // true proof, false statement: another public-input vector
                    let mut wrong = pis.clone();
                    if wrong.is_empty() {
                        // no public input to lie about: keep the forced base only
                    } else {
                        wrong[0] += one();
                        bases.push((format!("honest-wrong-pi-{}", pver.name()), bytes.clone(), wrong));
                    }
                    // all-identity commitments, zero evaluations
                    let mut d = vec![0u8; 1008];
                    let id = G1Affine::identity().to_bytes();
                    for k in 0..11 {
                        d[k * 48..k * 48 + 48].copy_from_slice(&id);
                    }
                    let mut lie = pis.clone();
                    if !lie.is_empty() {
                        lie[0] += fe(2);
                    }
                    bases.push((format!("all-identity-{}", pver.name()), d, lie));
                }
                for (bn, bytes, pis) in bases {
                    let Ok(pd0) = m2::parse_proof(&bytes) else { continue };
                    // one forgery per targeted verifier version (transcript seeding / equation differ)
                    for tver in VERSIONS {
                        let ch = m2::challenges_u_before_openings(&b.circ.vd, &pd0, &pis, tver);
                        let Some(f) = m2::forge_openings(&b.circ.vd, &pd0, &pis, tver, ch) else {
                            out.notes.push(format!("S8 {}: forging impossible for {}", bn, tver.name()));
                            continue;
                        };
                        // the forgery must satisfy the equation under the bet challenges (self-check)
                        let ok = m2::verify_trace_ch(&b.circ.vd, &f, &pis, tver, m2::challenges_u_before_openings(&b.circ.vd, &f, &pis, tver)).map_or(false, |t| t.accept);
                        if !ok {
                            out.notes.push(format!("S8 {} for {}: forged openings do not balance under the bet", bn, tver.name()));
                            continue;
                        }
                        out.forge_status.push((format!("S8/{}/{}", bn, tver.name()), "balanced-under-bet".into()));
                        pr.all(&format!("adaptive-openings/{}/target-{}", bn, tver.name()), &m2::proof_to_bytes(&f), &pis, &[], true, None, false);
                    }
                }
            }
        }
        Work::Degenerate => {
            let inst = b.honest(0);
            let id = G1Affine::identity().to_bytes();
            let gen = G1Affine::generator().to_bytes();
            for ver in [Version::V3, Version::V2] {
                let Ok((h, pis)) = real_prove(b, &b.prog(&inst), ver, 20, false) else {
                    out.notes.push("honest proof for degenerate cases failed".into());
                    continue;
                };
                let vn = ver.name();
                // all commitments identity, all evaluations zero
                let mut d = vec![0u8; 1008];
                for k in 0..11 {
                    d[k * 48..k * 48 + 48].copy_from_slice(&id);
                }
                pr.all(&format!("all-identity-zero/{}", vn), &d, &pis, &[], true, None, false);
                // all commitments identity, honest evaluations
                let mut d2 = h.clone();
                d2[..528].copy_from_slice(&d[..528]);
                pr.all(&format!("all-identity-honest-evals/{}", vn), &d2, &pis, &[], true, None, false);
                // all commitments = generator
                let mut g0 = vec![0u8; 1008];
                for k in 0..11 {
                    g0[k * 48..k * 48 + 48].copy_from_slice(&gen);
                }
                pr.all(&format!("all-generator-zero/{}", vn), &g0, &pis, &[], true, None, false);
                let mut g1 = h.clone();
                g1[..528].copy_from_slice(&g0[..528]);
                pr.all(&format!("all-generator-honest-evals/{}", vn), &g1, &pis, &[], true, None, false);
                // identity opening witnesses, honest rest
                let mut w0 = h.clone();
                w0[9 * 48..10 * 48].copy_from_slice(&id);
                w0[10 * 48..11 * 48].copy_from_slice(&id);
                pr.all(&format!("identity-openings/{}", vn), &w0, &pis, &[], true, None, false);
                // z commitment = [1] (first commit-key point), honest rest
                let mut z1 = h.clone();
                z1[4 * 48..5 * 48].copy_from_slice(&b.pd.commit_key[0].to_bytes());
                pr.all(&format!("z-comm=[1]/{}", vn), &z1, &pis, &[], true, None, false);
                // honest proof, wrong public inputs
                if !pis.is_empty() {
                    for i in 0..pis.len() {
                        let mut p2 = pis.clone();
                        p2[i] += one();
                        pr.all(&format!("wrong-pi/{}+1/{}", i, vn), &h, &p2, &[], true, None, false);
                    }
                    if pis.len() >= 2 && pis[0] != pis[1] {
                        let mut p2 = pis.clone();
                        p2.swap(0, 1);
                        pr.all(&format!("wrong-pi/swap/{}", vn), &h, &p2, &[], true, None, false);
                    }
                    pr.all(&format!("wrong-pi/truncated/{}", vn), &h, &pis[..pis.len() - 1], &[], true, None, false);
                    let mut p2 = pis.clone();
                    p2.push(zero());
                    pr.all(&format!("wrong-pi/extended/{}", vn), &h, &p2, &[], true, None, false);
                } else {
                    pr.all(&format!("wrong-pi/extended/{}", vn), &h, &[zero()], &[], true, None, false);
                }
            }
            // z(X) == 1 with everything else computed consistently (M3), on a
            // violating instance (remainder dropped)
            let viol: Option<Inst> = if b.family == "copy" { copy_breaks(b).into_iter().next().map(|x| x.1) } else { first_violation(b).map(|x| x.1) };
            if let Some(vi) = viol {
                let mut tmp = ItemOut::default();
                if let Some(i3) = classify(b, &b.prog(&vi), &mut tmp) {
                    for ver in [Version::V3, Version::V2] {
                        let adv = Adversary {
                            drop_remainder: true,
                            stage_hook: Some(Box::new(|st, im| {
                                if st == Stage::Perm {
                                    im.z_poly = vec![one()];
                                }
                            })),
                            ..Default::default()
                        };
                        match m3::prove(&b.pd, &i3, &m3::base_draws(5), m3ver(ver), &adv) {
                            Ok((bytes, _)) => pr.all(&format!("z-poly=1(m3)/{}", ver.name()), &bytes, &i3.pi_values(), &[], true, None, false),
                            Err(e) => out.notes.push(format!("M3 z=1 failed: {}", e)),
                        }
                    }
                }
            }
        }
    }
    out.pres = pr.pres;
    out.proofs = pr.proofs;
    out
}

// ---------------------------------------------------------------------------
// judging
// ---------------------------------------------------------------------------

struct Tally {
    forced_per_family: BTreeMap<String, u64>,
    only_family: BTreeMap<&'static str, u64>,
    copy_only: u64,
    control_accepts: BTreeSet<(String, &'static str)>,
    trivial_splice_accepts: u64,
    balanced_selector: BTreeMap<&'static str, u64>,
    f5_accepted: BTreeMap<&'static str, u64>,
    solver: BTreeMap<String, BTreeMap<&'static str, String>>,
    pairs: BTreeSet<(String, &'static str)>,
    skipped_s3: BTreeMap<String, u64>,
}

fn judge(run: &mut Run, w: &World, it: &Item, o: &ItemOut, t: &mut Tally, only_label: Option<&str>) {
    let b = &w.bases[it.base];
    let strat = it.strategy;
    for n in &o.notes {
        run.outcome(&format!("{}:note", strat));
        if strat == "control" {
            run.machinery(format!("{}: {}", it.name, n));
        } else if run.samples.len() < 10 {
            run.sample(json!({"item": it.name, "note": n}));
        }
    }
    if let Some(s) = &o.skipped {
        run.outcome(&format!("{}:skipped:{}", strat, s.split(':').next().unwrap_or("")));
        if strat == "S3" {
            *t.skipped_s3.entry(it.name.clone()).or_insert(0) += 1;
        }
        return;
    }
    if !o.pres.is_empty() || strat == "S4" {
        t.pairs.insert((b.name.clone(), strat));
    }
    run.transitions += o.proofs;
    if matches!(it.work, Work::Forced(_)) && o.proofs > 0 {
        *t.forced_per_family.entry(b.family.to_string()).or_insert(0) += o.proofs;
        if strat == "S1" && !o.copy_fails && o.fail_families.len() == 1 {
            *t.only_family.entry(o.fail_families[0]).or_insert(0) += 1;
        }
        if o.copy_fails && o.fail_families.is_empty() {
            t.copy_only += 1;
        }
    }
    if let Work::Forge(_, slot) = &it.work {
        let sn = m3::EVAL_NAMES[*slot];
        let st = o.forge_status.iter().map(|(sh, s)| format!("{}={}", sh, s)).collect::<Vec<_>>().join(",");
        t.solver.entry(b.name.clone()).or_default().insert(sn, o.forge_status.first().map(|x| x.1.clone()).unwrap_or_else(|| "no-instance".into()));
        run.outcome(&format!("S4:solver:{}", o.forge_status.first().map(|x| x.1.as_str()).unwrap_or("no-instance")));
        if run.samples.len() < 10 && *slot == m3::E_QARITH {
            run.sample(json!({"item": it.name, "solver": st}));
        }
    }
    for p in &o.pres {
        if let Some(l) = only_label {
            if p.label != l {
                continue;
            }
        }
        run.traces_validated += 1;
        if p.wellformed {
            run.nontrivial(p.hash);
        }
        run.outcome(&format!("{}:{}:{}", strat, p.ver.name(), p.out.short()));
        let case = json!({"name": it.name, "presentation": p.label, "verifier_version": p.ver.name(), "circuit": b.name, "outcome": format!("{:?}", p.out), "m2": p.m2, "proof_hex": p.bytes_hex});
        // real verdict vs M2
        if let Some(m) = p.m2 {
            let real_accept = p.out == Out::Accept;
            if !matches!(p.out, Out::Panic(_)) && m != real_accept {
                run.violation(
                    &format!("{}/real-vs-m2-disagree/{}", strat, p.ver.name()),
                    &format!("{} [{}]: real verifier {} says {:?}, reference verifier M2 says accept={}", it.name, p.label, p.ver.name(), p.out, m),
                    case.clone(),
                );
            }
            if let (Some(slot), true) = (p.f5_slot, m) {
                *t.balanced_selector.entry(m3::EVAL_NAMES[slot]).or_insert(0) += 1;
            }
        }
        match &p.out {
            Out::Panic(msg) => run.violation(&format!("{}/{}/panic/{}", strat, b.family, p.ver.name()), &format!("{} [{}]: verifier panicked: {}", it.name, p.label, msg), case),
            Out::Accept if p.expect_accept => {
                if strat == "control" {
                    t.control_accepts.insert((b.name.clone(), p.ver.name()));
                } else {
                    t.trivial_splice_accepts += 1;
                }
            }
            Out::Accept => {
                if let Some(slot) = p.f5_slot {
                    // documented legacy profile: V1 does not bind the selector evaluations
                    *t.f5_accepted.entry(m3::EVAL_NAMES[slot]).or_insert(0) += 1;
                    run.violation(
                        &format!("S4/forged-selector-eval/V1-accepted/{}", m3::EVAL_NAMES[slot]),
                        &format!("{}: V1-shaped proof of a violated instance with a solved-for {} is accepted by verify_with_version(V1)", it.name, m3::EVAL_NAMES[slot]),
                        case,
                    );
                } else if let Some(slot) = p.slot {
                    run.violation(
                        &format!("S4/forged-eval/{}-accepted/{}/{}", p.ver.name(), m3::EVAL_NAMES[slot], p.label),
                        &format!("{} [{}]: proof of a violated instance with forged {} ACCEPTED under {}", it.name, p.label, m3::EVAL_NAMES[slot], p.ver.name()),
                        case,
                    );
                } else {
                    let kind = match strat {
                        "S5" => p.label.split(':').next().unwrap_or("").to_string() + if p.label.contains("group-") { "/group" } else if p.label.starts_with("crossover") { "" } else { "/field" },
                        "S6" => p.label.split('/').next().unwrap_or("").to_string(),
                        _ => b.family.to_string(),
                    };
                    run.violation(
                        &format!("{}/{}/accepted/{}", strat, kind, p.ver.name()),
                        &format!("{} [{}]: adversarial proof ACCEPTED by verify_with_version({})", it.name, p.label, p.ver.name()),
                        case,
                    );
                }
            }
            _ if p.expect_accept && p.label.starts_with("honest-V1(m3)") && p.m2 == Some(true) => {
                // The V1-shaped control is made by M3 (the real prover cannot make
                // one). The real verifier rejecting a proof that satisfies the V1
                // equation per M2 has been reported above as a real-vs-M2
                // disagreement; it is a verdict about the subject, not a harness
                // failure.
                t.control_accepts.insert((b.name.clone(), p.ver.name()));
                run.outcome("control:V1:m3-proof-rejected-by-real-verifier");
            }
            _ if p.expect_accept => {
                run.machinery(format!("{} [{}]: control proof not accepted under {}: {:?}", it.name, p.label, p.ver.name(), p.out));
            }
            _ => {}
        }
    }
}

pub fn main(tier: Tier, replay: Option<Value>) -> i32 {
    let mut run = Run::new("C02", tier, "model_checking");
    run.rule = "items = base circuits x adversary strategies: S1 single-position (thorough: pair) perturbations that M1 classifies as violating, proved by the real prover with the force switch; S2 the same through M3 with the remainder dropped; S3 instances satisfying every row but breaking one compiled copy constraint (forced real prover and M3); S4 M3 proofs of a violated instance with one evaluation solved so that the linearisation balances, for every slot and every opening shape; S5 field-wise splices of two honest proofs; S6 degenerate proofs and wrong public inputs; S7 M3 proofs whose z(X) is solved after alpha under the bet that z_comm is not absorbed; every resulting proof is presented to verify_with_version under V1, V2 and V3; non-trivial = distinct presented (proof, public inputs) that Proof::from_bytes decodes".into();
    let world = match build_world(tier) {
        Ok(w) => w,
        Err(e) => {
            run.machinery(e);
            return run.finish();
        }
    };
    let mut tally = Tally {
        forced_per_family: BTreeMap::new(),
        only_family: BTreeMap::new(),
        copy_only: 0,
        control_accepts: BTreeSet::new(),
        trivial_splice_accepts: 0,
        balanced_selector: BTreeMap::new(),
        f5_accepted: BTreeMap::new(),
        solver: BTreeMap::new(),
        pairs: BTreeSet::new(),
        skipped_s3: BTreeMap::new(),
    };

    if let Some(r) = replay {
        run.set_replay_mode();
        let name = r["case"]["name"].as_str().unwrap_or("").to_string();
        let label = r["case"]["presentation"].as_str().map(|s| s.to_string());
        let Some(it) = world.items.iter().find(|i| i.name == name) else {
            run.machinery(format!("replay item {} not in the {} enumeration", name, tier.name()));
            return run.finish();
        };
        let o1 = run_item(&world, it);
        let o2 = run_item(&world, it);
        let key = |o: &ItemOut| o.pres.iter().map(|p| format!("{}|{}|{:?}", p.label, p.ver.name(), p.out)).collect::<Vec<_>>();
        if key(&o1) != key(&o2) {
            run.machinery("replay diverged between two runs".into());
        }
        for p in o1.pres.iter().filter(|p| label.as_deref().map_or(true, |l| l == p.label)) {
            println!("replay {} [{}] {}: {:?} (m2: {:?})", name, p.label, p.ver.name(), p.out, p.m2);
        }
        judge(&mut run, &world, it, &o1, &mut tally, label.as_deref());
        return run.finish();
    }

    run.bound("items", json!(world.items.len()));
    run.bound("base_circuits", json!(world.bases.iter().map(|b| format!("{} ({}; n={}, constraints={})", b.name, b.family, b.pd.size, b.pd.constraints)).take(12).collect::<Vec<_>>()));
    run.bound("copy_layouts", json!(world.bases.iter().filter(|b| b.name.starts_with("c05copy")).count()));
    run.bound("perturbation_bound", json!(tier.pick(1, 2)));
    let outs = crate::par::par_map(&world.items, |it| run_item(&world, it));
    // thread-local force switches must all be off again
    dusk_plonk::verif::set_prover_forced(false);
    for (it, o) in world.items.iter().zip(outs) {
        run.evaluations += 1;
        match o {
            Ok(o) => judge(&mut run, &world, it, &o, &mut tally, None),
            Err(p) => run.machinery(format!("harness panic in item {}: {}", it.name, p)),
        }
    }
    run.states = tally.pairs.len() as u64;

    // --- vacuity gates -------------------------------------------------------
    let named = base_sources();
    for (n, _, _) in &named {
        for v in ["V1", "V2", "V3"] {
            run.gate(&format!("control: honest proof of {} accepted under {}", n, v), tally.control_accepts.contains(&(n.to_string(), v)));
        }
    }
    for fam in ["arith", "range", "logic", "fixed", "var", "mixed", "components", "copy"] {
        run.gate(&format!(">= 20 forced proofs for circuit family {}", fam), tally.forced_per_family.get(fam).copied().unwrap_or(0) >= 20);
    }
    for fam in ["arith", "range", "logic", "fixed", "var"] {
        run.gate(&format!(">= 1 S1 case violating only {} components", fam), tally.only_family.get(fam).copied().unwrap_or(0) > 0);
    }
    run.gate(">= 1 forced case breaking only a copy constraint", tally.copy_only > 0);
    for s in SELECTOR_SLOTS {
        run.gate(&format!("S4: >= 1 forgery of {} balanced per M2's V1 equation", m3::EVAL_NAMES[s]), tally.balanced_selector.get(m3::EVAL_NAMES[s]).copied().unwrap_or(0) > 0);
    }
    for s in 0..15 {
        let solved = tally.solver.values().any(|m| m.get(m3::EVAL_NAMES[s]).map_or(false, |x| x == "solved"));
        run.gate(&format!("S4: slot {} solved on >= 1 circuit", m3::EVAL_NAMES[s]), solved);
    }
    run.gate("S5: trivial splices (identical to A or B) accepted", tally.trivial_splice_accepts > 0);
    run.gate("S7: >= 1 adaptive-z proof (numerator divisible without dropping a remainder) presented", run.count("S7:V3:reject") + run.count("S7:V3:accept") > 0);

    run.extra.insert("forced_proofs_per_family".into(), json!(tally.forced_per_family));
    run.extra.insert("s1_cases_violating_only_family".into(), json!(tally.only_family));
    run.extra.insert("s4_solver_by_circuit_and_slot".into(), json!(tally.solver));
    run.extra.insert("s4_selector_forgeries_balanced_per_m2_v1".into(), json!(tally.balanced_selector));
    run.extra.insert("s4_selector_forgeries_accepted_by_real_v1".into(), json!(tally.f5_accepted));
    run.extra.insert("s3_items_not_adversarial_per_m1".into(), json!(tally.skipped_s3));
    run.extra.insert("s5_trivial_splices_accepted".into(), json!(tally.trivial_splice_accepts));
    run.extra.insert(
        "s4_skipped_slots_reason".into(),
        json!("zero-coefficient = the identity does not contain this evaluation for the circuit (e.g. q_l/q_r/q_c evaluations only occur in the fixed-base and logic widgets); nonlinear = the identity is not affine in the evaluation (range/logic widgets present); see s4_solver_by_circuit_and_slot"),
    );
    run.assumptions = vec![
        "soundness against all adversaries is a cryptographic statement; this decides the stated strategy menu (S1-S6) on the listed circuits and nothing more".into(),
        "M1 classifies instances (satisfied / violating); M3 is the reference adversarial prover; M2 cross-checks the real verdict on S4/S6/control presentations".into(),
        "V1 is the documented legacy profile whose batched opening does not bind q_arith/q_c/q_l/q_r evaluations: acceptance of a V1-shaped forged-selector proof under V1 is reported with signature S4/forged-selector-eval/V1-accepted/<slot> (design finding F5)".into(),
        "S4 forgeries are built for the standard opening shape of each version and, for selector slots, for the two shapes a verifier that forgot that evaluation would use".into(),
        "accidental cancellations of random challenges (prob ~2^-250) do not occur".into(),
    ];
    run.finish()
}
