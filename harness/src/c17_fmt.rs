//! Own (strict) parsers of the byte formats: field layout of every encoding,
//! element-level validation (canonical scalars, canonical / on-curve /
//! prime-order-subgroup points, boolean flags, non-identity opening keys) and
//! the hand-built invalid elements. Uses only dusk-bls12_381 primitives
//! (`from_compressed_unchecked`, `is_on_curve`, `is_torsion_free`,
//! `from_slice_unchecked` for raw points) plus own integer comparisons.

use dusk_bls12_381::{BlsScalar, G1Affine, G1Projective, G2Affine, G2Projective};

#[derive(Clone, Copy, PartialEq, Eq, Hash, Debug)]
pub enum Class {
    Prover,
    Verifier,
    Proof,
    Pp,
    Cc,
}
impl Class {
    pub fn name(&self) -> &'static str {
        match self {
            Class::Prover => "prover",
            Class::Verifier => "verifier",
            Class::Proof => "proof",
            Class::Pp => "pp",
            Class::Cc => "compressed",
        }
    }
    pub fn all() -> [Class; 5] {
        [Class::Prover, Class::Verifier, Class::Proof, Class::Pp, Class::Cc]
    }
}

#[derive(Clone, Copy, PartialEq, Eq, Debug)]
pub enum Kind {
    U64Be,
    U64Le,
    U32Le,
    Scalar,
    /// compressed G1 (48 bytes); `true` = identity forbidden (opening key)
    G1c(bool),
    /// compressed G2 (96 bytes)
    G2c(bool),
    /// raw commit-key point, 97 bytes: x limbs (48), y limbs (48), flag
    G1raw,
    Bytes,
    Pad,
}

#[derive(Clone, Debug)]
pub struct Field {
    /// e.g. "prover_key/q_m/coeff[3]"
    pub path: String,
    /// top-level section: header, label, prover_key, commit_key, verifier_key, opening_key, pi_indexes, commitments, evaluations, stream
    pub section: &'static str,
    /// position class: path with the index collapsed to first / mid / last
    pub pos: String,
    pub off: usize,
    pub len: usize,
    pub kind: Kind,
    /// element size the field's value counts (for length / count fields), 0 otherwise
    pub counts: usize,
    /// structural = length / count / size fields, flags, domain descriptors,
    /// first and last element of every array, singleton elements
    pub structural: bool,
}

pub const SCALAR_R: [u64; 4] = [0xffff_ffff_0000_0001, 0x53bd_a402_fffe_5bfe, 0x3339_d808_09a1_d805, 0x73ed_a753_299d_7d48];
pub const FP_P: [u64; 6] = [
    0xb9fe_ffff_ffff_aaab,
    0x1eab_fffe_b153_ffff,
    0x6730_d2a0_f6b0_f624,
    0x6477_4b84_f385_12bf,
    0x4b1b_a7b6_434b_acd7,
    0x1a01_11ea_397f_e69a,
];

fn lt_limbs(a: &[u64], m: &[u64]) -> bool {
    for i in (0..a.len()).rev() {
        if a[i] < m[i] {
            return true;
        }
        if a[i] > m[i] {
            return false;
        }
    }
    false
}
pub fn le_limbs4(b: &[u8]) -> [u64; 4] {
    let mut l = [0u64; 4];
    for i in 0..4 {
        l[i] = u64::from_le_bytes(b[8 * i..8 * i + 8].try_into().unwrap());
    }
    l
}
pub fn le_limbs6(b: &[u8]) -> [u64; 6] {
    let mut l = [0u64; 6];
    for i in 0..6 {
        l[i] = u64::from_le_bytes(b[8 * i..8 * i + 8].try_into().unwrap());
    }
    l
}
/// 48 big-endian bytes -> little-endian limbs
pub fn be_limbs6(b: &[u8]) -> [u64; 6] {
    let mut l = [0u64; 6];
    for i in 0..6 {
        l[5 - i] = u64::from_be_bytes(b[8 * i..8 * i + 8].try_into().unwrap());
    }
    l
}
pub fn limbs6_to_le(l: &[u64; 6]) -> [u8; 48] {
    let mut b = [0u8; 48];
    for i in 0..6 {
        b[8 * i..8 * i + 8].copy_from_slice(&l[i].to_le_bytes());
    }
    b
}
pub fn limbs6_to_be(l: &[u64; 6]) -> [u8; 48] {
    let mut b = [0u8; 48];
    for i in 0..6 {
        b[8 * i..8 * i + 8].copy_from_slice(&l[5 - i].to_be_bytes());
    }
    b
}
pub fn add6(a: &[u64; 6], b: &[u64; 6]) -> ([u64; 6], bool) {
    let mut o = [0u64; 6];
    let mut c = 0u128;
    for i in 0..6 {
        let s = a[i] as u128 + b[i] as u128 + c;
        o[i] = s as u64;
        c = s >> 64;
    }
    (o, c != 0)
}
pub fn scalar_canonical(b: &[u8]) -> bool {
    lt_limbs(&le_limbs4(b), &SCALAR_R)
}
pub fn fp_lt_p(l: &[u64; 6]) -> bool {
    lt_limbs(l, &FP_P)
}

#[derive(Clone, Debug)]
pub struct Defect {
    pub section: &'static str,
    pub kind: &'static str,
    pub path: String,
    pub off: usize,
}

/// Element-level check of one compressed G1 encoding.
pub fn check_g1c(b: &[u8], nonid: bool) -> Result<(), &'static str> {
    let flags = b[0] >> 5;
    let (comp, inf, sort) = (flags & 4 != 0, flags & 2 != 0, flags & 1 != 0);
    if !comp {
        return Err("g1-compression-flag-clear");
    }
    let mut x = [0u8; 48];
    x.copy_from_slice(b);
    x[0] &= 0x1f;
    if inf {
        if sort || x.iter().any(|v| *v != 0) {
            return Err("g1-infinity-junk");
        }
        return if nonid { Err("g1-identity") } else { Ok(()) };
    }
    if !fp_lt_p(&be_limbs6(&x)) {
        return Err("g1-x-ge-p");
    }
    let arr: [u8; 48] = b.try_into().unwrap();
    let p: Option<G1Affine> = G1Affine::from_compressed_unchecked(&arr).into();
    let Some(p) = p else { return Err("g1-off-curve") };
    if !bool::from(p.is_on_curve()) {
        return Err("g1-off-curve");
    }
    if !bool::from(p.is_torsion_free()) {
        return Err("g1-not-in-subgroup");
    }
    Ok(())
}

pub fn check_g2c(b: &[u8], nonid: bool) -> Result<(), &'static str> {
    let flags = b[0] >> 5;
    let (comp, inf, sort) = (flags & 4 != 0, flags & 2 != 0, flags & 1 != 0);
    if !comp {
        return Err("g2-compression-flag-clear");
    }
    let mut x = [0u8; 96];
    x.copy_from_slice(b);
    x[0] &= 0x1f;
    if inf {
        if sort || x.iter().any(|v| *v != 0) {
            return Err("g2-infinity-junk");
        }
        return if nonid { Err("g2-identity") } else { Ok(()) };
    }
    if !fp_lt_p(&be_limbs6(&x[..48])) || !fp_lt_p(&be_limbs6(&x[48..])) {
        return Err("g2-x-ge-p");
    }
    let arr: [u8; 96] = b.try_into().unwrap();
    let p: Option<G2Affine> = G2Affine::from_compressed_unchecked(&arr).into();
    let Some(p) = p else { return Err("g2-off-curve") };
    if !bool::from(p.is_on_curve()) {
        return Err("g2-off-curve");
    }
    if !bool::from(p.is_torsion_free()) {
        return Err("g2-not-in-subgroup");
    }
    Ok(())
}

/// Raw identity as the encoder writes it.
pub fn raw_identity() -> [u8; 97] {
    G1Affine::identity().to_raw_bytes()
}

/// Element-level check of one raw (97-byte) commit-key point.
pub fn check_g1raw(b: &[u8]) -> Result<(), &'static str> {
    let flag = b[96];
    if flag > 1 {
        return Err("raw-flag-not-bool");
    }
    let x = le_limbs6(&b[..48]);
    let y = le_limbs6(&b[48..96]);
    if !fp_lt_p(&x) || !fp_lt_p(&y) {
        return Err("raw-limb-ge-p");
    }
    if flag == 1 {
        if b[..96] != raw_identity()[..96] {
            return Err("raw-infinity-junk");
        }
        return Ok(());
    }
    // flag is 0 here, so the crate's Choice conversion is well defined.
    let p = unsafe { G1Affine::from_slice_unchecked(b) };
    if !bool::from(p.is_on_curve()) {
        return Err("raw-off-curve");
    }
    if !bool::from(p.is_torsion_free()) {
        return Err("raw-not-in-subgroup");
    }
    Ok(())
}

/// Validate every element of a layout against the bytes.
pub fn check_elements(fields: &[Field], b: &[u8]) -> Result<(), Defect> {
    for f in fields {
        let s = &b[f.off..f.off + f.len];
        let r = match f.kind {
            Kind::Scalar => {
                let own = scalar_canonical(s);
                let arr: [u8; 32] = s.try_into().unwrap();
                let lib = bool::from(BlsScalar::from_bytes(&arr).is_some());
                if own != lib {
                    Err("scalar-canonicity-disagreement")
                } else if own {
                    Ok(())
                } else {
                    Err("scalar-ge-r")
                }
            }
            Kind::G1c(nonid) => check_g1c(s, nonid),
            Kind::G2c(nonid) => check_g2c(s, nonid),
            Kind::G1raw => check_g1raw(s),
            _ => Ok(()),
        };
        if let Err(kind) = r {
            return Err(Defect { section: f.section, kind, path: f.path.clone(), off: f.off });
        }
    }
    Ok(())
}

// ---------------------------------------------------------------- layouts

struct Rd<'a> {
    b: &'a [u8],
    off: usize,
    end: usize,
    out: Vec<Field>,
}

impl<'a> Rd<'a> {
    fn need(&self, n: usize, what: &str) -> Result<(), Defect> {
        if self.off.checked_add(n).map(|e| e <= self.end) != Some(true) {
            return Err(Defect { section: "structure", kind: "structure", path: what.to_string(), off: self.off });
        }
        Ok(())
    }
    fn field(&mut self, path: String, section: &'static str, pos: String, len: usize, kind: Kind, structural: bool) -> Result<usize, Defect> {
        self.need(len, &path)?;
        let off = self.off;
        self.out.push(Field { path, section, pos, off, len, kind, counts: 0, structural });
        self.off += len;
        Ok(off)
    }
    fn u64be(&mut self, path: &str, section: &'static str, counts: usize) -> Result<u64, Defect> {
        let off = self.field(path.to_string(), section, path.to_string(), 8, Kind::U64Be, true)?;
        self.out.last_mut().unwrap().counts = counts;
        Ok(u64::from_be_bytes(self.b[off..off + 8].try_into().unwrap()))
    }
    fn u64le(&mut self, path: &str, section: &'static str, counts: usize) -> Result<u64, Defect> {
        let off = self.field(path.to_string(), section, path.to_string(), 8, Kind::U64Le, true)?;
        self.out.last_mut().unwrap().counts = counts;
        Ok(u64::from_le_bytes(self.b[off..off + 8].try_into().unwrap()))
    }
    fn u32le(&mut self, path: &str, section: &'static str) -> Result<u32, Defect> {
        let off = self.field(path.to_string(), section, path.to_string(), 4, Kind::U32Le, true)?;
        Ok(u32::from_le_bytes(self.b[off..off + 4].try_into().unwrap()))
    }
    fn array(&mut self, base: &str, section: &'static str, n: usize, len: usize, kind: Kind) -> Result<(), Defect> {
        let total = n.checked_mul(len).ok_or(Defect { section: "structure", kind: "structure", path: base.to_string(), off: self.off })?;
        self.need(total, base)?;
        for i in 0..n {
            let (pc, st) = if i == 0 {
                ("first", true)
            } else if i == n - 1 {
                ("last", true)
            } else {
                ("mid", false)
            };
            self.field(format!("{}[{}]", base, i), section, format!("{}:{}", base, pc), len, kind, st)?;
        }
        Ok(())
    }
    fn single(&mut self, path: &str, section: &'static str, len: usize, kind: Kind) -> Result<(), Defect> {
        self.field(path.to_string(), section, path.to_string(), len, kind, true).map(|_| ())
    }
    fn pad_to_end(&mut self, path: &str, section: &'static str) {
        if self.off < self.end {
            let len = self.end - self.off;
            let _ = self.field(path.to_string(), section, path.to_string(), len, Kind::Pad, false);
        }
    }
}

pub const POLYS: [&str; 15] = ["q_m", "q_l", "q_r", "q_o", "q_f", "q_c", "q_arith", "q_logic", "q_range", "q_fixed", "q_var", "s_sigma_1", "s_sigma_2", "s_sigma_3", "s_sigma_4"];
pub const VK_COMMS: [&str; 15] = POLYS;
pub const DOMAIN_SIZE: usize = 8 + 4 + 5 * 32;

fn evals(r: &mut Rd, base: &str, eval_size: usize) -> Result<(), Defect> {
    let sec = "prover_key";
    if eval_size < DOMAIN_SIZE || (eval_size - DOMAIN_SIZE) % 32 != 0 {
        return Err(Defect { section: "structure", kind: "structure", path: format!("{}/evals", base), off: r.off });
    }
    r.need(eval_size, base)?;
    r.u64le(&format!("{}/domain/size", base), sec, 32)?;
    r.u32le(&format!("{}/domain/log_size", base), sec)?;
    for nm in ["size_fe", "size_inv", "group_gen", "group_gen_inv", "generator_inv"] {
        r.single(&format!("{}/domain/{}", base, nm), sec, 32, Kind::Scalar)?;
    }
    r.array(&format!("{}/evals", base), sec, (eval_size - DOMAIN_SIZE) / 32, 32, Kind::Scalar)
}

fn prover_key(r: &mut Rd) -> Result<(), Defect> {
    let sec = "prover_key";
    r.u64le("prover_key/n", sec, 0)?;
    let eval_size = r.u64le("prover_key/eval_size", sec, 1)? as usize;
    for nm in POLYS {
        let base = format!("prover_key/{}", nm);
        let len = r.u64le(&format!("{}/poly_len", base), sec, 32)? as usize;
        r.array(&format!("{}/coeff", base), sec, len, 32, Kind::Scalar)?;
        evals(r, &base, eval_size)?;
    }
    evals(r, "prover_key/linear", eval_size)?;
    evals(r, "prover_key/v_h", eval_size)?;
    r.pad_to_end("prover_key/pad", sec);
    Ok(())
}

fn commit_key_raw(r: &mut Rd) -> Result<(), Defect> {
    let n = r.u64le("commit_key/len", "commit_key", 97)? as usize;
    r.array("commit_key/point", "commit_key", n, 97, Kind::G1raw)?;
    r.pad_to_end("commit_key/pad", "commit_key");
    Ok(())
}

fn verifier_key(r: &mut Rd) -> Result<(), Defect> {
    r.u64le("verifier_key/n", "verifier_key", 0)?;
    for nm in VK_COMMS {
        r.single(&format!("verifier_key/{}", nm), "verifier_key", 48, Kind::G1c(false))?;
    }
    r.pad_to_end("verifier_key/pad", "verifier_key");
    Ok(())
}

fn opening_key(r: &mut Rd) -> Result<(), Defect> {
    r.single("opening_key/g", "opening_key", 48, Kind::G1c(true))?;
    r.single("opening_key/h", "opening_key", 96, Kind::G2c(true))?;
    r.single("opening_key/x_h", "opening_key", 96, Kind::G2c(true))?;
    Ok(())
}

fn section<F: FnOnce(&mut Rd) -> Result<(), Defect>>(r: &mut Rd, len: usize, what: &str, f: F) -> Result<(), Defect> {
    r.need(len, what)?;
    let outer_end = r.end;
    r.end = r.off + len;
    let res = f(r);
    let e = r.end;
    r.end = outer_end;
    res?;
    r.off = e;
    Ok(())
}

pub fn layout(class: Class, b: &[u8]) -> Result<Vec<Field>, Defect> {
    let mut r = Rd { b, off: 0, end: b.len(), out: vec![] };
    match class {
        Class::Prover => {
            let ll = r.u64be("header/label_len", "header", 1)? as usize;
            let pl = r.u64be("header/prover_key_len", "header", 1)? as usize;
            let cl = r.u64be("header/commit_key_len", "header", 1)? as usize;
            let vl = r.u64be("header/verifier_key_len", "header", 1)? as usize;
            r.u64be("header/size", "header", 0)?;
            r.u64be("header/constraints", "header", 0)?;
            r.field("label".into(), "label", "label".into(), ll, Kind::Bytes, false)?;
            section(&mut r, pl, "prover_key", prover_key)?;
            section(&mut r, cl, "commit_key", commit_key_raw)?;
            section(&mut r, vl, "verifier_key", verifier_key)?;
            r.pad_to_end("trailing", "trailing");
        }
        Class::Verifier => {
            let ll = r.u64be("header/label_len", "header", 1)? as usize;
            let vl = r.u64be("header/verifier_key_len", "header", 1)? as usize;
            let ol = r.u64be("header/opening_key_len", "header", 1)? as usize;
            let pc = r.u64be("header/pi_count", "header", 8)? as usize;
            r.u64be("header/size", "header", 0)?;
            r.u64be("header/constraints", "header", 0)?;
            r.field("label".into(), "label", "label".into(), ll, Kind::Bytes, false)?;
            section(&mut r, vl, "verifier_key", verifier_key)?;
            section(&mut r, ol, "opening_key", |r| {
                opening_key(r)?;
                r.pad_to_end("opening_key/pad", "opening_key");
                Ok(())
            })?;
            r.array("pi_indexes/index", "pi_indexes", pc, 8, Kind::U64Be)?;
            r.pad_to_end("trailing", "trailing");
        }
        Class::Proof => {
            for nm in ["a", "b", "c", "d", "z", "t_low", "t_mid", "t_high", "t_fourth", "w_z", "w_zw"] {
                r.single(&format!("commitments/{}", nm), "commitments", 48, Kind::G1c(false))?;
            }
            for nm in ["a", "b", "c", "d", "a_w", "b_w", "d_w", "q_arith", "q_c", "q_l", "q_r", "s_sigma_1", "s_sigma_2", "s_sigma_3", "z"] {
                r.single(&format!("evaluations/{}", nm), "evaluations", 32, Kind::Scalar)?;
            }
            r.pad_to_end("trailing", "trailing");
        }
        Class::Pp => {
            opening_key(&mut r)?;
            let rest = r.end - r.off;
            if rest == 0 || rest % 48 != 0 {
                return Err(Defect { section: "structure", kind: "structure", path: "commit_key".into(), off: r.off });
            }
            r.array("commit_key/point", "commit_key", rest / 48, 48, Kind::G1c(false))?;
        }
        Class::Cc => {
            let n = b.len();
            r.field("stream".into(), "stream", "stream".into(), n, Kind::Bytes, false)?;
        }
    }
    Ok(r.out)
}

/// Raw public-parameter form (`to_raw_var_bytes`): opening key, count, raw points.
pub fn layout_pp_raw(b: &[u8]) -> Result<Vec<Field>, Defect> {
    let mut r = Rd { b, off: 0, end: b.len(), out: vec![] };
    opening_key(&mut r)?;
    commit_key_raw(&mut r)?;
    Ok(r.out)
}

/// Full strict check: structure + every element.
pub fn strict(class: Class, b: &[u8]) -> Result<Vec<Field>, Defect> {
    let l = layout(class, b)?;
    check_elements(&l, b)?;
    Ok(l)
}

// ---------------------------------------------------------------- invalid elements

pub fn scalar_bad() -> Vec<(&'static str, [u8; 32])> {
    let mut r = [0u8; 32];
    for i in 0..4 {
        r[8 * i..8 * i + 8].copy_from_slice(&SCALAR_R[i].to_le_bytes());
    }
    let mut r1 = r;
    r1[0] += 1;
    vec![("r", r), ("r+1", r1), ("2^256-1", [0xff; 32])]
}

fn g1_x(x: u64) -> [u8; 48] {
    let mut b = [0u8; 48];
    b[40..].copy_from_slice(&x.to_be_bytes());
    b[0] |= 0x80;
    b
}

pub struct BadPoints {
    pub g1c: Vec<(&'static str, [u8; 48])>,
    pub g2c: Vec<(&'static str, [u8; 96])>,
    /// on-curve points outside the subgroup (affine), for the raw format
    pub g1_nonsub: G1Affine,
    pub g1_torsion: G1Affine,
}

pub fn bad_points() -> BadPoints {
    // G1
    let mut off = None;
    let mut nonsub = None;
    for x in 1u64..200 {
        let enc = g1_x(x);
        let p: Option<G1Affine> = G1Affine::from_compressed_unchecked(&enc).into();
        match p {
            None if off.is_none() => off = Some(enc),
            Some(p) if nonsub.is_none() && !bool::from(p.is_torsion_free()) && bool::from(p.is_on_curve()) => nonsub = Some((enc, p)),
            _ => {}
        }
    }
    let off = off.expect("a non-residue x");
    let (nonsub_enc, nonsub_p) = nonsub.expect("an on-curve point outside the subgroup");
    // [r]P = [r-1]P + P lies in the cofactor torsion
    let tors = G1Affine::from(G1Projective::from(nonsub_p) * (-BlsScalar::one()) + G1Projective::from(nonsub_p));
    assert!(bool::from(tors.is_on_curve()) && !bool::from(tors.is_identity()) && !bool::from(tors.is_torsion_free()));
    let tors_enc = tors.to_compressed();
    let mut inf_junk = [0u8; 48];
    inf_junk[0] = 0xc0;
    inf_junk[47] = 1;
    let mut inf_sort = [0u8; 48];
    inf_sort[0] = 0xe0;
    let gen = G1Affine::generator().to_compressed();
    let mut nocomp = gen;
    nocomp[0] &= 0x7f;
    let mut x_p = limbs6_to_be(&FP_P);
    x_p[0] |= 0x80;
    let mut x_p1 = limbs6_to_be(&add6(&FP_P, &[1, 0, 0, 0, 0, 0]).0);
    x_p1[0] |= 0x80;
    let mut ident = [0u8; 48];
    ident[0] = 0xc0;
    let g1c = vec![
        ("g1-off-curve", off),
        ("g1-not-in-subgroup", nonsub_enc),
        ("g1-not-in-subgroup", tors_enc),
        ("g1-infinity-junk", inf_junk),
        ("g1-infinity-junk", inf_sort),
        ("g1-compression-flag-clear", nocomp),
        ("g1-x-ge-p", x_p),
        ("g1-x-ge-p", x_p1),
        ("g1-identity", ident),
    ];
    // G2: x = c1 (first 48 bytes, flags) || c0
    let mut off2 = None;
    let mut nonsub2 = None;
    for x in 1u64..400 {
        let mut enc = [0u8; 96];
        enc[88..].copy_from_slice(&x.to_be_bytes());
        enc[0] |= 0x80;
        let p: Option<G2Affine> = G2Affine::from_compressed_unchecked(&enc).into();
        match p {
            None if off2.is_none() => off2 = Some(enc),
            Some(p) if nonsub2.is_none() && !bool::from(p.is_torsion_free()) && bool::from(p.is_on_curve()) => nonsub2 = Some((enc, p)),
            _ => {}
        }
    }
    let off2 = off2.expect("g2 non-residue");
    let (nonsub2_enc, nonsub2_p) = nonsub2.expect("g2 point outside the subgroup");
    let tors2 = G2Affine::from(G2Projective::from(nonsub2_p) * (-BlsScalar::one()) + G2Projective::from(nonsub2_p));
    assert!(bool::from(tors2.is_on_curve()) && !bool::from(tors2.is_identity()) && !bool::from(tors2.is_torsion_free()));
    let mut inf_junk2 = [0u8; 96];
    inf_junk2[0] = 0xc0;
    inf_junk2[95] = 1;
    let mut inf_sort2 = [0u8; 96];
    inf_sort2[0] = 0xe0;
    let gen2 = G2Affine::generator().to_compressed();
    let mut nocomp2 = gen2;
    nocomp2[0] &= 0x7f;
    let mut x_p2 = [0u8; 96];
    x_p2[..48].copy_from_slice(&limbs6_to_be(&FP_P));
    x_p2[0] |= 0x80;
    let mut x_p2b = gen2;
    x_p2b[48..].copy_from_slice(&limbs6_to_be(&FP_P));
    let mut ident2 = [0u8; 96];
    ident2[0] = 0xc0;
    let g2c = vec![
        ("g2-off-curve", off2),
        ("g2-not-in-subgroup", nonsub2_enc),
        ("g2-not-in-subgroup", tors2.to_compressed()),
        ("g2-infinity-junk", inf_junk2),
        ("g2-infinity-junk", inf_sort2),
        ("g2-compression-flag-clear", nocomp2),
        ("g2-x-ge-p", x_p2),
        ("g2-x-ge-p", x_p2b),
        ("g2-identity", ident2),
    ];
    BadPoints { g1c, g2c, g1_nonsub: nonsub_p, g1_torsion: tors }
}

/// Invalid variants of a valid raw point (97 bytes).
pub fn raw_bad(valid: &[u8], bp: &BadPoints) -> Vec<(&'static str, Vec<u8>)> {
    let mut out: Vec<(&'static str, Vec<u8>)> = vec![];
    for fl in [2u8, 3, 0x80, 0xff] {
        let mut v = valid.to_vec();
        v[96] = fl;
        out.push(("raw-flag-not-bool", v));
    }
    let x = le_limbs6(&valid[..48]);
    let y = le_limbs6(&valid[48..96]);
    let (xp, c1) = add6(&x, &FP_P);
    let (yp, c2) = add6(&y, &FP_P);
    assert!(!c1 && !c2);
    let mut v = valid.to_vec();
    v[..48].copy_from_slice(&limbs6_to_le(&xp));
    out.push(("raw-limb-ge-p", v));
    let mut v = valid.to_vec();
    v[48..96].copy_from_slice(&limbs6_to_le(&yp));
    out.push(("raw-limb-ge-p", v));
    let mut v = valid.to_vec();
    v[..48].copy_from_slice(&limbs6_to_le(&xp));
    v[48..96].copy_from_slice(&limbs6_to_le(&yp));
    out.push(("raw-limb-ge-p", v));
    let mut v = valid.to_vec();
    v[..48].copy_from_slice(&[0xff; 48]);
    out.push(("raw-limb-ge-p", v));
    // infinity flag with the (valid, non-identity) coordinates left in place
    let mut v = valid.to_vec();
    v[96] = 1;
    out.push(("raw-infinity-junk", v));
    let mut v = vec![0u8; 97];
    v[0] = 5;
    v[48] = 7;
    v[96] = 1;
    out.push(("raw-infinity-junk", v));
    // off-curve
    let mut v = valid.to_vec();
    v[48] ^= 1;
    out.push(("raw-off-curve", v));
    let mut v = vec![0u8; 97];
    v[0] = 1;
    out.push(("raw-off-curve", v));
    out.push(("raw-not-in-subgroup", bp.g1_nonsub.to_raw_bytes().to_vec()));
    out.push(("raw-not-in-subgroup", bp.g1_torsion.to_raw_bytes().to_vec()));
    // a well-formed identity (valid)
    out.push(("raw-identity-canonical", raw_identity().to_vec()));
    out
}

/// Self-test of the constants and constructions (vacuity / sanity gates).
pub fn self_test() -> Result<(), String> {
    // r: r-1 canonical, r not
    let bad = scalar_bad();
    let mut rm1 = bad[0].1;
    rm1[0] -= 1;
    if !scalar_canonical(&rm1) || scalar_canonical(&bad[0].1) {
        return Err("scalar modulus constant".into());
    }
    if !bool::from(BlsScalar::from_bytes(&rm1).is_some()) || bool::from(BlsScalar::from_bytes(&bad[0].1).is_some()) {
        return Err("scalar modulus disagrees with the library".into());
    }
    // p: x = p rejected by the library, p - 1 parsed as a field element (may be off-curve)
    let bp = bad_points();
    for (k, e) in &bp.g1c {
        let want = if *k == "g1-identity" { Ok(()) } else { Err(*k) };
        if check_g1c(e, false) != want {
            return Err(format!("g1 construction {} classified {:?}", k, check_g1c(e, false)));
        }
    }
    if check_g1c(&bp.g1c.last().unwrap().1, true) != Err("g1-identity") {
        return Err("g1 identity not flagged".into());
    }
    for (k, e) in &bp.g2c {
        let want = if *k == "g2-identity" { Ok(()) } else { Err(*k) };
        if check_g2c(e, false) != want {
            return Err(format!("g2 construction {} classified {:?}", k, check_g2c(e, false)));
        }
    }
    let gen = G1Affine::generator();
    if check_g1c(&gen.to_compressed(), true).is_err() || check_g2c(&G2Affine::generator().to_compressed(), true).is_err() {
        return Err("generators rejected".into());
    }
    let raw = gen.to_raw_bytes();
    if check_g1raw(&raw).is_err() {
        return Err("raw generator rejected".into());
    }
    for (k, e) in raw_bad(&raw, &bp) {
        let want = if k == "raw-identity-canonical" { Ok(()) } else { Err(k) };
        if check_g1raw(&e) != want {
            return Err(format!("raw construction {} classified {:?}", k, check_g1raw(&e)));
        }
    }
    Ok(())
}
