//! C14 — fixed-base multiplication returns [s]G for canonical s only.

use dusk_jubjub::{JubJubExtended, GENERATOR_EXTENDED, GENERATOR_NUMS_EXTENDED};
use serde_json::json;

use crate::e2::Gadget;
use crate::ev::{Run, Tier};
use crate::fe::*;
use crate::gadget::*;
use crate::m5::{self, Pt};

type Digits = [i8; 256];

/// Signed integer value of a digit vector (digit i weighs 2^i), as
/// (negative?, magnitude).
fn digits_value(d: &Digits) -> (bool, U320) {
    let mut pos = U320::zero();
    let mut neg = U320::zero();
    for i in 0..256 {
        match d[i] {
            1 => pos = pos.add(&U320::pow2(i)),
            -1 => neg = neg.add(&U320::pow2(i)),
            _ => {}
        }
    }
    if pos.lt(&neg) {
        (true, neg.sub(&pos))
    } else {
        (false, pos.sub(&neg))
    }
}

/// Width-2 NAF of a non-negative integer below 2^255 (own code).
fn naf(v: &U320) -> Digits {
    let mut d = [0i8; 256];
    let mut n = *v;
    let mut i = 0;
    while n != U320::zero() && i < 256 {
        if n.bit(0) == 1 {
            // n mod 4
            let m = (n.bit(0) + 2 * n.bit(1)) as i8;
            if m == 1 {
                d[i] = 1;
                n = n.sub(&U320::from_u64(1));
            } else {
                d[i] = -1;
                n = n.add(&U320::from_u64(1));
            }
        }
        n = n.shr(1);
        i += 1;
    }
    d
}

fn binary(v: &U320) -> Digits {
    let mut d = [0i8; 256];
    for i in 0..256 {
        d[i] = v.bit(i) as i8;
    }
    d
}

fn generators(tier: Tier) -> Vec<(String, JubJubExtended)> {
    let rho = dusk_jubjub::JubJubScalar::from(Rho::new(seed(), 1414).next_u64());
    let _ = tier;
    let ga = Pt::from_jubjub(GENERATOR_EXTENDED);
    // the same generators in OTHER extended representations: Z != 1 (anything that comes
    // out of group arithmetic) and the rescaling by -1
    vec![
        ("G".to_string(), GENERATOR_EXTENDED),
        ("Gnums".to_string(), GENERATOR_NUMS_EXTENDED),
        ("rhoG".to_string(), GENERATOR_EXTENDED * rho),
        ("G(Z=-1)".to_string(), JubJubExtended::from_raw_unchecked(-ga.x, -ga.y, neg1(), -ga.x, ga.y)),
    ]
}

fn scalars() -> Vec<(String, Fe)> {
    let rj = r_jubjub();
    let mut rho = Rho::new(seed(), 1415);
    let canon = {
        // a canonical JubJub scalar: rho mod 2^251 < r_J
        m5::low_bits(&rho.next_fe(), 251)
    };
    vec![
        ("0".into(), zero()),
        ("1".into(), one()),
        ("2".into(), fe(2)),
        ("rJ-1".into(), rj - one()),
        ("rJ".into(), rj),
        ("rJ+1".into(), rj + one()),
        ("2^252-1".into(), pow2(252) - one()),
        ("2^252".into(), pow2(252)),
        ("-1".into(), neg1()),
        ("rho".into(), canon),
    ]
}

fn mul_native(g: &JubJubExtended, k: &U320) -> Pt {
    Pt::from_jubjub(*g).mul(k).unwrap()
}

/// Crafted attack: shift the returned point by (delta, eps) such that the x-
/// and y-accumulator residuals of the last fixed-base round are +t and -t (the
/// pair a shared separation weight would merge). Rejected by the row model;
/// always replayed on the real prover.
fn cancelling_point_shift(h: &crate::e2::Honest) -> Vec<crate::e2::Dev> {
    let mut devs = vec![];
    if h.meta.outs.len() != 2 {
        return devs;
    }
    let (ox, oy) = (h.meta.outs[0], h.meta.outs[1]);
    let snap = &h.snap;
    let Some(anchor) = snap.gates.iter().position(|g| g.w[0] == ox && g.w[1] == oy) else { return devs };
    if anchor == 0 {
        return devs;
    }
    let g = &snap.gates[anchor - 1];
    let (a, b, c) = (snap.witnesses[g.w[0]], snap.witnesses[g.w[1]], snap.witnesses[g.w[2]]);
    let k = c * a * b * crate::m1::edwards_d();
    if one() - k == zero() {
        return devs;
    }
    for delta in [one(), fe(12345)] {
        let eps = -(delta * (one() + k)) * inv(one() - k);
        devs.push(crate::e2::Dev { script: vec![(ox, snap.witnesses[ox] + delta), (oy, snap.witnesses[oy] + eps)], tag: format!("cancelling-point-shift({})", hex(&delta)), must_confirm: true });
    }
    devs
}

/// What happened to the scalar witness before the component was called.
#[derive(Clone, Copy)]
enum Hist {
    Range(usize),
    OtherGenerator,
    SameGenerator,
}

impl Hist {
    fn name(&self) -> String {
        match self {
            Hist::Range(w) => format!("range{}", w),
            Hist::OtherGenerator => "mul_generator(other)".into(),
            Hist::SameGenerator => "mul_generator(same)".into(),
        }
    }
    fn apply(&self, c: &mut dusk_plonk::prelude::Composer, s: dusk_plonk::prelude::Witness) -> Result<(), dusk_plonk::prelude::Error> {
        match self {
            Hist::Range(w) => crate::dispatch::range_bits(c, s, *w),
            Hist::OtherGenerator => {
                c.component_mul_generator(s, GENERATOR_NUMS_EXTENDED * dusk_jubjub::JubJubScalar::from(3u64))?;
            }
            Hist::SameGenerator => {
                c.component_mul_generator(s, GENERATOR_EXTENDED)?;
            }
        }
        Ok(())
    }
}

fn seam_case(gn: &str, g: JubJubExtended, sn: &str, s: Fe, dn: &str, d: Digits, tier: Tier, explore: bool) -> GCase {
    let gadget = Gadget::new(&format!("fixed_base/{}/s={}/digits={}", gn, sn, dn), vec![s], move |c, ins| {
        let p = c.verif_fixed_base_signed_digits(ins[0], g, &d)?;
        Ok(vec![*p.x(), *p.y()])
    });
    // oracle: canonical scalar, three leading zero digits, digits encode s as an integer
    let canonical = U320::from_fe(&s).lt(&U320::from_fe(&r_jubjub()));
    let (negv, mag) = digits_value(&d);
    let leading_zero = d[253] == 0 && d[254] == 0 && d[255] == 0;
    let encodes = !negv && mag == U320::from_fe(&s);
    let e = if canonical && leading_zero && encodes {
        let p = mul_native(&g, &U320::from_fe(&s));
        Expect::Sat(vec![p.x, p.y])
    } else {
        // the digit vector is the prover's choice: other assignments of the
        // gadget's witnesses (other digit vectors) may satisfy it iff s is canonical
        if canonical {
            Expect::UnsatHonest
        } else {
            Expect::Unsat
        }
    };
    let class = format!("fixed_base/{}", if canonical { "canonical-scalar" } else { "non-canonical-scalar" });
    let mut c = GCase::new(gadget, e, &class);
    c.dev_stride = if explore { tier.pick(13, 1) } else { 0 };
    c.confirm = explore;
    if explore {
        c.named = Some(std::sync::Arc::new(|h: &crate::e2::Honest| cancelling_point_shift(h)));
    }
    c
}

pub fn cases(tier: Tier) -> Vec<GCase> {
    let mut out = vec![];
    let q = U320::modulus();
    let rj = U320::from_fe(&r_jubjub());
    for (gn, g) in generators(tier) {
        for (sn, s) in scalars() {
            let si = U320::from_fe(&s);
            // public entry point
            let gadget = Gadget::new(&format!("mul_generator/{}/s={}", gn, sn), vec![s], move |c, ins| {
                let p = c.component_mul_generator(ins[0], g)?;
                Ok(vec![*p.x(), *p.y()])
            });
            let canonical = si.lt(&rj);
            let e = if canonical {
                let p = mul_native(&g, &si);
                Expect::Sat(vec![p.x, p.y])
            } else {
                Expect::Unsat
            };
            let mut c = GCase::new(gadget, e, "mul_generator");
            c.dev_stride = tier.pick(13, 1);
            c.named = Some(std::sync::Arc::new(|h: &crate::e2::Honest| cancelling_point_shift(h)));
            c.rewire = canonical && (tier == Tier::Thorough || (gn == "G" && (sn == "1" || sn == "rho")));
            out.push(c);
            // quick: the non-normalised representations go through the public entry point only
            if tier == Tier::Quick && (gn == "rhoG" || gn == "G(Z=-1)") {
                continue;
            }

            // prover-chosen digit vectors through the seam
            let honest = naf(&si.low(255));
            let mut menu: Vec<(String, Digits, bool)> = vec![("naf(s)".into(), honest, true), ("binary(s)".into(), binary(&si.low(255)), true)];
            // encodings of s + q, s + r_J, s - r_J (when non-negative), s + 2^253
            let plus_q = si.add(&q);
            if plus_q.lt(&U320::pow2(256)) {
                menu.push(("binary(s+q)".into(), binary(&plus_q), true));
                if plus_q.lt(&U320::pow2(255)) {
                    menu.push(("naf(s+q)".into(), naf(&plus_q), false));
                }
            }
            let plus_r = si.add(&rj);
            menu.push(("naf(s+rJ)".into(), naf(&plus_r), false));
            if !si.lt(&rj) {
                menu.push(("naf(s-rJ)".into(), naf(&si.sub(&rj)), true));
                menu.push(("binary(s-rJ)".into(), binary(&si.sub(&rj)), false));
            }
            if si.lt(&U320::pow2(253)) {
                menu.push(("naf(s)+2^253".into(), { let mut d = honest; if d[253] == 0 { d[253] = 1; } d }, false));
                menu.push(("naf(s)+2^255-2^254-2^254".into(), { let mut d = honest; d[255] = 1; d[254] = -1; d }, false));
            }
            // NAF rewrites (-1, 1) <-> (1, 0) and (1, -1) <-> (-1, 0)+carry at every position: same integer
            let rewrite_positions: Vec<usize> = tier.pick((0..252).step_by(17).collect(), (0..252).collect());
            for i in rewrite_positions {
                let mut d = honest;
                if d[i] == 0 && d[i + 1] == 1 {
                    // 2^(i+1) = 2^(i+2) - 2^(i+1) is not a single rewrite; use 2^(i+1) = 2*2^i: (1 at i) twice is not allowed; skip
                    continue;
                }
                if d[i] == -1 && d[i + 1] == 1 {
                    d[i] = 1;
                    d[i + 1] = 0;
                    menu.push((format!("rewrite@{}", i), d, false));
                } else if d[i] == 1 && d[i + 1] == 0 && i + 1 < 253 {
                    d[i] = -1;
                    d[i + 1] = 1;
                    menu.push((format!("rewrite@{}", i), d, false));
                }
            }
            // every single-digit deviation of the honest vector
            let positions: Vec<usize> = tier.pick((0..256).filter(|i| i % 9 == 0 || *i >= 250).collect(), (0..256).collect());
            for i in positions {
                for v in [-1i8, 0, 1] {
                    if honest[i] != v {
                        let mut d = honest;
                        d[i] = v;
                        menu.push((format!("digit{}={}", i, v), d, false));
                    }
                }
            }
            for (dn, d, explore) in menu {
                // explore allocations only for the principal vectors of the first generator
                let explore = explore && (tier == Tier::Thorough || gn == "G");
                out.push(seam_case(&gn, g, &sn, s, &dn, d, tier, explore));
            }

            // non-initial composer states: the component was already used with OTHER generators
            // (every sequence of up to three earlier multiplications over four generators)
            if gn == "G" && (sn == "1" || sn == "rJ-1" || sn == "rJ") {
                let pool: Vec<JubJubExtended> = vec![
                    GENERATOR_EXTENDED,
                    GENERATOR_NUMS_EXTENDED,
                    GENERATOR_NUMS_EXTENDED * dusk_jubjub::JubJubScalar::from(3u64),
                    GENERATOR_EXTENDED * dusk_jubjub::JubJubScalar::from(5u64),
                ];
                let mut seqs: Vec<Vec<usize>> = vec![];
                let mut frontier: Vec<Vec<usize>> = vec![vec![]];
                for _ in 0..3 {
                    let mut next = vec![];
                    for f in &frontier {
                        for i in 0..pool.len() {
                            let mut n = f.clone();
                            n.push(i);
                            next.push(n);
                        }
                    }
                    seqs.extend(next.iter().cloned());
                    frontier = next;
                }
                for (qi, seq) in seqs.iter().enumerate() {
                    let hname = format!("generators{:?}", seq);
                    let gens: Vec<JubJubExtended> = seq.iter().map(|i| pool[*i]).collect();
                    let gadget = Gadget::new(&format!("mul_generator/{}/s={}", gn, sn), vec![s], move |c, ins| {
                        let p = c.component_mul_generator(ins[0], g)?;
                        Ok(vec![*p.x(), *p.y()])
                    })
                    .with_prelude(&hname, move |c, _| {
                        for (j, h) in gens.iter().enumerate() {
                            let k = c.append_witness(fe(2 + j as u64));
                            c.component_mul_generator(k, *h)?;
                        }
                        Ok(())
                    });
                    let e = if canonical {
                        let p = mul_native(&g, &si);
                        Expect::Sat(vec![p.x, p.y])
                    } else {
                        Expect::Unsat
                    };
                    let mut c = GCase::new(gadget, e, "mul_generator/after-other-generators");
                    c.dev_stride = 0;
                    c.confirm = tier == Tier::Thorough || qi % 8 == 0;
                    out.push(c);
                }
            }

            // non-initial composer states: the scalar witness already has a history
            // (range-checked to some width, or multiplied by another generator)
            if gn == "G" || tier == Tier::Thorough {
                let principal: Vec<(String, Digits)> = vec![("naf(s)".into(), honest), ("binary(s)".into(), binary(&si.low(255)))];
                for hist in [Hist::Range(251), Hist::Range(252), Hist::Range(253), Hist::Range(254), Hist::Range(64), Hist::OtherGenerator, Hist::SameGenerator] {
                    let pre_ok = match hist {
                        Hist::Range(w) => m5::in_range(&s, w),
                        _ => canonical,
                    };
                    let hname = hist.name();
                    let gadget = Gadget::new(&format!("mul_generator/{}/s={}", gn, sn), vec![s], move |c, ins| {
                        let p = c.component_mul_generator(ins[0], g)?;
                        Ok(vec![*p.x(), *p.y()])
                    })
                    .with_prelude(&hname, move |c, ins| hist.apply(c, ins[0]));
                    let e = if canonical && pre_ok {
                        let p = mul_native(&g, &si);
                        Expect::Sat(vec![p.x, p.y])
                    } else {
                        Expect::Unsat
                    };
                    let mut c = GCase::new(gadget, e, "mul_generator/with-history");
                    c.dev_stride = tier.pick(0, 13);
                    out.push(c);
                    for (dn, d) in &principal {
                        let mut c = seam_case(&gn, g, &sn, s, dn, *d, tier, false);
                        c.g = c.g.with_prelude(&hname, move |c, ins| hist.apply(c, ins[0]));
                        if !pre_ok {
                            c.expect = Expect::Unsat;
                        }
                        c.class = format!("{}/with-history", c.class);
                        c.confirm = true;
                        out.push(c);
                    }
                }
            }
        }
    }
    out
}

pub fn main(tier: Tier, replay: Option<serde_json::Value>) -> i32 {
    let mut run = Run::new("C14", tier, "model_checking");
    run.rule = "cases = (generator, scalar witness incl. r_J-1, r_J, r_J+1, 2^252-1, non-canonical, random) x prover-chosen signed-digit vectors through the seam: honest width-2 NAF, plain binary, every single-digit deviation, same-integer rewrites, encodings of s+q, s+-r_J, s+2^253, plus bound-1 deviations of the widget's allocations (accumulators, xy_alpha, canonicity range checks); decided by M1; oracle: satisfiable iff scalar < r_J and the digits (three leading zeros) encode it as an integer; every satisfying assignment returns [s]G (own affine arithmetic); non-initial states: the scalar range-checked beforehand to 64 / 251 / 252 / 253 / 254 bits or already multiplied by the same / another generator".into();
    let cs = cases(tier);
    let cache = ConfirmCache::new(crate::setup::pp(1 << 11));
    if let Some(r) = replay {
        return crate::gadget::replay(run, &cs, &cache, &r);
    }
    if tier == Tier::Quick {
        run.exhaustive = false;
        run.capped = Some("quick: digit positions i%9==0 or i>=250, rewrite positions every 17th, allocation deviations every 13th ordinal".into());
    }
    let names: Vec<String> = cs.iter().map(|c| c.g.name.clone()).collect();
    let reps = crate::par::par_map(&cs, |c| run_case(c, &cache));
    absorb(&mut run, reps, &names);
    run.gate("honest satisfiable cases", run.count("honest:sat") > 0);
    run.gate("unsatisfiable cases", run.count("honest:unsat") > 0);
    run.bound("cases", json!(cs.len()));
    run.assumptions = vec![
        "M1 row model (bound to the prover by C05) decides satisfiability".into(),
        "own affine twisted-Edwards arithmetic (M5) is the group-law specification".into(),
    ];
    run.finish()
}
