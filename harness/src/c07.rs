//! C07 — circuit shape is independent of witness values; generation is total.

use std::sync::Arc;

use dusk_jubjub::{JubJubExtended, GENERATOR_EXTENDED};
use dusk_plonk::prelude::*;
use serde_json::json;

use crate::dispatch;
use crate::e2::{self, Gadget};
use crate::ev::{Run, Tier};
use crate::fe::*;
use crate::m1;
use crate::m5::{self, Pt};
use crate::prog::Prog;

type Build = Arc<dyn Fn(&mut Composer, &[Fe]) -> Result<(), Error> + Send + Sync>;

struct Comp {
    name: String,
    arity: usize,
    build: Build,
}

fn comp<F>(name: &str, arity: usize, f: F) -> Comp
where
    F: Fn(&mut Composer, &[Fe]) -> Result<(), Error> + Send + Sync + 'static,
{
    Comp { name: name.to_string(), arity, build: Arc::new(f) }
}

fn tf(c: &Composer, x: Witness, y: Witness) -> TorsionFreeWitnessPoint {
    TorsionFreeWitnessPoint::new_unchecked(c.verif_point(x, y))
}

fn components(tier: Tier) -> Vec<Comp> {
    let mut v = vec![];
    let ws = |c: &mut Composer, vals: &[Fe]| -> Vec<Witness> { vals.iter().map(|x| c.append_witness(*x)).collect() };
    v.push(comp("append_gate", 4, move |c, x| {
        let w = ws(c, x);
        c.append_gate(Constraint::new().mult(1).left(2).right(3).output(-BlsScalar::one()).fourth(1).constant(4).a(w[0]).b(w[1]).c(w[2]).d(w[3]));
        Ok(())
    }));
    v.push(comp("gate_add", 3, move |c, x| {
        let w = ws(c, x);
        c.gate_add(Constraint::new().left(1).right(1).fourth(2).a(w[0]).b(w[1]).d(w[2]));
        Ok(())
    }));
    v.push(comp("gate_mul", 3, move |c, x| {
        let w = ws(c, x);
        c.gate_mul(Constraint::new().mult(1).fourth(1).a(w[0]).b(w[1]).d(w[2]));
        Ok(())
    }));
    for qo in [2i64, 0] {
        v.push(comp(&format!("append_evaluated_output/qo{}", qo), 3, move |c, x| {
            let w = ws(c, x);
            c.append_evaluated_output(Constraint::new().mult(1).left(1).output(fi(qo)).a(w[0]).b(w[1]).d(w[2]));
            Ok(())
        }));
    }
    v.push(comp("assert_equal", 2, move |c, x| {
        let w = ws(c, x);
        c.assert_equal(w[0], w[1]);
        Ok(())
    }));
    v.push(comp("assert_equal_constant", 1, move |c, x| {
        let w = ws(c, x);
        c.assert_equal_constant(w[0], fe(5), Some(fe(2)));
        Ok(())
    }));
    v.push(comp("append_public", 1, move |c, x| {
        c.append_public(x[0]);
        Ok(())
    }));
    v.push(comp("component_boolean", 1, move |c, x| {
        let w = ws(c, x);
        c.component_boolean(w[0]);
        Ok(())
    }));
    v.push(comp("component_select", 3, move |c, x| {
        let w = ws(c, x);
        c.component_select(w[0], w[1], w[2]);
        Ok(())
    }));
    v.push(comp("component_select_one", 2, move |c, x| {
        let w = ws(c, x);
        c.component_select_one(w[0], w[1]);
        Ok(())
    }));
    v.push(comp("component_select_zero", 2, move |c, x| {
        let w = ws(c, x);
        c.component_select_zero(w[0], w[1]);
        Ok(())
    }));
    let range_w: Vec<usize> = tier.pick(vec![0, 1, 2, 3, 7, 8, 9, 15, 16, 17, 64, 127, 128, 253, 254, 255, 256], (0..=256).collect());
    for w in range_w {
        v.push(comp(&format!("component_range_bits/{}", w), 1, move |c, x| {
            let a = c.append_witness(x[0]);
            dispatch::range_bits(c, a, w);
            Ok(())
        }));
    }
    let pairs: Vec<usize> = tier.pick(vec![0, 1, 4, 5, 64, 128, 130, 1000], (0..=130).chain([200, 1000]).collect());
    for p in pairs {
        v.push(comp(&format!("component_range/{}", p), 1, move |c, x| {
            let a = c.append_witness(x[0]);
            dispatch::range_pairs(c, a, p);
            Ok(())
        }));
    }
    let logic_p: Vec<usize> = tier.pick(vec![0, 1, 2, 3, 64, 127], (0..=127).collect());
    for p in logic_p {
        for xor in [false, true] {
            v.push(comp(&format!("append_logic_{}/{}", if xor { "xor" } else { "and" }, p), 2, move |c, x| {
                let a = c.append_witness(x[0]);
                let b = c.append_witness(x[1]);
                if xor {
                    dispatch::logic_xor(c, a, b, p);
                } else {
                    dispatch::logic_and(c, a, b, p);
                }
                Ok(())
            }));
        }
    }
    let trunc_n: Vec<usize> = tier.pick(vec![0, 1, 2, 7, 8, 9, 128, 253, 254], (0..=254).collect());
    for n in trunc_n {
        v.push(comp(&format!("component_truncate/{}", n), 1, move |c, x| {
            let a = c.append_witness(x[0]);
            dispatch::truncate(c, a, n);
            Ok(())
        }));
    }
    let dec_n: Vec<usize> = tier.pick(vec![1, 2, 8, 9, 128, 252, 254, 255, 256], (1..=256).collect());
    for n in dec_n {
        v.push(comp(&format!("component_decomposition/{}", n), 1, move |c, x| {
            let a = c.append_witness(x[0]);
            dispatch::decomposition(c, a, n);
            Ok(())
        }));
    }
    // point components over arbitrary coordinate witnesses
    v.push(comp("assert_equal_point", 4, move |c, x| {
        let w = ws(c, x);
        let (a, b) = (c.verif_point(w[0], w[1]), c.verif_point(w[2], w[3]));
        c.assert_equal_point(a, b);
        Ok(())
    }));
    v.push(comp("assert_torsion_free_point", 2, move |c, x| {
        let w = ws(c, x);
        let p = c.verif_point(w[0], w[1]);
        c.assert_torsion_free_point(p);
        Ok(())
    }));
    v.push(comp("component_neg_point", 2, move |c, x| {
        let w = ws(c, x);
        c.component_neg_point(tf(c, w[0], w[1]));
        Ok(())
    }));
    v.push(comp("component_add_point", 4, move |c, x| {
        let w = ws(c, x);
        c.component_add_point(tf(c, w[0], w[1]), tf(c, w[2], w[3]));
        Ok(())
    }));
    v.push(comp("component_sub_point", 4, move |c, x| {
        let w = ws(c, x);
        c.component_sub_point(tf(c, w[0], w[1]), tf(c, w[2], w[3]));
        Ok(())
    }));
    v.push(comp("component_select_identity", 3, move |c, x| {
        let w = ws(c, x);
        c.component_select_identity(w[0], tf(c, w[1], w[2]));
        Ok(())
    }));
    v.push(comp("component_select_point", 5, move |c, x| {
        let w = ws(c, x);
        let (a, b) = (c.verif_point(w[1], w[2]), c.verif_point(w[3], w[4]));
        c.component_select_point(w[0], a, b);
        Ok(())
    }));
    v.push(comp("component_mul_point", 3, move |c, x| {
        let w = ws(c, x);
        c.component_mul_point(w[0], tf(c, w[1], w[2]));
        Ok(())
    }));
    v.push(comp("component_mul_generator", 1, move |c, x| {
        let w = ws(c, x);
        c.component_mul_generator(w[0], GENERATOR_EXTENDED)?;
        Ok(())
    }));
    v
}

/// value tuples of the requested arity
fn tuples(arity: usize, f: &[Fe], fs: &[Fe], point_coords: &[(Fe, Fe)]) -> Vec<Vec<Fe>> {
    match arity {
        0 => vec![vec![]],
        1 => f.iter().map(|a| vec![*a]).collect(),
        2 => {
            let mut out: Vec<Vec<Fe>> = vec![];
            for a in f {
                for b in fs {
                    out.push(vec![*a, *b]);
                }
            }
            // coordinate pairs of real / malformed points
            for (x, y) in point_coords {
                out.push(vec![*x, *y]);
            }
            out
        }
        3 => {
            let mut out = vec![];
            for a in fs {
                for b in fs {
                    for c in fs.iter().take(6) {
                        out.push(vec![*a, *b, *c]);
                    }
                }
            }
            for (x, y) in point_coords {
                for a in fs.iter().take(6) {
                    out.push(vec![*a, *x, *y]);
                }
            }
            out
        }
        4 | 5 => {
            let mut out = vec![];
            let pre: Vec<Fe> = if arity == 5 { vec![fs[1]] } else { vec![] };
            for (x1, y1) in point_coords {
                for (x2, y2) in point_coords {
                    let mut t = pre.clone();
                    t.extend([*x1, *y1, *x2, *y2]);
                    out.push(t);
                }
            }
            for a in fs.iter().take(5) {
                for b in fs.iter().rev().take(5) {
                    let mut t = pre.clone();
                    t.extend([*a, *b, *b, *a]);
                    out.push(t);
                }
            }
            if arity == 5 {
                let extra: Vec<Vec<Fe>> = out.iter().take(8).map(|t| { let mut u = t.clone(); u[0] = fs[3]; u }).collect();
                out.extend(extra);
            }
            out
        }
        _ => vec![],
    }
}

fn point_coords() -> Vec<(Fe, Fe)> {
    let g = Pt::from_jubjub(GENERATOR_EXTENDED);
    let tors = m5::torsion_points();
    let mut v = vec![(zero(), one()), (g.x, g.y), (g.neg().x, g.y)];
    let gt = g.add(&tors[1]).unwrap();
    v.push((gt.x, gt.y));
    v.push((tors[2].x, tors[2].y));
    v.push((zero(), zero()));
    v.push((one(), one()));
    v.push((g.x, g.y + one()));
    // pole-inducing pair for the addition law with G: d*x1*x2*y1*y2 = -1
    let d = m1::edwards_d();
    let x2 = fe(3);
    let y2 = -inv(d * g.x * g.y * x2);
    v.push((x2, y2));
    // ... and d*x1*x2*y1*y2 = +1 (the other denominator of the addition law)
    v.push((x2, inv(d * g.x * g.y * x2)));
    // both poles against the off-curve pair (1,1) and against (g.x, g.y+1)
    v.push((fe(5), inv(d * fe(5))));
    v.push((fe(5), -inv(d * fe(5))));
    v
}

fn run_layout(b: &Build, vals: &[Fe]) -> Result<Result<u64, String>, String> {
    let b = b.clone();
    let vals = vals.to_vec();
    let p = Prog::new(move |c| b(c, &vals));
    match std::panic::catch_unwind(std::panic::AssertUnwindSafe(|| p.run())) {
        Err(e) => Err(crate::par::panic_msg(e)),
        Ok(Err(e)) => Ok(Err(format!("{:?}", e))),
        Ok(Ok(s)) => Ok(Ok(m1::layout_key(&s))),
    }
}

/// point entry points taking native extended points
fn native_point_entry(run: &mut Run) {
    let g = GENERATOR_EXTENDED;
    let pts = point_coords();
    let mut reps: Vec<(String, JubJubExtended)> = vec![];
    for (i, (x, y)) in pts.iter().enumerate() {
        reps.push((format!("p{}/normal", i), JubJubExtended::from_raw_unchecked(*x, *y, one(), *x, *y)));
        reps.push((format!("p{}/scaledZ", i), JubJubExtended::from_raw_unchecked(*x * fe(5), *y * fe(5), fe(5), *x, *y * fe(5))));
        reps.push((format!("p{}/Z=0", i), JubJubExtended::from_raw_unchecked(*x, *y, zero(), *x, *y)));
        reps.push((format!("p{}/badT", i), JubJubExtended::from_raw_unchecked(*x, *y, one(), *x + one(), *y)));
    }
    let _ = g;
    type Call = (&'static str, fn(&mut Composer, JubJubExtended) -> Result<(), Error>);
    let calls: Vec<Call> = vec![
        ("append_point", |c, e| c.append_point(e).map(|_| ())),
        ("append_public_point", |c, e| c.append_public_point(e).map(|_| ())),
        ("append_constant_point", |c, e| c.append_constant_point(e).map(|_| ())),
        ("assert_equal_public_point", |c, e| {
            let w = c.append_point(JubJubExtended::from(dusk_jubjub::GENERATOR))?;
            c.assert_equal_public_point(w, e)
        }),
        ("component_mul_generator(gen)", |c, e| {
            let s = c.append_witness(fe(3));
            c.component_mul_generator(s, e).map(|_| ())
        }),
    ];
    for (cn, call) in calls {
        // reference layout from the generator in normal form
        let reference = {
            let mut c = Composer::initialized();
            call(&mut c, GENERATOR_EXTENDED).ok().map(|_| m1::layout_key(&c.verif_snapshot()))
        };
        for (rn, e) in &reps {
            run.transitions += 1;
            run.evaluations += 1;
            run.traces_validated += 1;
            let e = *e;
            let r = std::panic::catch_unwind(std::panic::AssertUnwindSafe(|| {
                let mut c = Composer::initialized();
                call(&mut c, e).map(|_| m1::layout_key(&c.verif_snapshot()))
            }));
            run.nontrivial(fnv(format!("{}{}", cn, rn).as_bytes()));
            match r {
                Err(p) => {
                    run.outcome("native-point:panic");
                    run.violation(&format!("{}/panic/{}", cn, rn.split('/').nth(1).unwrap_or("")), &format!("{} panicked on {}: {}", cn, rn, crate::par::panic_msg(p)), json!({"component": cn, "representation": rn}));
                }
                Ok(Err(_)) => run.outcome("native-point:error"),
                Ok(Ok(k)) => {
                    run.outcome("native-point:same-shape-or-constant");
                    // constant points legitimately change selector constants; only the
                    // witness-carrying entry points must keep the layout
                    if (cn == "append_point" || cn == "append_public_point" || cn == "assert_equal_public_point") && Some(k) != reference {
                        run.violation(&format!("{}/layout-depends-on-value", cn), &format!("{} emitted a different layout for {}", cn, rn), json!({"component": cn, "representation": rn}));
                    }
                }
            }
        }
    }
}

/// bound-1 deviations inside representative gadgets: never a panic, never
/// another layout.
fn deviation_totality(run: &mut Run, tier: Tier) {
    let g = Pt::from_jubjub(GENERATOR_EXTENDED);
    let big = neg1();
    let mut gs: Vec<Gadget> = vec![
        Gadget::new("range9", vec![big], |c, i| {
            dispatch::range_bits(c, i[0], 9);
            Ok(vec![])
        }),
        Gadget::new("xor3", vec![big, fe(77)], |c, i| Ok(vec![dispatch::logic_xor(c, i[0], i[1], 3)])),
        Gadget::new("truncate7", vec![big], |c, i| Ok(vec![dispatch::truncate(c, i[0], 7)])),
        Gadget::new("decomposition5", vec![fe(21)], |c, i| Ok(dispatch::decomposition(c, i[0], 5))),
        Gadget::new("add_point", vec![g.x, g.y, g.x, g.y], |c, i| {
            let r = c.component_add_point(tf(c, i[0], i[1]), tf(c, i[2], i[3]));
            Ok(vec![*r.x()])
        }),
        Gadget::new("torsion_free", vec![g.x, g.y], |c, i| {
            let p = c.verif_point(i[0], i[1]);
            c.assert_torsion_free_point(p);
            Ok(vec![])
        }),
        Gadget::new("select_identity", vec![one(), g.x, g.y], |c, i| {
            let r = c.component_select_identity(i[0], tf(c, i[1], i[2]));
            Ok(vec![*r.x()])
        }),
        Gadget::new("mul_generator", vec![fe(1234567)], |c, i| {
            let r = c.component_mul_generator(i[0], GENERATOR_EXTENDED)?;
            Ok(vec![*r.x()])
        }),
    ];
    if tier == Tier::Thorough {
        gs.push(Gadget::new("mul_point", vec![fe(99), g.x, g.y], |c, i| {
            let r = c.component_mul_point(i[0], tf(c, i[1], i[2]));
            Ok(vec![*r.x()])
        }));
        gs.push(Gadget::new("range254", vec![big], |c, i| {
            dispatch::range_bits(c, i[0], 254);
            Ok(vec![])
        }));
        gs.push(Gadget::new("and127", vec![big, fe(77)], |c, i| Ok(vec![dispatch::logic_and(c, i[0], i[1], 127)])));
    }
    let results = crate::par::par_map(&gs, |gd| {
        let h = e2::honest(gd).map_err(|e| format!("honest run failed: {}", e))?;
        let extra = |_: usize, v: Fe| -> Vec<(String, Fe)> { vec![("big".into(), neg1()), ("2^254".into(), pow2(254)), ("x2".into(), v + v)] };
        let devs = e2::bound1(&h, &extra);
        let mut panics = vec![];
        let mut changed = vec![];
        let mut n = 0u64;
        let mut errs = 0u64;
        for d in &devs {
            n += 1;
            let (p, _) = gd.prog();
            let p = p.with_script(d.script.clone());
            let r = std::panic::catch_unwind(std::panic::AssertUnwindSafe(|| p.run()));
            dusk_plonk::verif::set_witness_script(&[]);
            match r {
                Err(e) => panics.push((d.tag.clone(), crate::par::panic_msg(e))),
                Ok(Err(_)) => errs += 1,
                Ok(Ok(s)) => {
                    if m1::layout_key(&s) != h.layout {
                        changed.push(d.tag.clone());
                    }
                }
            }
        }
        Ok::<_, String>((n, errs, panics, changed))
    });
    for (gd, r) in gs.iter().zip(results) {
        match r {
            Err(p) => run.machinery(format!("deviation totality harness panic ({}): {}", gd.name, p)),
            Ok(Err(e)) => run.machinery(format!("{}: {}", gd.name, e)),
            Ok(Ok((n, errs, panics, changed))) => {
                run.transitions += n;
                run.evaluations += n;
                run.outcome_n("deviation:runs", n);
                run.outcome_n("deviation:generator-error", errs);
                if let Some((tag, msg)) = panics.first() {
                    run.violation(&format!("deviation/{}/panic", gd.name), &format!("{} panicked under internal deviation {}: {}", gd.name, tag, msg), json!({"gadget": gd.name, "deviation": tag, "count": panics.len()}));
                }
                if let Some(tag) = changed.first() {
                    run.violation(&format!("deviation/{}/layout-changed", gd.name), &format!("{} emitted another layout under internal deviation {}", gd.name, tag), json!({"gadget": gd.name, "deviation": tag, "count": changed.len()}));
                }
            }
        }
    }
}

/// `Compiler::compile::<C>()` (default instance) and
/// `compile_with_circuit(&instance)` give the same keys.
fn compile_equivalence(run: &mut Run, comps: &[Comp]) {
    let pp = crate::setup::pp(1 << 9);
    let pick = ["gate_add", "component_select", "component_range_bits/9", "append_logic_xor/2", "component_truncate/8", "component_decomposition/8", "component_add_point", "component_select_identity"];
    let g = Pt::from_jubjub(GENERATOR_EXTENDED);
    for name in pick {
        let Some(c) = comps.iter().find(|c| c.name == name) else { continue };
        let zero_vals = vec![zero(); c.arity];
        let b0 = c.build.clone();
        let z = zero_vals.clone();
        let default_prog = Prog::new(move |cc| b0(cc, &z));
        default_prog.install_default();
        let (p0, v0) = match Compiler::compile::<Prog>(&pp, b"c07") {
            Ok(k) => k,
            Err(e) => {
                run.violation(&format!("compile/{}/default-failed", name), &format!("{:?}", e), json!({"component": name}));
                continue;
            }
        };
        for vals in [vec![neg1(); c.arity], vec![g.x, g.y, g.x, g.y, g.x][..c.arity].to_vec(), (0..c.arity).map(|i| pow2(200 + i)).collect::<Vec<_>>()] {
            let b1 = c.build.clone();
            let vv = vals.clone();
            let inst = Prog::new(move |cc| b1(cc, &vv));
            run.transitions += 1;
            run.evaluations += 1;
            run.traces_validated += 1;
            match Compiler::compile_with_circuit(&pp, b"c07", &inst) {
                Err(_) => run.outcome("compile:instance-error"),
                Ok((p1, v1)) => {
                    if p1.to_bytes() != p0.to_bytes() || v1.to_bytes() != v0.to_bytes() {
                        run.violation(&format!("compile/{}/keys-depend-on-instance", name), "compile::<C>() and compile_with_circuit(&instance) produced different keys", json!({"component": name, "values": vals.iter().map(hex).collect::<Vec<_>>()}));
                    } else {
                        run.outcome("compile:same-keys");
                    }
                }
            }
        }
    }
}

pub fn main(tier: Tier, replay: Option<serde_json::Value>) -> i32 {
    let mut run = Run::new("C07", tier, "model_checking");
    run.rule = "every public component x const-generic width (dispatch tables) x value tuples over the boundary alphabet F (arity <= 2) / F_s (arity >= 3) and real / torsion / off-curve / pole-inducing coordinate pairs; oracle: the emitted layout (selectors, wiring, PI rows, counts) equals the layout of the all-zero instance, or the component returned Err; never a panic; native point entry points over extended representations incl. Z=0 and inconsistent T; bound-1 internal deviations of representative gadgets neither panic nor change the layout; compile::<C>() keys equal compile_with_circuit(&instance) keys".into();
    if replay.is_some() {
        run.set_replay_mode();
        eprintln!("C07 replay: re-running the whole quick sweep (cases are cheap)");
    }
    let comps = components(tier);
    let f = alphabet_f(seed());
    let fs = alphabet_fs(seed());
    let pc = point_coords();
    struct Item {
        comp: usize,
        vals: Vec<Fe>,
    }
    let mut items = vec![];
    for (ci, c) in comps.iter().enumerate() {
        let mut ts = tuples(c.arity, &f, &fs, &pc);
        // heavy gadgets: thin out in quick
        let heavy = c.name.starts_with("component_mul_point") || c.name.contains("/127") || c.name.contains("/25");
        if tier == Tier::Quick && heavy && ts.len() > 24 {
            ts = ts.into_iter().step_by(5).collect();
        }
        for t in ts {
            items.push(Item { comp: ci, vals: t });
        }
    }
    let refs: Vec<Result<Result<u64, String>, String>> = comps.iter().map(|c| run_layout(&c.build, &vec![zero(); c.arity])).collect();
    for (c, r) in comps.iter().zip(&refs) {
        if !matches!(r, Ok(Ok(_))) {
            run.violation(&format!("{}/zero-instance-failed", c.name), &format!("all-zero instance: {:?}", r), json!({"component": c.name}));
        }
    }
    let outs = crate::par::par_map(&items, |it| run_layout(&comps[it.comp].build, &it.vals));
    let mut shapes = std::collections::HashSet::new();
    for (it, o) in items.iter().zip(outs) {
        run.transitions += 1;
        run.evaluations += 1;
        run.traces_validated += 1;
        let c = &comps[it.comp];
        let case = json!({"component": c.name, "values": it.vals.iter().map(hex).collect::<Vec<_>>()});
        let class = c.name.split('/').next().unwrap_or("");
        match o {
            Err(p) => run.machinery(format!("harness panic {}: {}", c.name, p)),
            Ok(Err(p)) => {
                run.outcome("panic");
                run.violation(&format!("{}/panic", class), &format!("{} panicked on {:?}: {}", c.name, it.vals.iter().map(hex).collect::<Vec<_>>(), p), case);
            }
            Ok(Ok(Err(_))) => run.outcome("returned-error"),
            Ok(Ok(Ok(k))) => {
                run.nontrivial(fnv(format!("{}{:?}", c.name, it.vals).as_bytes()));
                shapes.insert(k);
                if let Ok(Ok(r)) = &refs[it.comp] {
                    if *r != k {
                        run.outcome("layout-differs");
                        run.violation(&format!("{}/layout-depends-on-value", class), &format!("{} emitted a different layout for {:?}", c.name, it.vals.iter().map(hex).collect::<Vec<_>>()), case);
                    } else {
                        run.outcome("same-layout");
                    }
                }
            }
        }
        if run.samples.len() < 5 && run.transitions % 1301 == 7 {
            run.sample(json!({"component": c.name, "values": it.vals.iter().map(hex).collect::<Vec<_>>()}));
        }
    }
    run.states = shapes.len() as u64;
    native_point_entry(&mut run);
    deviation_totality(&mut run, tier);
    compile_equivalence(&mut run, &comps);
    run.gate("same-layout cases", run.count("same-layout") > 1000);
    run.gate("error-returning cases", run.count("returned-error") + run.count("native-point:error") > 0);
    run.bound("components", json!(comps.len()));
    run.assumptions = vec!["value tuples come from the boundary alphabets, not the whole field".into(), "constant parameters (append_constant / constant points / generators) legitimately shape the layout and are held fixed".into()];
    run.finish()
}
