//! M1 — the row model (DESIGN §3, Appendix A.1). Independent statement of the
//! seventeen per-row identity components and the compiled copy constraints.

use crate::fe::*;
use dusk_plonk::verif::Snapshot;

pub const N_COMPONENTS: usize = 17;
pub const COMPONENT_NAMES: [&str; N_COMPONENTS] = [
    "arith+pi",
    "range.0",
    "range.1",
    "range.2",
    "range.3",
    "logic.dA",
    "logic.dB",
    "logic.dE",
    "logic.w",
    "logic.op",
    "fixed.bit",
    "fixed.xy",
    "fixed.x",
    "fixed.y",
    "var.xy",
    "var.x",
    "var.y",
];

// selector indices in GateRow::q
pub const QM: usize = 0;
pub const QL: usize = 1;
pub const QR: usize = 2;
pub const QO: usize = 3;
pub const QF: usize = 4;
pub const QC: usize = 5;
pub const QARITH: usize = 6;
pub const QRANGE: usize = 7;
pub const QLOGIC: usize = 8;
pub const QFIXED: usize = 9;
pub const QVAR: usize = 10;

/// JubJub twisted Edwards d = -(10240/10241), stated independently.
pub fn edwards_d() -> Fe {
    static D: std::sync::OnceLock<Fe> = std::sync::OnceLock::new();
    *D.get_or_init(|| -(fe(10240) * inv(fe(10241))))
}

fn delta(f: Fe) -> Fe {
    f * (f - fe(1)) * (f - fe(2)) * (f - fe(3))
}

#[derive(Clone, Debug, PartialEq, Eq)]
pub enum Verdict {
    /// instance has a different number of constraints than the compiled one
    SizeMismatch { compiled: usize, instance: usize },
    Rows {
        /// (row, component) pairs whose identity does not vanish
        gate_fails: Vec<(usize, usize)>,
        /// (row, wire) positions whose value differs from the first position of
        /// their compiled copy class
        copy_fails: Vec<(usize, usize)>,
    },
}

impl Verdict {
    pub fn satisfied(&self) -> bool {
        matches!(self, Verdict::Rows { gate_fails, copy_fails } if gate_fails.is_empty() && copy_fails.is_empty())
    }
}

/// Wire values by padded row: [a,b,c,d] per row, zero on padding rows.
pub fn wire_table(inst: &Snapshot, size: usize) -> Vec<[Fe; 4]> {
    let mut t = vec![[zero(); 4]; size];
    for (i, g) in inst.gates.iter().enumerate() {
        for k in 0..4 {
            t[i][k] = inst.witnesses[g.w[k]];
        }
    }
    t
}

/// Evaluate the 17 components of row `i` for selectors `q`, public input `pi`.
pub fn row_components(q: &[Fe; 11], pi: Fe, cur: &[Fe; 4], next: &[Fe; 4]) -> [Fe; N_COMPONENTS] {
    let (a, b, c, d) = (cur[0], cur[1], cur[2], cur[3]);
    let (an, bn, dn) = (next[0], next[1], next[3]);
    let mut r = [zero(); N_COMPONENTS];

    // arithmetic + PI (PI counts even when q_arith = 0)
    r[0] = q[QARITH] * (q[QM] * a * b + q[QL] * a + q[QR] * b + q[QO] * c + q[QF] * d + q[QC]) + pi;

    // range
    if q[QRANGE] != zero() {
        let four = fe(4);
        r[1] = q[QRANGE] * delta(c - four * d);
        r[2] = q[QRANGE] * delta(b - four * c);
        r[3] = q[QRANGE] * delta(a - four * b);
        r[4] = q[QRANGE] * delta(dn - four * a);
    }

    // logic
    if q[QLOGIC] != zero() {
        let four = fe(4);
        let aa = an - four * a;
        let bb = bn - four * b;
        let ee = dn - four * d;
        let w = c;
        r[5] = q[QLOGIC] * delta(aa);
        r[6] = q[QLOGIC] * delta(bb);
        r[7] = q[QLOGIC] * delta(ee);
        r[8] = q[QLOGIC] * (w - aa * bb);
        let f = w
            * (w * (four * w - fe(18) * (aa + bb) + fe(81)) + fe(18) * (aa * aa + bb * bb)
                - fe(81) * (aa + bb)
                + fe(83));
        let e = fe(3) * (aa + bb + ee) - fe(2) * f;
        let bterm = q[QC] * (fe(9) * ee - fe(3) * (aa + bb));
        r[9] = q[QLOGIC] * (bterm + e);
    }

    // fixed base
    if q[QFIXED] != zero() {
        let dd = edwards_d();
        let bit = dn - d - d;
        let x_beta = q[QL];
        let y_beta = q[QR];
        let xy_alpha = c;
        let y_alpha = bit * bit * (y_beta - one()) + one();
        let x_alpha = bit * x_beta;
        r[10] = q[QFIXED] * (bit * (bit - one()) * (bit + one()));
        r[11] = q[QFIXED] * (bit * q[QC] - xy_alpha);
        r[12] = q[QFIXED] * ((an + an * xy_alpha * a * b * dd) - (a * y_alpha + b * x_alpha));
        r[13] = q[QFIXED] * ((bn - bn * xy_alpha * a * b * dd) - (b * y_alpha + a * x_alpha));
    }

    // variable base
    if q[QVAR] != zero() {
        let dd = edwards_d();
        let (x1, y1, x2, y2) = (a, b, c, d);
        let (x3, y3, x1y2) = (an, bn, dn);
        r[14] = q[QVAR] * (x1 * y2 - x1y2);
        let y1x2 = y1 * x2;
        r[15] = q[QVAR] * ((x1y2 + y1x2) - (x3 + x3 * dd * x1y2 * y1x2));
        r[16] = q[QVAR] * ((y1 * y2 + x1 * x2) - (y3 - y3 * dd * x1y2 * y1x2));
    }
    r
}

/// Decide an instance against a compiled description.
pub fn decide(compiled: &Snapshot, inst: &Snapshot) -> Verdict {
    let n = compiled.gates.len();
    if inst.gates.len() != n {
        return Verdict::SizeMismatch { compiled: n, instance: inst.gates.len() };
    }
    let size = n.next_power_of_two().max(1);
    let t = wire_table(inst, size);
    let mut pis = vec![zero(); size];
    for (row, v) in &inst.public_inputs {
        if *row < size {
            pis[*row] = *v;
        }
    }
    let zq = [zero(); 11];
    let mut gate_fails = Vec::new();
    for i in 0..size {
        let q = if i < n { &compiled.gates[i].q } else { &zq };
        let next = &t[(i + 1) % size];
        let comps = row_components(q, pis[i], &t[i], next);
        for (k, v) in comps.iter().enumerate() {
            if *v != zero() {
                gate_fails.push((i, k));
            }
        }
    }
    // copy constraints of the compiled description
    let mut first: std::collections::HashMap<usize, Fe> = std::collections::HashMap::new();
    let mut copy_fails = Vec::new();
    for (i, g) in compiled.gates.iter().enumerate() {
        for k in 0..4 {
            let v = t[i][k];
            match first.get(&g.w[k]) {
                None => {
                    first.insert(g.w[k], v);
                }
                Some(f) => {
                    if *f != v {
                        copy_fails.push((i, k));
                    }
                }
            }
        }
    }
    Verdict::Rows { gate_fails, copy_fails }
}

/// Decide a single snapshot against itself (layout and values from one run).
pub fn decide_self(s: &Snapshot) -> Verdict {
    decide(s, s)
}

/// Hash of the layout only (selectors, wiring, PI rows; no witness values).
pub fn layout_key(s: &Snapshot) -> u64 {
    let mut h = fnv(&(s.gates.len() as u64).to_le_bytes());
    for g in &s.gates {
        for q in &g.q {
            h = fnv_fe(h, q);
        }
        for w in &g.w {
            h ^= *w as u64;
            h = h.wrapping_mul(0x100000001b3);
        }
    }
    for (r, _) in &s.public_inputs {
        h ^= (*r as u64) | (1u64 << 63);
        h = h.wrapping_mul(0x100000001b3);
    }
    h ^= s.witnesses.len() as u64;
    h.wrapping_mul(0x100000001b3)
}

/// Pre-processed compiled description for deciding many instances quickly.
pub struct Model {
    pub n: usize,
    pub size: usize,
    /// rows with at least one non-zero selector
    active: Vec<usize>,
    selectors: Vec<[Fe; 11]>,
    /// witness index of every (row, wire) of the compiled description
    wiring: Vec<[usize; 4]>,
    n_witnesses: usize,
}

impl Model {
    pub fn new(compiled: &Snapshot) -> Self {
        let n = compiled.gates.len();
        let size = n.next_power_of_two().max(1);
        let mut active = vec![];
        for (i, g) in compiled.gates.iter().enumerate() {
            if g.q.iter().any(|q| *q != zero()) {
                active.push(i);
            }
        }
        Model {
            n,
            size,
            active,
            selectors: compiled.gates.iter().map(|g| g.q).collect(),
            wiring: compiled.gates.iter().map(|g| g.w).collect(),
            n_witnesses: compiled.witnesses.len(),
        }
    }

    /// Same verdict as `decide(compiled, inst)`.
    pub fn decide(&self, inst: &Snapshot) -> Verdict {
        if inst.gates.len() != self.n {
            return Verdict::SizeMismatch { compiled: self.n, instance: inst.gates.len() };
        }
        let val = |row: usize, k: usize| -> Fe {
            if row < self.n {
                inst.witnesses[inst.gates[row].w[k]]
            } else {
                zero()
            }
        };
        let mut gate_fails = Vec::new();
        let mut pi_rows: Vec<(usize, Fe)> = Vec::new();
        for (row, v) in &inst.public_inputs {
            if *row < self.size {
                pi_rows.push((*row, *v));
            }
        }
        let check_row = |i: usize, q: &[Fe; 11], pi: Fe, out: &mut Vec<(usize, usize)>| {
            let j = (i + 1) % self.size;
            let cur = [val(i, 0), val(i, 1), val(i, 2), val(i, 3)];
            let next = [val(j, 0), val(j, 1), val(j, 2), val(j, 3)];
            let comps = row_components(q, pi, &cur, &next);
            for (k, v) in comps.iter().enumerate() {
                if *v != zero() {
                    out.push((i, k));
                }
            }
        };
        let zq = [zero(); 11];
        for &i in &self.active {
            let pi = pi_rows.iter().find(|(r, _)| *r == i).map(|(_, v)| *v).unwrap_or(zero());
            check_row(i, &self.selectors[i], pi, &mut gate_fails);
        }
        // PI rows without any selector still carry the PI term
        for (r, v) in &pi_rows {
            let is_active = *r < self.n && self.selectors[*r].iter().any(|q| *q != zero());
            if !is_active {
                check_row(*r, if *r < self.n { &self.selectors[*r] } else { &zq }, *v, &mut gate_fails);
            }
        }
        gate_fails.sort();
        let mut first: Vec<Option<Fe>> = vec![None; self.n_witnesses];
        let mut copy_fails = Vec::new();
        for (i, w) in self.wiring.iter().enumerate() {
            for k in 0..4 {
                let v = val(i, k);
                match &first[w[k]] {
                    None => first[w[k]] = Some(v),
                    Some(f) => {
                        if *f != v {
                            copy_fails.push((i, k));
                        }
                    }
                }
            }
        }
        Verdict::Rows { gate_fails, copy_fails }
    }
}
