//! Raw-row circuits: explicit layouts (selectors, sharing, PI rows, placement)
//! with explicit per-position wire values; shared by C01/C02/C05/C08.

use std::collections::HashMap;
use std::sync::{Arc, Mutex};

use dusk_plonk::prelude::*;
use serde_json::{json, Value};

use crate::fe::*;
use crate::m1;
use crate::prog::Prog;

#[derive(Clone, Debug)]
pub struct RowSpec {
    pub q: [Fe; 11],
    pub has_pi: bool,
}

impl RowSpec {
    pub fn zero() -> Self {
        RowSpec { q: [zero(); 11], has_pi: false }
    }
}

/// Where the block of rows sits relative to the padded domain.
#[derive(Clone, Copy, Debug, PartialEq, Eq, Hash)]
pub enum Place {
    /// directly after the four initial rows
    First,
    /// `k` zero filler rows before the block
    After(usize),
    /// filler rows so that the block's last row is the last row of a full
    /// power-of-two domain of the given total size
    LastOfFull(usize),
}

#[derive(Clone, Debug)]
pub struct Layout {
    pub rows: Vec<RowSpec>,
    /// compiled sharing: groups of (row, wire) positions carried by one witness
    pub share: Vec<Vec<(usize, usize)>>,
    pub place: Place,
}

/// Rows emitted by `Composer::initialized()` before any user row (measured,
/// not assumed).
pub fn init_rows() -> usize {
    static N: std::sync::OnceLock<usize> = std::sync::OnceLock::new();
    *N.get_or_init(|| Composer::initialized().constraints())
}

impl Layout {
    pub fn filler(&self) -> usize {
        match self.place {
            Place::First => 0,
            Place::After(k) => k,
            Place::LastOfFull(total) => {
                assert!(total.is_power_of_two() && total >= init_rows() + self.rows.len());
                total - init_rows() - self.rows.len()
            }
        }
    }
    pub fn key(&self) -> u64 {
        let mut h = fnv(b"layout");
        for r in &self.rows {
            for q in &r.q {
                h = fnv_fe(h, q);
            }
            h = (h ^ r.has_pi as u64).wrapping_mul(0x100000001b3);
        }
        for g in &self.share {
            h = (h ^ 0xabcd).wrapping_mul(0x100000001b3);
            for (r, w) in g {
                h = (h ^ ((*r as u64) << 3 | *w as u64)).wrapping_mul(0x100000001b3);
            }
        }
        h = (h ^ self.filler() as u64).wrapping_mul(0x100000001b3);
        h
    }
    pub fn first_row(&self) -> usize {
        init_rows() + self.filler()
    }
}

/// Values for an instance: per-position wire values and PI values.
#[derive(Clone, Debug)]
pub struct Assign {
    pub vals: Vec<[Fe; 4]>,
    pub pis: Vec<Fe>,
    /// instance-side sharing (defaults to the layout's); a position removed
    /// from its group receives a fresh witness (breaking the copy constraint
    /// if its value differs)
    pub share: Option<Vec<Vec<(usize, usize)>>>,
    /// extra trailing zero rows (+) in the instance (size mismatch cases)
    pub extra_rows: usize,
    /// drop the last row of the block in the instance
    pub drop_last: bool,
    /// append-time script for allocations made before the block (the
    /// composer's own initial witnesses)
    pub script: Vec<(usize, Fe)>,
    /// selectors the INSTANCE emits on its rows when they differ from the compiled
    /// layout's (the prover must read selectors from the keys, wire values and
    /// public inputs from the instance)
    pub inst_q: Option<Vec<[Fe; 11]>>,
    /// the filler rows' wires (all carried by the ZERO witness in the compiled
    /// description) are carried by ONE other witness with this value from the given
    /// slot (row * 4 + wire) on: a long copy class split in two
    pub filler_split: Option<(usize, Fe)>,
}

impl Assign {
    pub fn new(vals: Vec<[Fe; 4]>, pis: Vec<Fe>) -> Self {
        Assign { vals, pis, share: None, extra_rows: 0, drop_last: false, script: vec![], inst_q: None, filler_split: None }
    }
}

fn build(c: &mut Composer, lay: &Layout, asg: &Assign) {
    let share = asg.share.as_ref().unwrap_or(&lay.share);
    let zq = [zero(); 11];
    let z = Composer::ZERO;
    match asg.filler_split {
        None => {
            for _ in 0..lay.filler() {
                c.verif_raw_gate(zq, None, [z; 4]);
            }
        }
        Some((from, v)) => {
            let alt = c.append_witness(v);
            for i in 0..lay.filler() {
                let mut ws = [z; 4];
                for k in 0..4 {
                    if i * 4 + k >= from {
                        ws[k] = alt;
                    }
                }
                c.verif_raw_gate(zq, None, ws);
            }
        }
    }
    // allocate witnesses per position
    let mut wit: HashMap<(usize, usize), Witness> = HashMap::new();
    for g in share {
        let (r0, w0) = g[0];
        let w = c.append_witness(asg.vals[r0][w0]);
        for p in g {
            wit.insert(*p, w);
        }
    }
    let nrows = if asg.drop_last { lay.rows.len() - 1 } else { lay.rows.len() };
    for (i, r) in lay.rows.iter().enumerate().take(nrows) {
        let mut ws = [z; 4];
        for k in 0..4 {
            ws[k] = match wit.get(&(i, k)) {
                Some(w) => *w,
                None => c.append_witness(asg.vals[i][k]),
            };
        }
        let pi = if r.has_pi { Some(asg.pis[i]) } else { None };
        let q = asg.inst_q.as_ref().map(|v| v[i]).unwrap_or(r.q);
        c.verif_raw_gate(q, pi, ws);
    }
    for _ in 0..asg.extra_rows {
        c.verif_raw_gate(zq, None, [z; 4]);
    }
}

pub fn prog(lay: &Layout, asg: &Assign) -> Prog {
    let lay = lay.clone();
    let asg = asg.clone();
    let script = asg.script.clone();
    let p = Prog::new(move |c| {
        build(c, &lay, &asg);
        Ok(())
    });
    if script.is_empty() {
        p
    } else {
        p.with_script(script)
    }
}

/// Values for the composer's own initial witnesses such that every initial row
/// has arithmetic residual `delta` (found generically from the emitted rows:
/// rows are solved one at a time through a wire whose witness no solved row uses).
pub fn uniform_init_script(delta: Fe) -> Option<Vec<(usize, Fe)>> {
    let c = Composer::initialized();
    let snap = c.verif_snapshot();
    let n_rows = snap.gates.len();
    let resid = |vals: &[Fe], r: usize| -> Fe {
        let g = &snap.gates[r];
        let cur = [vals[g.w[0]], vals[g.w[1]], vals[g.w[2]], vals[g.w[3]]];
        m1::row_components(&g.q, zero(), &cur, &[zero(); 4])[0]
    };
    fn dfs(order: &mut Vec<usize>, used: &mut Vec<bool>, n_rows: usize, f: &mut dyn FnMut(&[usize]) -> bool) -> bool {
        if order.len() == n_rows {
            return f(order);
        }
        for r in 0..n_rows {
            if !used[r] {
                used[r] = true;
                order.push(r);
                if dfs(order, used, n_rows, f) {
                    return true;
                }
                order.pop();
                used[r] = false;
            }
        }
        false
    }
    let mut result: Option<Vec<Fe>> = None;
    let mut try_order = |order: &[usize]| -> bool {
        let mut vals = snap.witnesses.clone();
        let mut locked = vec![false; vals.len()];
        for &r in order {
            let g = &snap.gates[r];
            let mut solved = false;
            for k in 0..4 {
                let w = g.w[k];
                if locked[w] {
                    continue;
                }
                let keep = vals[w];
                vals[w] = zero();
                let r0 = resid(&vals, r);
                vals[w] = one();
                let r1 = resid(&vals, r);
                vals[w] = fe(2);
                let r2 = resid(&vals, r);
                let slope = r1 - r0;
                // linear in this witness and solvable
                if slope != zero() && r2 - r1 == slope {
                    vals[w] = (delta - r0) * inv(slope);
                    solved = true;
                    break;
                }
                vals[w] = keep;
            }
            if !solved {
                return false;
            }
            for k in 0..4 {
                locked[g.w[k]] = true;
            }
        }
        if (0..n_rows).all(|r| resid(&vals, r) == delta) {
            result = Some(vals);
            true
        } else {
            false
        }
    };
    let mut order = vec![];
    let mut used = vec![false; n_rows];
    dfs(&mut order, &mut used, n_rows, &mut try_order);
    result.map(|vals| vals.iter().enumerate().filter(|(i, v)| **v != snap.witnesses[*i]).map(|(i, v)| (i, *v)).collect())
}

/// When the instance keeps shared positions on one witness the value of the
/// group's first position wins; make `vals` reflect what the circuit holds.
pub fn zero_assign(lay: &Layout) -> Assign {
    Assign::new(vec![[zero(); 4]; lay.rows.len()], vec![zero(); lay.rows.len()])
}

pub type Keys = Arc<(Prover, Verifier, dusk_plonk::verif::Snapshot)>;

/// Compile cache keyed by layout.
pub struct KeyCache {
    map: Mutex<HashMap<u64, Keys>>,
    pub pp: Arc<PublicParameters>,
    pub label: Vec<u8>,
    pub compiles: std::sync::atomic::AtomicU64,
}

impl KeyCache {
    pub fn new(pp: Arc<PublicParameters>, label: &[u8]) -> Self {
        KeyCache { map: Mutex::new(HashMap::new()), pp, label: label.to_vec(), compiles: 0.into() }
    }
    pub fn get(&self, lay: &Layout) -> Result<Keys, Error> {
        let k = lay.key();
        if let Some(v) = self.map.lock().unwrap().get(&k) {
            return Ok(v.clone());
        }
        let p = prog(lay, &zero_assign(lay));
        let (pr, ve) = Compiler::compile_with_circuit(&self.pp, &self.label, &p)?;
        let snap = p.last_snapshot().expect("snapshot");
        self.compiles.fetch_add(1, std::sync::atomic::Ordering::Relaxed);
        let v: Keys = Arc::new((pr, ve, snap));
        self.map.lock().unwrap().insert(k, v.clone());
        Ok(v)
    }
    pub fn len(&self) -> usize {
        self.map.lock().unwrap().len()
    }
}

#[derive(Clone, Debug, PartialEq, Eq)]
pub enum Real {
    /// proved and verified
    Accepted,
    /// proved but the verifier rejected
    ProvedNotVerified(String),
    Unsatisfied,
    SizeMismatch,
    OtherErr(String),
    Panic(String),
}

pub fn describe(lay: &Layout, asg: &Assign) -> Value {
    json!({
        "place": format!("{:?}", lay.place),
        "rows": lay.rows.iter().map(|r| json!({"q": r.q.iter().map(hex).collect::<Vec<_>>(), "pi": r.has_pi})).collect::<Vec<_>>(),
        "share": lay.share,
        "vals": asg.vals.iter().map(|v| v.iter().map(hex).collect::<Vec<_>>()).collect::<Vec<_>>(),
        "pis": asg.pis.iter().map(hex).collect::<Vec<_>>(),
        "inst_share": asg.share,
        "extra_rows": asg.extra_rows,
        "drop_last": asg.drop_last,
        "filler_split": asg.filler_split.map(|(f, v)| json!({"from_slot": f, "value": hex(&v)})),
        "instance_selectors": asg.inst_q.as_ref().map(|q| q.iter().map(|r| r.iter().map(hex).collect::<Vec<_>>()).collect::<Vec<_>>()),
    })
}

/// Run the real prover (+ verifier) on an instance.
pub fn run_real(keys: &Keys, inst: &Prog, rng_stream: u64) -> (Real, Option<dusk_plonk::verif::Snapshot>) {
    let mut rng = crate::rng::ScriptedRng::base(seed(), rng_stream);
    inst.install_script();
    let r = std::panic::catch_unwind(std::panic::AssertUnwindSafe(|| keys.0.prove(&mut rng, inst)));
    dusk_plonk::verif::set_witness_script(&[]);
    let snap = inst.last_snapshot();
    let real = match r {
        Err(e) => Real::Panic(crate::par::panic_msg(e)),
        Ok(Err(Error::CircuitUnsatisfied)) => Real::Unsatisfied,
        Ok(Err(Error::InvalidCircuitSize(_, _))) => Real::SizeMismatch,
        Ok(Err(e)) => Real::OtherErr(format!("{:?}", e)),
        Ok(Ok((proof, pi))) => {
            let v = std::panic::catch_unwind(std::panic::AssertUnwindSafe(|| keys.1.verify(&proof, &pi)));
            match v {
                Err(e) => Real::Panic(format!("verify: {}", crate::par::panic_msg(e))),
                Ok(Ok(())) => Real::Accepted,
                Ok(Err(e)) => Real::ProvedNotVerified(format!("{:?}", e)),
            }
        }
    };
    (real, snap)
}

/// What M1 expects the real prover to do.
pub fn expected(v: &m1::Verdict) -> Real {
    match v {
        m1::Verdict::SizeMismatch { .. } => Real::SizeMismatch,
        v if v.satisfied() => Real::Accepted,
        _ => Real::Unsatisfied,
    }
}
