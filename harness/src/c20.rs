//! C20 — KZG commitments and openings are exact.
//!
//! Sections: `srs` (setup consistency), `trim`, `commit` (linear image, degree
//! boundary), `open` (single openings vs the M4 pairing equation), `batch`
//! (batch_check over every single-position corruption), `aggregate`
//! (aggregate witness + flatten). Oracle: M4 (explicit sums, two pairings).

use std::panic::{catch_unwind, AssertUnwindSafe};
use std::sync::Arc;

use dusk_bls12_381::{G1Affine, G1Projective, G2Affine};
use dusk_bytes::Serializable;
use dusk_plonk::prelude::PublicParameters;
use dusk_plonk::verif::kernels as k;
use serde_json::{json, Value};

use crate::c19::Acc;
use crate::ev::{Run, Tier};
use crate::fe::*;
use crate::m4;
use crate::par::{panic_msg, par_map};
use crate::rng::SeedRng;

const LABEL: &[u8] = b"c20-batch";

fn guard<T>(f: impl FnOnce() -> T) -> Result<T, String> {
    catch_unwind(AssertUnwindSafe(f)).map_err(panic_msg)
}

fn g1hex(p: &G1Affine) -> String {
    p.to_bytes().iter().map(|b| format!("{:02x}", b)).collect()
}

fn hexv(v: &[Fe]) -> Value {
    json!(v.iter().map(hex).collect::<Vec<_>>())
}

fn is_id(p: &G1Affine) -> bool {
    bool::from(p.is_identity())
}

fn add_g(p: &G1Affine, g: &G1Affine) -> G1Affine {
    G1Affine::from(G1Projective::from(*p) + G1Projective::from(*g))
}

fn rho_vec(len: usize, stream: u64) -> Vec<Fe> {
    let mut r = Rho::new(seed(), 2100 + stream);
    (0..len).map(|_| r.next_fe()).collect()
}

fn rho_scalar(stream: u64) -> Fe {
    Rho::new(seed(), 2200 + stream).next_fe()
}

pub fn setup(d: usize) -> Result<PublicParameters, String> {
    let mut rng = SeedRng(Rho::new(seed(), 2000 + d as u64));
    match guard(|| PublicParameters::setup(d, &mut rng)) {
        Ok(Ok(pp)) => Ok(pp),
        Ok(Err(e)) => Err(format!("Err({:?})", e)),
        Err(p) => Err(format!("panic: {}", p)),
    }
}

pub struct Ctx {
    pub d: usize,
    pub pp: PublicParameters,
    pub srs: m4::Srs,
    pub bytes: Vec<u8>,
}

// ---------------------------------------------------------------------------
// srs
// ---------------------------------------------------------------------------

fn srs_for_degree(d: usize) -> (Acc, Option<Ctx>) {
    let mut acc = Acc::default();
    let desc = json!({"kernel": "setup", "degree": d});
    let pp = match setup(d) {
        Ok(pp) => pp,
        Err(e) => {
            acc.case("setup", "failed", None);
            acc.fail("srs", "srs/setup-fails", format!("PublicParameters::setup({}) failed: {}", d, e), desc);
            return (acc, None);
        }
    };
    let bytes = pp.to_var_bytes();
    let Some(srs) = m4::parse_srs(&bytes) else {
        acc.case("setup", "unparsable", None);
        acc.fail("srs", "srs/unparsable-bytes", format!("to_var_bytes of setup({}) does not decode into valid points", d), desc);
        return (acc, None);
    };
    acc.case("setup", &format!("d={}", d), Some(fnv(&bytes)));
    if srs.powers.len() != d + 7 || pp.max_degree() != d + 6 {
        acc.fail("srs", "srs/point-count", format!("setup({}) has {} points, max_degree() = {}; expected {} points", d, srs.powers.len(), pp.max_degree(), d + 7), desc.clone());
    }
    if srs.powers.is_empty() || srs.powers[0] != srs.g {
        acc.fail("srs", "srs/p0-not-g", format!("setup({}): first commit-key point differs from the opening key's g", d), desc.clone());
    }
    let g2_id = |p: &G2Affine| bool::from(p.is_identity());
    if srs.powers.iter().any(is_id) || is_id(&srs.g) || g2_id(&srs.h) || g2_id(&srs.x_h) {
        acc.fail("srs", "srs/identity-point", format!("setup({}) contains the identity", d), desc.clone());
    }
    if srs.h == srs.x_h {
        acc.outcome("info:secret-is-one");
    }
    for i in 0..srs.powers.len().saturating_sub(1) {
        acc.case("setup-power-link", &format!("d={}", d), Some(fnv(format!("link|{}|{}", d, i).as_bytes())));
        if !m4::is_next_power(&srs.powers[i + 1], &srs.powers[i], &srs.h, &srs.x_h) {
            acc.fail("srs", "srs/inconsistent-powers", format!("setup({}): e(P_{}, h) != e(P_{}, x_h)", d, i + 1, i), json!({"kernel": "setup", "degree": d, "index": i}));
        } else {
            acc.outcome("srs:power-link-consistent");
        }
    }
    // the pairing check must be able to fail: a skipped point is not the next power
    if srs.powers.len() >= 3 && m4::is_next_power(&srs.powers[2], &srs.powers[0], &srs.h, &srs.x_h) {
        acc.outcome("info:P2-is-next-power-of-P0(secret of order 1)");
    } else {
        acc.outcome("srs:pairing-link-check-can-fail");
    }
    (acc, Some(Ctx { d, pp, srs, bytes }))
}

// ---------------------------------------------------------------------------
// trim
// ---------------------------------------------------------------------------

fn trim_for(ctx: &Ctx) -> Acc {
    let mut acc = Acc::default();
    let d = ctx.d;
    for n in 0..=d + 3 {
        let desc = json!({"kernel": "trim", "degree": d, "n": n, "srs_points": ctx.srs.powers.len()});
        let fits = n + 7 <= ctx.srs.powers.len();
        let shape = format!("d={}/{}", d, if fits { "fits" } else { "beyond-capacity" });
        match guard(|| k::trim(&ctx.pp, n)) {
            Err(p) => {
                acc.case("trim", &shape, None);
                acc.fail("trim", "trim/panic", format!("trim({}) of setup({}) panicked: {}", n, d, p), desc);
            }
            Ok(Err(e)) => {
                acc.case("trim", &shape, None);
                if fits {
                    acc.fail("trim", "trim/refuses-supported-size", format!("trim({}) of setup({}) returned Err({:?}) although n + 7 <= {} points", n, d, e, ctx.srs.powers.len()), desc);
                } else {
                    acc.outcome("trim:Err-beyond-capacity");
                }
            }
            Ok(Ok(keys)) => {
                let pw = keys.powers();
                acc.case("trim", &shape, Some(fnv(format!("trim|{}|{}", d, n).as_bytes())));
                if !fits {
                    acc.fail("trim", "trim/accepts-beyond-capacity", format!("trim({}) of setup({}) returned Ok with {} points", n, d, pw.len()), desc.clone());
                }
                if pw.len() < n + 7 {
                    acc.fail(
                        "trim",
                        "trim/too-short",
                        format!("trim({}) of setup({}) keeps {} points; the prover commits to polynomials of degree n + 6 = {} ({} coefficients)", n, d, pw.len(), n + 6, n + 7),
                        desc.clone(),
                    );
                } else if pw.len() == n + 7 {
                    acc.outcome("trim:keeps-exactly-n+7-points");
                } else {
                    acc.outcome("trim:keeps-more-than-n+7-points");
                }
                if pw.len() > ctx.srs.powers.len() || pw[..] != ctx.srs.powers[..pw.len()] {
                    acc.fail("trim", "trim/not-a-prefix", format!("trim({}) of setup({}) is not a prefix of the SRS", n, d), desc.clone());
                }
                if keys.opening_bytes()[..] != ctx.bytes[..m4::OPENING_KEY_BYTES] {
                    acc.fail("trim", "trim/opening-key-differs", format!("trim({}) of setup({}) changes the opening key", n, d), desc.clone());
                }
            }
        }
    }
    acc
}

// ---------------------------------------------------------------------------
// commit
// ---------------------------------------------------------------------------

fn commit_real(keys: &k::Keys, c: &[Fe]) -> Result<Result<G1Affine, String>, String> {
    guard(|| keys.commit(c).map_err(|e| format!("{:?}", e)))
}

fn commit_for(ctx: &Ctx, n_trim: usize) -> Acc {
    let mut acc = Acc::default();
    let d = ctx.d;
    let keys = match guard(|| k::trim(&ctx.pp, n_trim)) {
        Ok(Ok(k)) => k,
        _ => {
            acc.machinery.push(format!("commit section: trim({}) of setup({}) failed", n_trim, d));
            return acc;
        }
    };
    let points = keys.powers();
    let np = points.len();
    let key_shape = format!("d={}/trim={}", d, n_trim);
    for len in 0..=np + 2 {
        let mut pats: Vec<(String, Vec<Fe>)> = vec![("zeros".into(), vec![zero(); len])];
        if len > 0 {
            for i in [0, len / 2, len - 1] {
                let nm = format!("e_{}", i);
                if !pats.iter().any(|(n, _)| *n == nm) {
                    let mut v = vec![zero(); len];
                    v[i] = one();
                    pats.push((nm, v));
                }
            }
            pats.push(("ones".into(), vec![one(); len]));
            pats.push(("rho".into(), rho_vec(len, 1)));
            if len > np {
                let mut v = rho_vec(len, 2);
                for x in v.iter_mut().skip(np) {
                    *x = zero();
                }
                pats.push(("rho-zero-padded-beyond-degree".into(), v));
            }
        }
        for (pn, c) in pats {
            let t = m4::trim(&c);
            let within = t.len() <= np;
            let shape = format!("{}/{}", key_shape, if len > np { "len>points" } else if len == np { "len=points" } else { "len<points" });
            let desc = json!({"kernel": "commit", "degree": d, "trim": n_trim, "points": np, "len": len, "pattern": pn, "effective_len": t.len()});
            match commit_real(&keys, &c) {
                Err(p) => {
                    acc.case("commit", &shape, None);
                    acc.fail("commit", "commit/panic", format!("commit panicked: {}", p), desc);
                }
                Ok(Err(e)) => {
                    acc.case("commit", &shape, None);
                    if within {
                        acc.fail("commit", "commit/refuses-within-degree", format!("commit of {} coefficients on {} points returned Err({})", t.len(), np, e), desc);
                    } else {
                        acc.outcome("commit:Err-beyond-degree");
                    }
                }
                Ok(Ok(cm)) => {
                    acc.case("commit", &shape, if t.is_empty() { None } else { Some(fnv(desc.to_string().as_bytes())) });
                    if !within {
                        acc.fail("commit", "commit/accepts-beyond-degree", format!("commit of {} coefficients on {} points returned Ok", t.len(), np), desc);
                        continue;
                    }
                    let exp = m4::affine(m4::commit(&points, &t).expect("within"));
                    if cm != exp {
                        let mut dd = desc;
                        dd["real"] = json!(g1hex(&cm));
                        dd["expected"] = json!(g1hex(&exp));
                        acc.fail("commit", "commit/not-the-explicit-sum", format!("commit differs from Σ c_i·P_i (len {}, {})", len, pn), dd);
                    } else if t.is_empty() {
                        if is_id(&cm) {
                            acc.outcome("commit:zero-polynomial-is-identity");
                        } else {
                            acc.fail("commit", "commit/zero-not-identity", "commit of the zero polynomial is not the identity".into(), desc);
                        }
                    } else {
                        acc.outcome("commit:equals-explicit-sum");
                    }
                }
            }
        }
    }
    // additivity and homogeneity on the real commitments
    let mut lens: Vec<usize> = vec![0, 1, 2, np / 2, np - 1, np];
    lens.dedup();
    let polys: Vec<Vec<Fe>> = lens.iter().enumerate().map(|(i, l)| rho_vec(*l, 10 + i as u64)).collect();
    let cms: Vec<Option<G1Affine>> = polys.iter().map(|p| commit_real(&keys, p).ok().and_then(|r| r.ok())).collect();
    for (i, a) in polys.iter().enumerate() {
        for (j, b) in polys.iter().enumerate() {
            let desc = json!({"kernel": "commit", "degree": d, "trim": n_trim, "a_len": a.len(), "b_len": b.len(), "a": hexv(a), "b": hexv(b)});
            let (Some(ca), Some(cb)) = (cms[i], cms[j]) else {
                acc.machinery.push("commit of an in-range rho polynomial failed".into());
                continue;
            };
            let sum = m4::poly_add(a, b);
            match commit_real(&keys, &sum) {
                Ok(Ok(cs)) => {
                    acc.case("commit-additivity", &key_shape, Some(fnv(desc.to_string().as_bytes())));
                    if cs != add_g(&ca, &cb) {
                        acc.fail("commit", "commit/not-additive", "commit(a) + commit(b) != commit(a + b)".into(), desc.clone());
                    } else {
                        acc.outcome("commit:additive");
                    }
                }
                other => acc.fail("commit", "commit/sum-refused", format!("commit(a + b) failed: {:?}", other.map(|r| r.map(|p| g1hex(&p)))), desc.clone()),
            }
            if i == j {
                // a + (-a) is the zero polynomial
                let z = m4::poly_add(a, &m4::poly_neg(a));
                match commit_real(&keys, &z) {
                    Ok(Ok(cz)) => {
                        acc.case("commit-additivity", &key_shape, None);
                        if !is_id(&cz) {
                            acc.fail("commit", "commit/zero-not-identity", "commit(a − a) is not the identity".into(), desc.clone());
                        }
                    }
                    _ => acc.fail("commit", "commit/sum-refused", "commit(a − a) failed".into(), desc.clone()),
                }
                for (sn, s) in [("0", zero()), ("1", one()), ("-1", neg1()), ("rho", rho_scalar(1))] {
                    match commit_real(&keys, &m4::poly_scale(a, s)) {
                        Ok(Ok(cs)) => {
                            acc.case("commit-homogeneity", &key_shape, Some(fnv(format!("{}|{}", desc, sn).as_bytes())));
                            if cs != G1Affine::from(G1Projective::from(ca) * s) {
                                acc.fail("commit", "commit/not-homogeneous", format!("commit(s·a) != s·commit(a), s = {}", sn), desc.clone());
                            } else {
                                acc.outcome("commit:homogeneous");
                            }
                        }
                        _ => acc.fail("commit", "commit/sum-refused", "commit(s·a) failed".into(), desc.clone()),
                    }
                }
            }
        }
    }
    acc
}

// ---------------------------------------------------------------------------
// openings
// ---------------------------------------------------------------------------

#[derive(Clone)]
pub struct Opening {
    pub name: String,
    pub z: Fe,
    pub c: G1Affine,
    pub e: Fe,
    pub w: G1Affine,
}

fn points_alphabet() -> Vec<(&'static str, Fe)> {
    vec![("0", zero()), ("1", one()), ("-1", neg1()), ("rho", rho_scalar(2)), ("omega_8", m4::root_of_unity(8))]
}

fn m4_holds(srs: &m4::Srs, o: &Opening) -> bool {
    m4::opening_holds(&srs.g, &srs.h, &srs.x_h, &o.c, o.z, o.e, &o.w)
}

fn single(keys: &k::Keys, o: &Opening) -> Result<bool, String> {
    guard(|| keys.batch_check(LABEL_STATIC, &[(o.z, o.c, o.e, o.w)], None).is_ok())
}

static LABEL_STATIC: &[u8] = LABEL;

/// Honest opening of `p` at `z` produced by the real kernels (ruffini + commit).
fn open_real(keys: &k::Keys, p: &[Fe], z: Fe, name: String) -> Result<(Opening, Vec<Fe>), String> {
    let wpoly = guard(|| k::poly_ruffini(p, z))?;
    let c = commit_real(keys, p)?.map_err(|e| format!("commit(p): {}", e))?;
    let w = commit_real(keys, &wpoly)?.map_err(|e| format!("commit(witness): {}", e))?;
    Ok((Opening { name, z, c, e: m4::horner(p, z), w }, wpoly))
}

fn open_polys(np: usize) -> Vec<(String, Vec<Fe>)> {
    let mut out: Vec<(String, Vec<Fe>)> = vec![("zero".into(), vec![]), ("const".into(), vec![fe(7)]), ("ones5".into(), vec![one(); 5])];
    let mut lens = vec![1usize, 2, 3, 8, 17, np - 1, np];
    lens.retain(|l| *l <= np);
    lens.sort();
    lens.dedup();
    for l in lens {
        out.push((format!("rho{}", l), rho_vec(l, 30 + l as u64)));
    }
    out
}

fn open_for(ctx: &Ctx) -> Acc {
    let mut acc = Acc::default();
    let d = ctx.d;
    let Ok(Ok(keys)) = guard(|| k::trim(&ctx.pp, d)) else {
        acc.machinery.push(format!("open section: trim({}) failed", d));
        return acc;
    };
    let points = keys.powers();
    let mut cases = vec![];
    for (pn, p) in open_polys(points.len()) {
        for (zn, z) in points_alphabet() {
            cases.push((pn.clone(), p.clone(), zn, z));
        }
        // a polynomial with a root at the opening point: evaluation 0
        if p.len() >= 2 {
            let z = rho_scalar(3);
            let shifted = m4::poly_add_scalar(&p, -m4::horner(&p, z));
            cases.push((format!("{}-minus-value", pn), shifted, "rho-root", z));
        }
    }
    let parts = par_map(&cases, |(pn, p, zn, z)| {
        let mut acc = Acc::default();
        let shape = format!("d={}/len={}/z={}", d, p.len().min(4), zn);
        let desc = json!({"kernel": "open", "degree": d, "polynomial": pn, "coefficients": hexv(p), "point": zn, "point_value": hex(z)});
        let (o, wpoly) = match open_real(&keys, p, *z, format!("{}@{}", pn, zn)) {
            Ok(x) => x,
            Err(e) => {
                acc.case("open", &shape, None);
                acc.fail("open", "open/kernel-failed", format!("producing the opening failed: {}", e), desc);
                return acc;
            }
        };
        acc.case("open", &shape, if m4::trim(&wpoly).is_empty() { None } else { Some(fnv(desc.to_string().as_bytes())) });
        // witness polynomial and its commitment vs M4
        let (q, r) = m4::div_linear(p, *z);
        if r != o.e {
            acc.machinery.push("M4 remainder differs from Horner".into());
        }
        if !m4::poly_eq(&wpoly, &q) {
            acc.fail("open", "open/witness-polynomial-wrong", "ruffini quotient differs from the M4 synthetic division".into(), desc.clone());
        }
        let wexp = m4::affine(m4::commit(&points, &m4::trim(&q)).expect("quotient fits"));
        if wexp != o.w {
            acc.fail("open", "open/witness-commitment-wrong", "commitment of the witness differs from Σ q_i·P_i".into(), desc.clone());
        }
        // M4 pairing equation: true value passes, value + 1 fails
        let ok = m4_holds(&ctx.srs, &o);
        let mut bad = o.clone();
        bad.e = o.e + one();
        let ok_bad = m4_holds(&ctx.srs, &bad);
        if !ok {
            acc.fail("open", "open/honest-opening-fails-pairing-equation", format!("e(C − vG, H) != e(W, X_H − zH) for the honest opening of {} at {}", pn, zn), desc.clone());
        } else {
            acc.outcome("open:honest-opening-satisfies-M4-equation");
        }
        if ok_bad && ok {
            acc.machinery.push(format!("M4 pairing equation accepts both v and v + 1 ({} at {})", pn, zn));
        } else if ok_bad {
            acc.fail("open", "open/pairing-equation-holds-for-value+1", format!("the opening of {} at {} produced by the kernels satisfies the equation for v + 1", pn, zn), desc.clone());
        } else {
            acc.outcome("open:value+1-fails-M4-equation");
        }
        // the real check on the single opening
        for (what, op, exp) in [("true-value", &o, true), ("value+1", &bad, false)] {
            acc.case("batch_check-single", &shape, Some(fnv(format!("{}|{}", desc, what).as_bytes())));
            match single(&keys, op) {
                Ok(r) if r == exp => acc.outcome(&format!("open:real-check/{}:{}", what, if r { "Ok" } else { "Err" })),
                Ok(r) => {
                    let sig = if r { "open/real-check-accepts-false-evaluation" } else { "open/real-check-rejects-true-evaluation" };
                    acc.fail("open", sig, format!("batch_check on the single opening of {} at {} with {} returned {}", pn, zn, what, if r { "Ok" } else { "Err" }), desc.clone());
                }
                Err(p) => acc.fail("open", "open/real-check-panics", p, desc.clone()),
            }
        }
        acc
    });
    for p in parts {
        match p {
            Ok(a) => acc.merge(a),
            Err(e) => acc.machinery.push(format!("open worker panicked: {}", e)),
        }
    }
    acc
}

// ---------------------------------------------------------------------------
// batches
// ---------------------------------------------------------------------------

pub struct BatchCase {
    pub name: String,
    pub kind: &'static str,
    pub items: Vec<Opening>,
    pub points_override: Option<Vec<Fe>>,
}

fn batch_bases(keys: &k::Keys, np: usize) -> Result<Vec<(String, Vec<Opening>)>, String> {
    let zs: Vec<Fe> = vec![rho_scalar(10), zero(), m4::root_of_unity(8), neg1()];
    let ps: Vec<Vec<Fe>> = vec![rho_vec(np, 50), rho_vec(9.min(np), 51), rho_vec(3, 52), rho_vec(np - 1, 53)];
    let mut bases = vec![];
    for s in 1..=4usize {
        // A: distinct polynomials, distinct points
        let mut a = vec![];
        // B: distinct polynomials, one point
        let mut b = vec![];
        // C: one polynomial, distinct points
        let mut c = vec![];
        // D: degenerate members (constant, zero polynomial) mixed in
        let mut dd = vec![];
        let special: Vec<Vec<Fe>> = vec![vec![fe(5)], rho_vec(6, 54), vec![], rho_vec(2, 55)];
        for i in 0..s {
            a.push(open_real(keys, &ps[i], zs[i], format!("p{}@z{}", i, i))?.0);
            b.push(open_real(keys, &ps[i], zs[0], format!("p{}@z0", i))?.0);
            c.push(open_real(keys, &ps[0], zs[i], format!("p0@z{}", i))?.0);
            dd.push(open_real(keys, &special[i], zs[(i + 1) % 4], format!("s{}@z{}", i, (i + 1) % 4))?.0);
        }
        bases.push((format!("A{}", s), a));
        bases.push((format!("B{}", s), b));
        bases.push((format!("C{}", s), c));
        bases.push((format!("D{}", s), dd));
    }
    Ok(bases)
}

fn batch_cases(bases: &[(String, Vec<Opening>)], g: &G1Affine) -> Vec<BatchCase> {
    let mut out = vec![];
    for (bn, items) in bases {
        let s = items.len();
        out.push(BatchCase { name: format!("{}/honest", bn), kind: "honest", items: items.clone(), points_override: None });
        for i in 0..s {
            let mut m = items.clone();
            m[i].e = m[i].e + one();
            out.push(BatchCase { name: format!("{}/wrong-evaluation@{}", bn, i), kind: "wrong-evaluation", items: m, points_override: None });
            let mut m = items.clone();
            m[i].w = add_g(&m[i].w, g);
            out.push(BatchCase { name: format!("{}/wrong-witness@{}", bn, i), kind: "wrong-witness", items: m, points_override: None });
            let mut m = items.clone();
            m[i].z = m[i].z + one();
            let pts: Vec<Fe> = m.iter().map(|o| o.z).collect();
            out.push(BatchCase { name: format!("{}/point-mismatch@{}", bn, i), kind: "point-mismatch", items: m, points_override: Some(pts) });
            for j in i + 1..s {
                let mut m = items.clone();
                let (ci, cj) = (m[i].c, m[j].c);
                m[i].c = cj;
                m[j].c = ci;
                out.push(BatchCase { name: format!("{}/swapped-commitments@{},{}", bn, i, j), kind: "swapped-commitments", items: m, points_override: None });
                let mut m = items.clone();
                m.swap(i, j);
                out.push(BatchCase { name: format!("{}/permuted-entries@{},{}", bn, i, j), kind: "permuted-entries", items: m, points_override: None });
            }
        }
        // mismatched lengths
        let pts: Vec<Fe> = items.iter().map(|o| o.z).collect();
        let mut longer = pts.clone();
        longer.push(one());
        out.push(BatchCase { name: format!("{}/points-longer", bn), kind: "length-mismatch", items: items.clone(), points_override: Some(longer) });
        let shorter = pts[..s - 1].to_vec();
        out.push(BatchCase { name: format!("{}/points-shorter", bn), kind: "length-mismatch", items: items.clone(), points_override: Some(shorter) });
    }
    out.push(BatchCase { name: "empty".into(), kind: "empty", items: vec![], points_override: None });
    out.push(BatchCase { name: "empty-with-a-point".into(), kind: "length-mismatch", items: vec![], points_override: Some(vec![one()]) });
    out
}

fn batch_for(ctx: &Ctx) -> Acc {
    let mut acc = Acc::default();
    let d = ctx.d;
    let Ok(Ok(keys)) = guard(|| k::trim(&ctx.pp, d)) else {
        acc.machinery.push(format!("batch section: trim({}) failed", d));
        return acc;
    };
    let np = keys.powers().len();
    let bases = match batch_bases(&keys, np) {
        Ok(b) => b,
        Err(e) => {
            acc.machinery.push(format!("batch section: building honest openings failed: {}", e));
            return acc;
        }
    };
    let cases = batch_cases(&bases, &ctx.srs.g);
    let parts = par_map(&cases, |bc| {
        let mut acc = Acc::default();
        let s = bc.items.len();
        let shape = format!("d={}/size={}/{}", d, s, bc.kind);
        let desc = json!({"kernel": "batch_check", "degree": d, "batch": bc.name, "kind": bc.kind, "size": s,
            "items": bc.items.iter().map(|o| json!({"opening": o.name, "point": hex(&o.z), "commitment": g1hex(&o.c), "evaluation": hex(&o.e), "witness": g1hex(&o.w)})).collect::<Vec<_>>(),
            "points_override": bc.points_override.as_ref().map(|p| hexv(p))});
        // oracle: structural errors first, then every entry must satisfy the M4 equation at the point the verifier is given
        let pts: Vec<Fe> = match &bc.points_override {
            Some(p) => p.clone(),
            None => bc.items.iter().map(|o| o.z).collect(),
        };
        let expected = if s == 0 || pts.len() != s {
            false
        } else {
            bc.items.iter().zip(&pts).all(|(o, z)| m4::opening_holds(&ctx.srs.g, &ctx.srs.h, &ctx.srs.x_h, &o.c, *z, o.e, &o.w))
        };
        let tuples: Vec<(Fe, G1Affine, Fe, G1Affine)> = bc.items.iter().map(|o| (o.z, o.c, o.e, o.w)).collect();
        let real = guard(|| keys.batch_check(LABEL_STATIC, &tuples, bc.points_override.as_deref()).map_err(|e| format!("{:?}", e)));
        acc.case("batch_check", &shape, Some(fnv(bc.name.as_bytes()) ^ d as u64));
        match real {
            Err(p) => acc.fail("batch", &format!("batch_check/panic/{}", bc.kind), format!("batch_check panicked on {}: {}", bc.name, p), desc),
            Ok(r) => {
                let ok = r.is_ok();
                acc.outcome(&format!("batch:{}:{}", bc.kind, if ok { "Ok" } else { "Err" }));
                if ok != expected {
                    let sig = if ok { format!("batch_check/accepts-false/{}", bc.kind) } else { format!("batch_check/rejects-true/{}", bc.kind) };
                    acc.fail("batch", &sig, format!("batch {}: batch_check returned {:?}, M4 says every entry {}", bc.name, r, if expected { "holds" } else { "does not hold" }), desc);
                } else if !expected {
                    acc.outcome(&format!("batch:fails-as-expected:{}", bc.kind));
                }
            }
        }
        acc
    });
    for p in parts {
        match p {
            Ok(a) => acc.merge(a),
            Err(e) => acc.machinery.push(format!("batch worker panicked: {}", e)),
        }
    }
    acc
}

// ---------------------------------------------------------------------------
// aggregated openings
// ---------------------------------------------------------------------------

pub struct AggCase {
    pub name: String,
    pub polys: Vec<Vec<Fe>>,
    pub z: Fe,
    pub v: Fe,
    pub v_name: &'static str,
}

fn agg_cases(np: usize, tier: Tier) -> Vec<AggCase> {
    let fam_a: Vec<Vec<Fe>> = vec![rho_vec(5, 60), rho_vec(np, 61), rho_vec(17.min(np), 62), rho_vec(2, 63)];
    let fam_b: Vec<Vec<Fe>> = vec![vec![fe(3)], vec![], rho_vec(3, 64), rho_vec(np - 1, 65)];
    let fam_c: Vec<Vec<Fe>> = vec![rho_vec(np, 66), rho_vec(np, 67), rho_vec(np, 68), rho_vec(np, 69)];
    let zs: Vec<(&str, Fe)> = tier.pick(
        vec![("0", zero()), ("rho", rho_scalar(20)), ("omega_8", m4::root_of_unity(8))],
        vec![("0", zero()), ("1", one()), ("-1", neg1()), ("rho", rho_scalar(20)), ("omega_8", m4::root_of_unity(8))],
    );
    let vs: Vec<(&'static str, Fe)> = vec![("rho", rho_scalar(21)), ("1", one()), ("-1", neg1()), ("2", fe(2)), ("0", zero())];
    let mut out = vec![];
    for (fname, fam) in [("a", &fam_a), ("b", &fam_b), ("c", &fam_c)] {
        for kk in 1..=4usize {
            for (zn, z) in &zs {
                for (vn, v) in &vs {
                    out.push(AggCase { name: format!("{}{}@{}/v={}", fname, kk, zn, vn), polys: fam[..kk].to_vec(), z: *z, v: *v, v_name: vn });
                }
            }
        }
    }
    out
}

fn run_agg(ctx: &Ctx, keys: &k::Keys, ac: &AggCase, tag: &str) -> Acc {
    let mut acc = Acc::default();
    let d = ctx.d;
    let kk = ac.polys.len();
    let shape = format!("d={}/k={}/v={}{}", d, kk, ac.v_name, tag);
    let desc = json!({"kernel": "aggregate", "degree": d, "case": ac.name, "polynomials": ac.polys.iter().map(|p| hexv(p)).collect::<Vec<_>>(), "point": hex(&ac.z), "challenge": hex(&ac.v)});
    let refs: Vec<&[Fe]> = ac.polys.iter().map(|p| &p[..]).collect();
    // aggregate witness polynomial
    let wit = match guard(|| k::aggregate_witness(&refs, &ac.z, &ac.v)) {
        Ok(w) => w,
        Err(p) => {
            acc.case("aggregate_witness", &shape, None);
            acc.fail("aggregate", "aggregate_witness/panic", p, desc);
            return acc;
        }
    };
    let lin = m4::linear_combination(&ac.polys, ac.v);
    let (q, _) = m4::div_linear(&lin, ac.z);
    acc.case("aggregate_witness", &shape, if m4::trim(&q).is_empty() { None } else { Some(fnv(desc.to_string().as_bytes())) });
    if !m4::poly_eq(&wit, &q) {
        acc.fail("aggregate", "aggregate_witness/wrong-polynomial", format!("aggregate witness differs from (Σ v^i p_i − value)/(X − z) ({})", ac.name), desc.clone());
    }
    let (Ok(Ok(w)), cs) = (commit_real(keys, &wit), ac.polys.iter().map(|p| commit_real(keys, p)).collect::<Vec<_>>()) else {
        acc.fail("aggregate", "aggregate/commit-failed", "commit of the aggregate witness failed".into(), desc);
        return acc;
    };
    let mut cms = vec![];
    for c in cs {
        match c {
            Ok(Ok(c)) => cms.push(c),
            _ => {
                acc.machinery.push("aggregate: commit of an in-range polynomial failed".into());
                return acc;
            }
        }
    }
    let true_evals: Vec<Fe> = ac.polys.iter().map(|p| m4::horner(p, ac.z)).collect();
    // claims: all true, then each single evaluation flipped
    let mut claims: Vec<(String, Vec<Fe>, Option<usize>)> = vec![("all-true".into(), true_evals.clone(), None)];
    for i in 0..kk {
        let mut e = true_evals.clone();
        e[i] = e[i] + one();
        claims.push((format!("evaluation-{}-false", i), e, Some(i)));
    }
    for (cn, evals, flipped) in claims {
        let parts: Vec<(Fe, G1Affine)> = evals.iter().copied().zip(cms.iter().copied()).collect();
        let mut dd = desc.clone();
        dd["claim"] = json!(cn);
        let (fc, fe_) = match guard(|| k::flatten(w, &parts, &ac.v)) {
            Ok(x) => x,
            Err(p) => {
                acc.case("flatten", &shape, None);
                acc.fail("aggregate", "flatten/panic", p, dd);
                continue;
            }
        };
        acc.case("flatten", &shape, Some(fnv(dd.to_string().as_bytes())));
        let (mc, me) = m4::flatten(&parts, ac.v);
        let mc = m4::affine(mc);
        if fc != mc || fe_ != me {
            let mut d2 = dd.clone();
            d2["real"] = json!([g1hex(&fc), hex(&fe_)]);
            d2["expected"] = json!([g1hex(&mc), hex(&me)]);
            acc.fail("aggregate", "flatten/wrong-combination", format!("flatten differs from (Σ v^i C_i, Σ v^i e_i) ({}, k={})", ac.name, kk), d2);
        } else {
            acc.outcome("aggregate:flatten-equals-linear-combination");
        }
        // truth: every claimed evaluation is the Horner value
        let all_true = flipped.is_none();
        // a flip at position i is invisible when v^i = 0 (degenerate challenge): informational
        let degenerate = match flipped {
            Some(i) => m4::pow_u64(ac.v, i as u64) == zero(),
            None => false,
        };
        let m4_ok = m4::opening_holds(&ctx.srs.g, &ctx.srs.h, &ctx.srs.x_h, &mc, ac.z, me, &w);
        if degenerate {
            acc.outcome(&format!("info:aggregate/challenge-0-hides-false-evaluation:M4-equation-{}", if m4_ok { "holds" } else { "fails" }));
        } else if m4_ok != all_true {
            // C*, e* are M4's own combination; only the witness commitment comes from the kernels
            acc.fail(
                "aggregate",
                if all_true { "aggregate/witness-does-not-open-true-claims" } else { "aggregate/witness-opens-false-claim" },
                format!("M4 opening equation on (Σ v^i C_i, Σ v^i e_i, kernel witness) is {} but the claims are {} ({}, {})", m4_ok, if all_true { "all true" } else { "not all true" }, ac.name, cn),
                dd.clone(),
            );
        }
        acc.case("batch_check-flattened", &shape, Some(fnv(format!("bc|{}", dd).as_bytes())));
        match guard(|| keys.batch_check(LABEL_STATIC, &[(ac.z, fc, fe_, w)], None).is_ok()) {
            Err(p) => acc.fail("aggregate", "aggregate/check-panics", p, dd),
            Ok(r) => {
                if degenerate {
                    acc.outcome(&format!("info:aggregate/challenge-0-hides-false-evaluation:real-check-{}", if r { "Ok" } else { "Err" }));
                } else if r != all_true {
                    let sig = if r { "aggregate/accepts-false-evaluation" } else { "aggregate/rejects-true-evaluations" };
                    acc.fail("aggregate", sig, format!("flattened aggregate {} with claim {}: check returned {}", ac.name, cn, if r { "Ok" } else { "Err" }), dd);
                } else if r {
                    acc.outcome("aggregate:all-true-passes");
                } else {
                    acc.outcome("aggregate:fails-as-expected:false-evaluation");
                }
            }
        }
    }
    acc
}

fn two_aggregates(ctx: &Ctx, keys: &k::Keys, np: usize) -> Acc {
    let mut acc = Acc::default();
    let d = ctx.d;
    let z1 = rho_scalar(40);
    let z2 = z1 * m4::root_of_unity(8);
    let v = rho_scalar(41);
    let polys1: Vec<Vec<Fe>> = vec![rho_vec(np, 70), rho_vec(np - 1, 71), rho_vec(4, 72), vec![fe(9)]];
    let polys2: Vec<Vec<Fe>> = vec![rho_vec(np, 70), rho_vec(7.min(np), 73)];
    let build = |polys: &[Vec<Fe>], z: Fe| -> Result<(G1Affine, Vec<G1Affine>, Vec<Fe>), String> {
        let refs: Vec<&[Fe]> = polys.iter().map(|p| &p[..]).collect();
        let wit = guard(|| k::aggregate_witness(&refs, &z, &v))?;
        let w = commit_real(keys, &wit)?.map_err(|e| e)?;
        let mut cms = vec![];
        for p in polys {
            cms.push(commit_real(keys, p)?.map_err(|e| e)?);
        }
        Ok((w, cms, polys.iter().map(|p| m4::horner(p, z)).collect()))
    };
    let (a1, a2) = match (build(&polys1, z1), build(&polys2, z2)) {
        (Ok(a), Ok(b)) => (a, b),
        _ => {
            acc.fail("aggregate", "aggregate/commit-failed", "building two aggregated openings failed".into(), json!({"degree": d}));
            return acc;
        }
    };
    // claims: honest, then every single evaluation of either aggregate flipped
    let mut claims: Vec<(String, Vec<Fe>, Vec<Fe>, bool)> = vec![("all-true".into(), a1.2.clone(), a2.2.clone(), true)];
    for i in 0..a1.2.len() {
        let mut e = a1.2.clone();
        e[i] = e[i] + one();
        claims.push((format!("first-aggregate-evaluation-{}-false", i), e, a2.2.clone(), false));
    }
    for i in 0..a2.2.len() {
        let mut e = a2.2.clone();
        e[i] = e[i] + one();
        claims.push((format!("second-aggregate-evaluation-{}-false", i), a1.2.clone(), e, false));
    }
    for (cn, e1, e2, truth) in claims {
        let shape = format!("d={}/two-aggregates", d);
        let desc = json!({"kernel": "flatten+batch_check", "degree": d, "claim": cn, "points": [hex(&z1), hex(&z2)], "challenge": hex(&v)});
        let p1: Vec<(Fe, G1Affine)> = e1.iter().copied().zip(a1.1.iter().copied()).collect();
        let p2: Vec<(Fe, G1Affine)> = e2.iter().copied().zip(a2.1.iter().copied()).collect();
        let (f1, f2) = match (guard(|| k::flatten(a1.0, &p1, &v)), guard(|| k::flatten(a2.0, &p2, &v))) {
            (Ok(a), Ok(b)) => (a, b),
            _ => {
                acc.fail("aggregate", "flatten/panic", "flatten panicked".into(), desc);
                continue;
            }
        };
        let (m1, m2) = (m4::flatten(&p1, v), m4::flatten(&p2, v));
        if (f1.0, f1.1) != (m4::affine(m1.0), m1.1) || (f2.0, f2.1) != (m4::affine(m2.0), m2.1) {
            acc.fail("aggregate", "flatten/wrong-combination", "flatten differs from (Σ v^i C_i, Σ v^i e_i) (two aggregates)".into(), desc.clone());
        }
        acc.case("batch_check-two-flattened", &shape, Some(fnv(desc.to_string().as_bytes())));
        match guard(|| keys.batch_check(LABEL_STATIC, &[(z1, f1.0, f1.1, a1.0), (z2, f2.0, f2.1, a2.0)], None).is_ok()) {
            Err(p) => acc.fail("aggregate", "aggregate/check-panics", p, desc),
            Ok(r) if r == truth => acc.outcome(if r { "aggregate:two-aggregates-all-true-pass" } else { "aggregate:two-aggregates-fail-as-expected" }),
            Ok(r) => {
                let sig = if r { "aggregate/accepts-false-evaluation" } else { "aggregate/rejects-true-evaluations" };
                acc.fail("aggregate", sig, format!("batch of two flattened aggregates with claim {}: check returned {}", cn, if r { "Ok" } else { "Err" }), desc);
            }
        }
    }
    acc
}

fn aggregate_for(ctx: &Ctx, tier: Tier) -> Acc {
    let mut acc = Acc::default();
    let d = ctx.d;
    let Ok(Ok(keys)) = guard(|| k::trim(&ctx.pp, d)) else {
        acc.machinery.push(format!("aggregate section: trim({}) failed", d));
        return acc;
    };
    let np = keys.powers().len();
    let cases = agg_cases(np, tier);
    for p in par_map(&cases, |ac| run_agg(ctx, &keys, ac, "")) {
        match p {
            Ok(a) => acc.merge(a),
            Err(e) => acc.machinery.push(format!("aggregate worker panicked: {}", e)),
        }
    }
    // flatten uses parallel iterators: a few cases inside real multi-thread pools
    for t in [4usize, 17] {
        let pool = rayon::ThreadPoolBuilder::new().num_threads(t).build().expect("pool");
        for ac in cases.iter().filter(|c| c.name.starts_with("a4@rho") || c.name.starts_with("c3@rho")) {
            let a = pool.install(|| run_agg(ctx, &keys, ac, &format!("/threads={}", t)));
            acc.merge(a);
        }
    }
    // two aggregated openings at z and z·omega_8, flattened and checked as one batch (the way the
    // PLONK verifier uses the scheme): honest => Ok; one false evaluation in either aggregate => Err
    acc.merge(two_aggregates(ctx, &keys, np));
    // empty aggregate: outside the statement ("several polynomials"), informational only
    let w = ctx.srs.g;
    match guard(|| k::flatten(w, &[], &one())) {
        Err(_) => acc.outcome("info:flatten(empty aggregate):panics"),
        Ok((c, e)) => acc.outcome(&format!("info:flatten(empty aggregate):returns(identity={}, eval_zero={})", is_id(&c), e == zero())),
    }
    match guard(|| k::aggregate_witness(&[], &one(), &one())) {
        Err(_) => acc.outcome("info:aggregate_witness(no polynomials):panics"),
        Ok(p) => acc.outcome(&format!("info:aggregate_witness(no polynomials):returns(len={})", p.len())),
    }
    acc
}

// ---------------------------------------------------------------------------
// driver
// ---------------------------------------------------------------------------

const KERNELS: [&str; 12] = [
    "setup", "setup-power-link", "trim", "commit", "commit-additivity", "commit-homogeneity", "open", "batch_check-single", "batch_check", "aggregate_witness",
    "flatten", "batch_check-flattened",
];
const CORRUPTIONS: [&str; 6] = ["wrong-evaluation", "wrong-witness", "swapped-commitments", "point-mismatch", "empty", "length-mismatch"];

pub fn main(tier: Tier, replay: Option<Value>) -> i32 {
    let mut run = Run::new("C20", tier, "model_checking");
    run.rule = "cases = (kernel, input) pairs executed on the real KZG code (PublicParameters::setup / to_var_bytes, verif::kernels trim / commit / batch_check / aggregate_witness / flatten) and compared with M4 (points parsed from the bytes, commitment as explicit Σ c_i·P_i, opening equation e(C − vG, H) = e(W, X_H − zH) by two pairings); batches: every single-position corruption of every base batch; states = distinct (kernel, degree/shape) configurations; non-trivial = distinct cases with a non-zero polynomial / non-identity result".into();
    let (only, target_sig) = match &replay {
        Some(r) => {
            run.set_replay_mode();
            (r["case"]["section"].as_str().map(|s| s.to_string()), r["signature"].as_str().map(|s| s.to_string()))
        }
        None => (None, None),
    };
    let want = |s: &str| only.as_deref().map_or(true, |o| o == s);
    let degrees: Vec<usize> = match tier {
        Tier::Quick => (1..=8).chain([24]).collect(),
        Tier::Thorough => (1..=24).collect(),
    };
    let mut acc = Acc::default();

    // setup(0) must be refused
    match setup_raw_zero() {
        Ok(true) => acc.outcome("srs:setup(0)-is-Err"),
        Ok(false) => acc.fail("srs", "srs/setup-zero-accepted", "PublicParameters::setup(0) returned Ok".into(), json!({"degree": 0})),
        Err(p) => acc.fail("srs", "srs/setup-zero-panics", p, json!({"degree": 0})),
    }

    // srs (always: the other sections need the parsed parameters)
    let mut ctxs: Vec<Arc<Ctx>> = vec![];
    for (d, r) in degrees.iter().zip(par_map(&degrees, |d| srs_for_degree(*d))) {
        match r {
            Ok((a, c)) => {
                if want("srs") {
                    acc.merge(a);
                }
                match c {
                    Some(c) => ctxs.push(Arc::new(c)),
                    None => {
                        if !want("srs") {
                            run.machinery(format!("setup({}) unusable", d));
                        }
                    }
                }
            }
            Err(e) => run.machinery(format!("srs worker for degree {} panicked: {}", d, e)),
        }
    }
    // large parameter sets (several thousand powers): point count, P_0 = g and EVERY
    // consecutive link by two pairings; generation in batches must not restart anywhere
    if want("srs") {
        let large: Vec<usize> = tier.pick(vec![8200], vec![4090, 8200, 12300, 16390]);
        run.bound("large_srs_degrees", json!(large));
        for d in large {
            let desc = json!({"kernel": "setup", "degree": d});
            match setup(d) {
                Err(e) => acc.fail("srs", "srs/setup-fails", format!("PublicParameters::setup({}) failed: {}", d, e), desc),
                Ok(pp) => {
                    let bytes = pp.to_var_bytes();
                    let Some(srs) = m4::parse_srs(&bytes) else {
                        acc.fail("srs", "srs/unparsable-bytes", format!("to_var_bytes of setup({}) does not decode into valid points", d), desc);
                        continue;
                    };
                    if srs.powers.len() != d + 7 || srs.powers[0] != srs.g {
                        acc.fail("srs", "srs/point-count", format!("setup({}) has {} points or P_0 != g", d, srs.powers.len()), desc.clone());
                    }
                    // commitments of long polynomials (multi-scalar multiplication switches its
                    // window / bucket sizes with the number of points) against the explicit sum
                    if d == 8200 && want("commit") {
                        match guard(|| k::trim(&pp, 8192)) {
                            Ok(Ok(keys)) => {
                                let points = keys.powers();
                                let lens: Vec<usize> = tier.pick(
                                    vec![31, 32, 33, 63, 64, 65, 127, 128, 129, 255, 256, 257, 1023, 1024, 1025, 4095, 4096, 4097],
                                    vec![15, 16, 17, 31, 32, 33, 47, 48, 63, 64, 65, 127, 128, 129, 255, 256, 257, 511, 512, 513, 1023, 1024, 1025, 2047, 2048, 2049, 4095, 4096, 4097, 8191, 8192, 8193, points.len()],
                                );
                                let mut jobs: Vec<(usize, &'static str)> = vec![];
                                for l in lens {
                                    if l <= points.len() {
                                        for pat in ["ones", "rho", "top-monomial", "small-ints"] {
                                            jobs.push((l, pat));
                                        }
                                    }
                                }
                                let pts = Arc::new(points);
                                let keys = Arc::new(keys);
                                for ((l, pat), r) in jobs.iter().zip(par_map(&jobs, |(l, pat)| {
                                    let c: Vec<Fe> = match *pat {
                                        "ones" => vec![one(); *l],
                                        "rho" => rho_vec(*l, 77),
                                        "top-monomial" => {
                                            let mut v = vec![zero(); *l];
                                            v[*l - 1] = one();
                                            v
                                        }
                                        _ => (0..*l).map(|i| fe((i % 7) as u64)).collect(),
                                    };
                                    let real = commit_real(&keys, &c);
                                    let exp = m4::affine(m4::commit(&pts, &m4::trim(&c)).expect("within"));
                                    (real, exp)
                                })) {
                                    let desc = json!({"kernel": "commit", "degree": d, "trim": 8192, "len": l, "pattern": pat});
                                    match r {
                                        Err(e) => run.machinery(format!("large commit worker panicked: {}", e)),
                                        Ok((Ok(Ok(cm)), exp)) => {
                                            acc.case("commit-large", &format!("len={}", l), Some(fnv(desc.to_string().as_bytes())));
                                            if cm != exp {
                                                acc.fail("commit", "commit/not-the-explicit-sum", format!("commit of {} coefficients ({}) differs from Σ c_i·P_i", l, pat), desc);
                                            } else {
                                                acc.outcome("commit:equals-explicit-sum");
                                            }
                                        }
                                        Ok((other, _)) => acc.fail("commit", "commit/refuses-within-degree", format!("commit of {} coefficients ({}) failed: {:?}", l, pat, other.map(|x| x.map(|_| ()))), desc),
                                    }
                                }
                            }
                            _ => run.machinery("large commit section: trim(8192) of setup(8200) failed".into()),
                        }
                    }
                    let idx: Vec<usize> = (0..srs.powers.len() - 1).collect();
                    let chunks: Vec<Vec<usize>> = idx.chunks(128).map(|c| c.to_vec()).collect();
                    let srs = Arc::new(srs);
                    for (ci, r) in par_map(&chunks, |c| c.iter().filter(|i| !m4::is_next_power(&srs.powers[**i + 1], &srs.powers[**i], &srs.h, &srs.x_h)).cloned().collect::<Vec<usize>>()).into_iter().enumerate() {
                        match r {
                            Err(e) => run.machinery(format!("large srs worker panicked: {}", e)),
                            Ok(bad) => {
                                for _ in 0..chunks[ci].len() - bad.len() {
                                    acc.outcome("srs:power-link-consistent");
                                }
                                acc.case("setup-power-link-large", &format!("d={}", d), Some(fnv(format!("largelink|{}|{}", d, ci).as_bytes())));
                                if let Some(i) = bad.first() {
                                    acc.fail("srs", "srs/inconsistent-powers", format!("setup({}): e(P_{}, h) != e(P_{}, x_h) ({} bad links in this block)", d, i + 1, i, bad.len()), json!({"kernel": "setup", "degree": d, "index": i}));
                                }
                            }
                        }
                    }
                }
            }
        }
    }
    eprintln!("[C20] srs done at {:.1}s", run.elapsed());
    if want("trim") {
        for p in par_map(&ctxs, |c| trim_for(c)) {
            match p {
                Ok(a) => acc.merge(a),
                Err(e) => run.machinery(format!("trim worker panicked: {}", e)),
            }
        }
        // absurd sizes (n + 6 overflows usize): outside "all trim sizes" of real circuits, informational
        if let Some(c) = ctxs.first() {
            for n in [usize::MAX, usize::MAX - 4, usize::MAX - 5] {
                let o = match guard(|| k::trim(&c.pp, n)) {
                    Err(_) => "panics(arithmetic overflow in this build profile)".to_string(),
                    Ok(Err(e)) => format!("Err({:?})", e),
                    Ok(Ok(kk)) => format!("Ok({} points)", kk.powers().len()),
                };
                acc.outcome(&format!("info:trim(usize::MAX-{}):{}", usize::MAX - n, o));
            }
        }
    }
    if want("commit") {
        let mut jobs: Vec<(Arc<Ctx>, usize)> = vec![];
        for c in &ctxs {
            let mut ts = vec![1usize.min(c.d), c.d];
            if c.d == 24 {
                ts.push(12);
            }
            ts.sort();
            ts.dedup();
            for t in ts {
                jobs.push((c.clone(), t));
            }
        }
        for p in par_map(&jobs, |(c, t)| commit_for(c, *t)) {
            match p {
                Ok(a) => acc.merge(a),
                Err(e) => run.machinery(format!("commit worker panicked: {}", e)),
            }
        }
        eprintln!("[C20] commit done at {:.1}s", run.elapsed());
    }
    let open_degrees: Vec<usize> = tier.pick(vec![3, 24], vec![1, 3, 8, 16, 24]);
    let pick = |ds: &[usize]| -> Vec<Arc<Ctx>> { ctxs.iter().filter(|c| ds.contains(&c.d)).cloned().collect() };
    if want("open") {
        for c in pick(&open_degrees) {
            acc.merge(open_for(&c));
        }
        eprintln!("[C20] open done at {:.1}s", run.elapsed());
    }
    if want("batch") {
        for c in pick(&tier.pick(vec![24], vec![4, 24])) {
            acc.merge(batch_for(&c));
        }
        eprintln!("[C20] batch done at {:.1}s", run.elapsed());
    }
    if want("aggregate") {
        for c in pick(&tier.pick(vec![24], vec![4, 24])) {
            acc.merge(aggregate_for(&c, tier));
        }
        eprintln!("[C20] aggregate done at {:.1}s", run.elapsed());
    }

    run.states = acc.shapes.len() as u64;
    run.transitions = acc.cases;
    run.traces_validated = acc.cases;
    run.evaluations = acc.cases;
    for h in &acc.hashes {
        run.nontrivial(*h);
    }
    for (kk, v) in &acc.outcomes {
        run.outcome_n(kk, *v);
    }
    for m in &acc.machinery {
        run.machinery(m.clone());
    }
    run.sample(json!({"degrees": degrees, "open_degrees": open_degrees}));
    if replay.is_some() {
        let mut hit = false;
        for f in &acc.fails {
            if Some(&f.sig) == target_sig.as_ref() {
                hit = true;
                println!("replay: signature {} reproduced: {}", f.sig, f.what);
                run.violation(&f.sig, &f.what, f.case.clone());
            }
        }
        if !hit {
            println!("replay: signature {:?} not reproduced", target_sig);
        }
        return run.finish();
    }
    for f in &acc.fails {
        run.violation(&f.sig, &f.what, f.case.clone());
    }
    for kn in KERNELS {
        run.gate(&format!(">=1 case for {}", kn), acc.kernels.get(kn).copied().unwrap_or(0) > 0);
    }
    for c in CORRUPTIONS {
        run.gate(&format!(">=1 batch failing as expected for corruption kind {}", c), acc.outcomes.get(&format!("batch:fails-as-expected:{}", c)).copied().unwrap_or(0) > 0);
    }
    run.gate(">=1 honest batch accepted", acc.outcomes.get("batch:honest:Ok").copied().unwrap_or(0) > 0);
    run.gate(">=1 aggregate failing as expected", acc.outcomes.get("aggregate:fails-as-expected:false-evaluation").copied().unwrap_or(0) > 0);
    run.gate(">=1 aggregate accepted", acc.outcomes.get("aggregate:all-true-passes").copied().unwrap_or(0) > 0);
    run.gate(">=1 single opening rejected for value+1", acc.outcomes.get("open:real-check/value+1:Err").copied().unwrap_or(0) > 0);
    run.gate(">=1 commit refused beyond the degree", acc.outcomes.get("commit:Err-beyond-degree").copied().unwrap_or(0) > 0);
    run.gate(">=1 trim refused beyond capacity", acc.outcomes.get("trim:Err-beyond-capacity").copied().unwrap_or(0) > 0);
    run.bound("srs_degrees", json!(degrees));
    run.bound("trim_sizes", json!("0..=d+3 for every degree d"));
    run.bound("commit_lengths", json!("0..=points+2 for trims {1, d} (and 12 for d=24)"));
    run.bound("batch_sizes", json!([1, 2, 3, 4]));
    run.bound("aggregate_sizes", json!([1, 2, 3, 4]));
    run.extra.insert("cases_per_kernel".into(), json!(acc.kernels));
    run.assumptions = vec![
        "M4 is the statement: points as PublicParameters::to_var_bytes encodes them, commitment = Σ c_i·P_i, opening equation by two independent pairing() calls; dusk_bls12_381 group/pairing arithmetic and point decoding are the trusted base".into(),
        "a batch / aggregate with a false entry passes the random-linear-combination check only with probability ~2^-250 over the transcript challenge; such collisions are assumed not to occur".into(),
        "aggregation challenge 0 (which hides evaluations at positions >= 1) and empty aggregates are outside the statement and recorded as informational outcomes".into(),
        "'long enough for every polynomial the prover commits to' = at least n + 7 points (degree n + 6: blinded wire / permutation / quotient-share polynomials)".into(),
    ];
    run.finish()
}

fn setup_raw_zero() -> Result<bool, String> {
    let mut rng = SeedRng(Rho::new(seed(), 2000));
    guard(|| PublicParameters::setup(0, &mut rng).is_err())
}
