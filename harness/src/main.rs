use vp::ev::Tier;

fn main() {
    let args: Vec<String> = std::env::args().collect();
    if args.len() < 3 {
        eprintln!("usage: vp <Cnn> <quick|thorough> [--replay <file>]");
        std::process::exit(2);
    }
    let id = args[1].as_str();
    let tier = match args[2].as_str() {
        "quick" => Tier::Quick,
        "thorough" => Tier::Thorough,
        t => {
            eprintln!("unknown tier {}", t);
            std::process::exit(2);
        }
    };
    let replay = if args.len() >= 5 && args[3] == "--replay" {
        let s = std::fs::read_to_string(&args[4]).expect("replay file");
        Some(serde_json::from_str::<serde_json::Value>(&s).expect("replay json"))
    } else {
        None
    };
    // glibc malloc: keep freed arena tops instead of trimming them back to the kernel
    // after every large free (16 workers re-faulting the same pages made some quick
    // tiers spend 4x more time in the kernel than in the check)
    #[cfg(all(target_os = "linux", target_env = "gnu"))]
    unsafe {
        extern "C" {
            fn mallopt(param: i32, value: i32) -> i32;
        }
        const M_TRIM_THRESHOLD: i32 = -1;
        const M_TOP_PAD: i32 = -2;
        mallopt(M_TOP_PAD, 256 << 20);
        mallopt(M_TRIM_THRESHOLD, i32::MAX);
    }
    vp::par::install_quiet_panic_hook();
    // resident-set watchdog: a check that outgrows the machine is a machinery
    // failure (exit 3), never a verdict and never an OOM kill of something else
    let cap_gb: u64 = std::env::var("VERIF_RSS_CAP_GB").ok().and_then(|v| v.parse().ok()).unwrap_or(40);
    std::thread::spawn(move || loop {
        std::thread::sleep(std::time::Duration::from_secs(2));
        if let Ok(statm) = std::fs::read_to_string("/proc/self/statm") {
            let pages: u64 = statm.split_whitespace().nth(1).and_then(|v| v.parse().ok()).unwrap_or(0);
            let gb = pages * 4096 / (1 << 30);
            if gb >= cap_gb {
                eprintln!("MACHINERY: resident set {} GB reached the cap of {} GB (VERIF_RSS_CAP_GB); aborting the check", gb, cap_gb);
                std::process::exit(3);
            }
        }
    });
    let code = match id {
        "C01" => vp::c01::main(tier, replay),
        "C02" => vp::c02::main(tier, replay),
        "C03" => vp::c03::main(tier, replay),
        "C04" => vp::c04::main(tier, replay),
        "C05" => vp::c05::main(tier, replay),
        "C06" => vp::c06::main(tier, replay),
        "C07" => vp::c07::main(tier, replay),
        "C08" => vp::c08::main(tier, replay),
        "C09" => vp::c09::main(tier, replay),
        "C10" => vp::c10::main(tier, replay),
        "C11" => vp::c11::main(tier, replay),
        "C12" => vp::c12::main(tier, replay),
        "C13" => vp::c13::main(tier, replay),
        "C14" => vp::c14::main(tier, replay),
        "C15" => vp::c15::main(tier, replay),
        "C16" => vp::c16::main(tier, replay),
        "C17" => vp::c17::main(tier, replay),
        "C18" => vp::c18::main(tier, replay),
        "C19" => vp::c19::main(tier, replay),
        "C20" => vp::c20::main(tier, replay),
        _ => {
            eprintln!("unknown property {}", id);
            2
        }
    };
    std::process::exit(code);
}
