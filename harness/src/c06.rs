//! C06 — zero-knowledge masking structure: RNG-script enumeration, real prover
//! vs M3 (byte equality) and vs the masking formulas stated from the witness
//! table (independent of M3's prover code).

use dusk_bls12_381::{G1Affine, G1Projective};
use dusk_bytes::Serializable;
use dusk_plonk::prelude::{Compiler, Proof, Prover, Verifier};
use serde_json::json;

use crate::c05::{family_assignment, merged_row, solve_pis, Fam};
use crate::ev::{Run, Tier};
use crate::fe::*;
use crate::m3::{self, Instance, ProofFields, ProverData, Version};
use crate::prog::Prog;
use crate::rng::Call;
use crate::rows::{self, Assign, Layout, Place};

const LABEL: &[u8] = b"c06";

// ---------------------------------------------------------------------------
// scripts
// ---------------------------------------------------------------------------

pub const DRAW_NAMES: [&str; 14] = ["a0", "a1", "b0", "b1", "c0", "c1", "d0", "d1", "z0", "z1", "z2", "t12", "t13", "t14"];

#[derive(Clone, Debug, PartialEq, Eq)]
pub enum Kind {
    Base,
    /// one draw differs from the base script
    Single(usize),
    /// every draw differs from the base script and from the other disjoint scripts
    Disjoint,
    /// a draw forced to zero
    Zero(usize),
    /// base draws; the RNG's fallible interface refuses n calls at this draw position
    Outage(usize),
}

#[derive(Clone, Debug)]
pub struct Script {
    pub name: String,
    pub draws: [Fe; 14],
    pub kind: Kind,
    /// entropy outages of `try_fill_bytes`: (draw position, refused calls)
    pub faults: Vec<(usize, usize)>,
}

pub fn scripts() -> Vec<Script> {
    let base = m3::base_draws(100);
    let mut rho = Rho::new(seed(), 6006);
    let mut out = vec![Script { name: "base".into(), draws: base, kind: Kind::Base, faults: vec![] }];
    for i in 0..14 {
        let mut r = rho.next_fe();
        while r == zero() || base.contains(&r) {
            r = rho.next_fe();
        }
        for (nm, v) in [("1", one()), ("-1", neg1()), ("rho", r)] {
            let mut d = base;
            d[i] = v;
            out.push(Script { name: format!("draw{}={}", i, nm), draws: d, kind: Kind::Single(i), faults: vec![] });
        }
    }
    for i in 0..14 {
        for j in i + 1..14 {
            let mut d = base;
            d[j] = base[i];
            out.push(Script { name: format!("eq{}-{}", i, j), draws: d, kind: Kind::Single(j), faults: vec![] });
        }
    }
    for k in 1..=2u64 {
        out.push(Script { name: format!("disjoint{}", k), draws: m3::base_draws(100 + k), kind: Kind::Disjoint, faults: vec![] });
    }
    // a draw that is zero: a degenerate top blinder may make the prover fail
    // (excused), but whenever a proof comes out it must have consumed exactly
    // the 14 draws and equal the reference prover's proof for those draws
    for i in 0..14 {
        let mut d = base;
        d[i] = zero();
        out.push(Script { name: format!("zero{}", i), draws: d, kind: Kind::Zero(i), faults: vec![] });
    }
    // both blinders of one polynomial zero (it is committed unmasked), and all 14
    for (i, j) in [(0usize, 1usize), (2, 3), (4, 5), (6, 7), (11, 12)] {
        let mut d = base;
        d[i] = zero();
        d[j] = zero();
        out.push(Script { name: format!("zero{}+{}", i, j), draws: d, kind: Kind::Zero(i), faults: vec![] });
    }
    out.push(Script { name: "zero-all".into(), draws: [zero(); 14], kind: Kind::Zero(0), faults: vec![] });
    // entropy outages: the RNG's fallible interface (`try_fill_bytes`) refuses 3 / 8 calls in
    // a row at one draw position while `fill_bytes` would have blocked and succeeded; the
    // prover must still consume exactly the 14 scripted draws (same proof as the base script)
    for i in 0..14 {
        for n in [3usize, 8] {
            out.push(Script { name: format!("outage{}x{}", i, n), draws: base, kind: Kind::Outage(i), faults: vec![(i, n)] });
        }
    }
    out
}

// ---------------------------------------------------------------------------
// circuits
// ---------------------------------------------------------------------------

/// PIs + custom gates (range, fixed-base) on 10 constraints, n = 16
fn custom16(variant: usize) -> Prog {
    let lay = Layout {
        rows: vec![
            merged_row(&[Fam::Range]),
            rows::RowSpec::zero(),
            merged_row(&[Fam::Fixed]),
            rows::RowSpec::zero(),
            merged_row(&[Fam::Arith]),
            merged_row(&[Fam::Arith]),
        ],
        share: vec![],
        place: Place::First,
    };
    let (r0, r1) = family_assignment(Fam::Range, 1 + variant);
    let (f0, f1) = family_assignment(Fam::Fixed, 1 + variant);
    let v = variant as u64;
    let mut a = Assign::new(vec![r0, r1, f0, f1, [fe(2 + v), fe(3), fe(5), fe(7)], [fe(11), fe(13 + v), fe(17), fe(19)]], vec![zero(); 6]);
    solve_pis(&lay, &mut a);
    rows::prog(&lay, &a)
}

pub struct Circ {
    pub name: &'static str,
    pub witnesses: Vec<Prog>,
    pub prover: Prover,
    pub verifier: Verifier,
    pub pd: ProverData,
}

fn circuits(tier: Tier) -> Result<Vec<Circ>, String> {
    let pp = crate::setup::pp(64);
    let mut specs: Vec<(&'static str, Vec<Prog>)> = vec![("arith", vec![m3::circuits::arith(3, 4), m3::circuits::arith(250, 77)])];
    if tier == Tier::Thorough {
        specs.push(("custom16", vec![custom16(0), custom16(1)]));
        specs.push(("mixed32", vec![m3::circuits::mixed(32, 0), m3::circuits::mixed(32, 1)]));
    } else {
        specs[0].1.truncate(1);
    }
    let mut out = Vec::new();
    for (name, witnesses) in specs {
        let (prover, verifier) = Compiler::compile_with_circuit(&pp, LABEL, &witnesses[0]).map_err(|e| format!("compile {}: {:?}", name, e))?;
        let pd = m3::parse_prover(&prover.to_bytes()).map_err(|e| format!("parse prover bytes of {}: {}", name, e))?;
        out.push(Circ { name, witnesses, prover, verifier, pd });
    }
    Ok(out)
}

// ---------------------------------------------------------------------------
// clause (c): the openings from the definition (no M3 prover code)
// ---------------------------------------------------------------------------

fn horner(p: &[Fe], x: Fe) -> Fe {
    let mut acc = zero();
    for c in p.iter().rev() {
        acc = acc * x + *c;
    }
    acc
}
/// L_i(x) = prod_{j != i} (x - w^j) / (w^i - w^j), by definition.
fn lagrange_at(pts: &[Fe], x: Fe) -> Vec<Fe> {
    let n = pts.len();
    (0..n)
        .map(|i| {
            let mut num = one();
            let mut den = one();
            for j in 0..n {
                if j != i {
                    num *= x - pts[j];
                    den *= pts[i] - pts[j];
                }
            }
            num * inv(den)
        })
        .collect()
}
/// Z_H(x) = prod_j (x - w^j), by definition.
fn vanishing_at(pts: &[Fe], x: Fe) -> Fe {
    let mut r = one();
    for p in pts {
        r *= x - *p;
    }
    r
}
fn interp_at(vals: &[Fe], lag: &[Fe]) -> Fe {
    let mut s = zero();
    for (v, l) in vals.iter().zip(lag) {
        s += *v * *l;
    }
    s
}

/// Expected value of each of the 15 openings: unmasked value + prescribed mask.
/// Returns (expected evaluations in proof order, unmasked values).
fn expected_openings(pd: &ProverData, inst: &Instance, draws: &[Fe; 14], ch: &m3::Challenges) -> ([Fe; 15], [Fe; 15]) {
    let n = pd.size;
    // the domain, stated directly: w = ROOT_OF_UNITY^(2^(32-k))
    let mut w = dusk_bls12_381::ROOT_OF_UNITY;
    for _ in n.trailing_zeros()..dusk_bls12_381::TWO_ADACITY {
        w = w * w;
    }
    let mut pts = Vec::with_capacity(n);
    let mut p = one();
    for _ in 0..n {
        pts.push(p);
        p *= w;
    }
    let z = ch.z;
    let zw = z * w;
    let lag_z = lagrange_at(&pts, z);
    let lag_zw = lagrange_at(&pts, zw);
    let zh_z = vanishing_at(&pts, z);
    let zh_zw = vanishing_at(&pts, zw);
    // wire columns from the witness table
    let mut cols: [Vec<Fe>; 4] = Default::default();
    for k in 0..4 {
        cols[k] = vec![zero(); n];
        for (i, row) in inst.wires.iter().enumerate() {
            cols[k][i] = row[k];
        }
    }
    // grand product from the definition; sigma values = the key's sigma
    // polynomials evaluated on the domain
    let ks = [fe(1), fe(7), fe(13), fe(17)];
    let mut zvec = vec![one(); n];
    for i in 0..n - 1 {
        let mut num = one();
        let mut den = one();
        for k in 0..4 {
            num *= cols[k][i] + ch.beta * ks[k] * pts[i] + ch.gamma;
            den *= cols[k][i] + ch.beta * horner(&pd.sigmas[k], pts[i]) + ch.gamma;
        }
        zvec[i + 1] = zvec[i] * num * inv(den);
    }
    let wire_mask = |k: usize, x: Fe, zh: Fe| (draws[2 * k] + draws[2 * k + 1] * x) * zh;
    let mut unmasked = [zero(); 15];
    let mut exp = [zero(); 15];
    for (e, k) in [(m3::E_A, 0usize), (m3::E_B, 1), (m3::E_C, 2), (m3::E_D, 3)] {
        unmasked[e] = interp_at(&cols[k], &lag_z);
        exp[e] = unmasked[e] + wire_mask(k, z, zh_z);
    }
    for (e, k) in [(m3::E_AW, 0usize), (m3::E_BW, 1), (m3::E_DW, 3)] {
        unmasked[e] = interp_at(&cols[k], &lag_zw);
        exp[e] = unmasked[e] + wire_mask(k, zw, zh_zw);
    }
    unmasked[m3::E_Z] = interp_at(&zvec, &lag_zw);
    exp[m3::E_Z] = unmasked[m3::E_Z] + (draws[8] + draws[9] * zw + draws[10] * zw * zw) * zh_zw;
    // key polynomials: no mask
    for (e, poly) in [
        (m3::E_QARITH, &pd.selectors[6]),
        (m3::E_QC, &pd.selectors[5]),
        (m3::E_QL, &pd.selectors[1]),
        (m3::E_QR, &pd.selectors[2]),
        (m3::E_S1, &pd.sigmas[0]),
        (m3::E_S2, &pd.sigmas[1]),
        (m3::E_S3, &pd.sigmas[2]),
    ] {
        unmasked[e] = horner(poly, z);
        exp[e] = unmasked[e];
    }
    (exp, unmasked)
}

// ---------------------------------------------------------------------------
// one case = (circuit, witness, script)
// ---------------------------------------------------------------------------

#[derive(Clone, Debug)]
pub struct CaseOut {
    pub real: Result<Vec<u8>, String>,
    pub calls: Vec<Call>,
    pub verified: Option<Result<(), String>>,
    pub m3: Result<Vec<u8>, String>,
    pub fields: Option<ProofFields>,
    /// names of openings that differ from unmasked + mask; number evaluated
    pub bad_openings: Vec<String>,
    pub openings_checked: usize,
    /// number of masked openings whose mask term was non-zero
    pub masks_nonzero: usize,
}

fn run_case(c: &Circ, wi: usize, s: &Script) -> CaseOut {
    // own clone: the snapshot cell inside a Prog must not be shared by workers
    let prog = &c.witnesses[wi].with_overrides(vec![]);
    let (real, pis, calls) = match m3::real_prove_faulty(&c.prover, prog, &s.draws, Version::V3, &s.faults) {
        Ok((b, p, calls)) => (Ok(b), p, calls),
        Err(e) => (Err(e), vec![], vec![]),
    };
    // the RNG log is wanted even when the prover fails: prove again to collect it
    let calls = if real.is_err() {
        let mut rng = crate::rng::ScriptedRng::new(s.draws.to_vec());
        rng.faults = s.faults.clone();
        let _ = c.prover.prove(&mut rng, prog);
        rng.calls
    } else {
        calls
    };
    let snap = prog.last_snapshot().expect("snapshot of the proving run");
    let inst = Instance::from_snapshot(&snap);
    let m3r = m3::prove(&c.pd, &inst, &s.draws, Version::V3, &m3::Adversary::default()).map(|(b, _)| b);
    let mut out = CaseOut { real: real.clone(), calls, verified: None, m3: m3r, fields: None, bad_openings: vec![], openings_checked: 0, masks_nonzero: 0 };
    if let Ok(bytes) = &real {
        let arr: [u8; 1008] = bytes.clone().try_into().expect("1008 proof bytes");
        let proof = <Proof as Serializable<1008>>::from_bytes(&arr).expect("own proof decodes");
        out.verified = Some(c.verifier.verify(&proof, &pis).map_err(|e| format!("{:?}", e)));
        let fields = m3::decode_proof(bytes).expect("proof fields decode");
        // challenges re-derived verifier-style from the REAL proof bytes
        let ch = m3::challenges_from_proof(&c.pd, &fields, &pis, Version::V3);
        let (exp, unmasked) = expected_openings(&c.pd, &inst, &s.draws, &ch);
        for e in 0..15 {
            out.openings_checked += 1;
            if fields.evals[e] != exp[e] {
                out.bad_openings.push(m3::EVAL_NAMES[e].to_string());
            }
        }
        for e in [m3::E_A, m3::E_B, m3::E_C, m3::E_D, m3::E_AW, m3::E_BW, m3::E_DW, m3::E_Z] {
            if exp[e] != unmasked[e] {
                out.masks_nonzero += 1;
            }
        }
        out.fields = Some(fields);
    }
    out
}

// ---------------------------------------------------------------------------
// clause (d): what a change of draw i may and must touch
// ---------------------------------------------------------------------------

/// Field index: 0..11 commitments (proof order), 11..26 evaluations.
fn field_name(k: usize) -> &'static str {
    if k < 11 {
        m3::COMM_NAMES[k]
    } else {
        m3::EVAL_NAMES[k - 11]
    }
}
fn field_eq(a: &ProofFields, b: &ProofFields, k: usize) -> bool {
    if k < 11 {
        a.comms[k] == b.comms[k]
    } else {
        a.evals[k - 11] == b.evals[k - 11]
    }
}
/// Commitments that must stay untouched when only draw i changes.
fn untouched(i: usize) -> Vec<usize> {
    match i {
        0..=7 => (0..4).filter(|k| *k != i / 2).collect(),
        8..=10 => vec![m3::C_A, m3::C_B, m3::C_C, m3::C_D],
        11 => vec![m3::C_A, m3::C_B, m3::C_C, m3::C_D, m3::C_Z, m3::C_THIGH, m3::C_TFOURTH],
        12 => vec![m3::C_A, m3::C_B, m3::C_C, m3::C_D, m3::C_Z, m3::C_TLOW, m3::C_TFOURTH],
        13 => vec![m3::C_A, m3::C_B, m3::C_C, m3::C_D, m3::C_Z, m3::C_TLOW, m3::C_TMID],
        _ => unreachable!(),
    }
}
/// Exact commitment differences prescribed by the mask: (field, point index of
/// the +delta term, point index of the -delta term or none).
fn prescribed_deltas(i: usize, n: usize) -> Vec<(usize, Option<usize>, Option<usize>)> {
    match i {
        0..=7 => vec![(i / 2, Some(n + i % 2), Some(i % 2))],
        8..=10 => vec![(m3::C_Z, Some(n + (i - 8)), Some(i - 8))],
        // t_k gets +b X^n, t_(k+1) gets -b
        11..=13 => vec![(m3::C_TLOW + (i - 11), Some(n), None), (m3::C_TLOW + (i - 10), None, Some(0))],
        _ => unreachable!(),
    }
}
/// Evaluations of constant key polynomials are the same at every point.
fn exempt_evals(pd: &ProverData) -> Vec<usize> {
    let mut v = vec![];
    for (e, poly) in [(m3::E_QARITH, &pd.selectors[6]), (m3::E_QC, &pd.selectors[5]), (m3::E_QL, &pd.selectors[1]), (m3::E_QR, &pd.selectors[2])] {
        if m3::ptrim(poly).len() <= 1 {
            v.push(11 + e);
        }
    }
    v
}

struct Finding {
    clause: &'static str,
    what: String,
}

/// All clauses for one case (the base case of the same circuit/witness given).
fn judge(c: &Circ, s: &Script, base_draws: &[Fe; 14], o: &CaseOut, base: &CaseOut, disjoint: &[(&Script, &CaseOut)], clauses: &mut u64) -> Vec<Finding> {
    let mut f = Vec::new();
    // (a) RNG consumption
    *clauses += 1;
    if !draws_are_14(&o.calls) {
        f.push(Finding { clause: "clause-a", what: format!("RNG calls {:?}, expected exactly 14 successful 64-byte draws and nothing else", summarize_calls(&o.calls)) });
    }
    let bytes = match &o.real {
        Ok(b) => b,
        Err(e) => {
            f.push(Finding { clause: "prove", what: format!("real prover failed on a satisfied instance with non-zero draws: {}", e) });
            return f;
        }
    };
    // verification
    *clauses += 1;
    if let Some(Err(e)) = &o.verified {
        f.push(Finding { clause: "verify", what: format!("real proof rejected by the verifier: {}", e) });
    }
    // (b) byte equality with M3
    *clauses += 1;
    match &o.m3 {
        Ok(m) if m == bytes => {}
        Ok(m) => {
            let diff: Vec<&str> = (0..26)
                .filter(|k| {
                    let (off, l) = if *k < 11 { (k * 48, 48) } else { (528 + (k - 11) * 32, 32) };
                    m[off..off + l] != bytes[off..off + l]
                })
                .map(field_name)
                .collect();
            f.push(Finding { clause: "clause-b", what: format!("proof bytes differ from M3 in fields {:?}", diff) });
        }
        Err(e) => f.push(Finding { clause: "clause-b", what: format!("M3 failed: {}", e) }),
    }
    // (c) openings = unmasked + mask
    *clauses += 1;
    if !o.bad_openings.is_empty() {
        f.push(Finding { clause: "clause-c", what: format!("openings differ from unmasked value + prescribed mask: {:?}", o.bad_openings) });
    }
    let fields = o.fields.as_ref().expect("fields of a produced proof");
    // (d) differential against the base script
    if let (Kind::Single(i), Some(bf)) = (&s.kind, base.fields.as_ref()) {
        let i = *i;
        *clauses += 1;
        let keep = untouched(i);
        let exempt = exempt_evals(&c.pd);
        let mut wrong_changed = vec![];
        let mut wrong_same = vec![];
        for k in 0..26 {
            let same = field_eq(fields, bf, k);
            if keep.contains(&k) {
                if !same {
                    wrong_changed.push(field_name(k));
                }
            } else if same && !exempt.contains(&k) {
                wrong_same.push(field_name(k));
            }
        }
        if !wrong_changed.is_empty() || !wrong_same.is_empty() {
            f.push(Finding {
                clause: "clause-d",
                what: format!("changing draw {} ({}): fields that must stay but changed {:?}; fields that must change but stayed {:?}", i, DRAW_NAMES[i], wrong_changed, wrong_same),
            });
        }
        // exact commitment difference = delta * (P_hi - P_lo)
        *clauses += 1;
        let delta = s.draws[i] - base_draws[i];
        let mut bad = vec![];
        for (k, hi, lo) in prescribed_deltas(i, c.pd.size) {
            let mut want = G1Projective::from(bf.comms[k]);
            if let Some(h) = hi {
                want += G1Projective::from(c.pd.commit_key[h]) * delta;
            }
            if let Some(l) = lo {
                want -= G1Projective::from(c.pd.commit_key[l]) * delta;
            }
            if G1Affine::from(want) != fields.comms[k] {
                bad.push(field_name(k));
            }
        }
        if !bad.is_empty() {
            f.push(Finding { clause: "clause-d-delta", what: format!("changing draw {} ({}) by delta: commitments {:?} did not move by delta*(P_(n+k) - P_k)", i, DRAW_NAMES[i], bad) });
        }
    }
    // (e) disjoint scripts share nothing
    if s.kind == Kind::Disjoint || s.kind == Kind::Base {
        let exempt = exempt_evals(&c.pd);
        for (os, oo) in disjoint {
            if os.name >= s.name {
                continue;
            }
            let Some(of) = oo.fields.as_ref() else { continue };
            *clauses += 1;
            let mut shared = vec![];
            for a in 0..11 {
                for b in 0..11 {
                    if fields.comms[a] == of.comms[b] {
                        shared.push(format!("{}={}", m3::COMM_NAMES[a], m3::COMM_NAMES[b]));
                    }
                }
            }
            for a in 0..15 {
                for b in 0..15 {
                    if exempt.contains(&(11 + a)) || exempt.contains(&(11 + b)) {
                        continue;
                    }
                    if fields.evals[a] == of.evals[b] {
                        shared.push(format!("{}={}", m3::EVAL_NAMES[a], m3::EVAL_NAMES[b]));
                    }
                }
            }
            if !shared.is_empty() {
                f.push(Finding { clause: "clause-e", what: format!("proofs under disjoint scripts {} and {} share {:?}", s.name, os.name, shared) });
            }
        }
    }
    // within one proof no two commitments and no two masked openings coincide
    *clauses += 1;
    let mut dup = vec![];
    for a in 0..11 {
        for b in a + 1..11 {
            if fields.comms[a] == fields.comms[b] {
                dup.push(format!("{}={}", m3::COMM_NAMES[a], m3::COMM_NAMES[b]));
            }
        }
    }
    if !dup.is_empty() {
        f.push(Finding { clause: "clause-e-within", what: format!("one proof repeats a commitment: {:?}", dup) });
    }
    f
}

/// Exactly 14 successful 64-byte draws (through `fill_bytes` or a successful
/// `try_fill_bytes`) and no other call; refused `try_fill_bytes` calls are the
/// environment's doing and do not count.
fn draws_are_14(calls: &[Call]) -> bool {
    let ok: Vec<&Call> = calls.iter().filter(|c| !matches!(c, Call::TryFillErr(_))).collect();
    ok.len() == 14 && ok.iter().all(|c| matches!(c, Call::FillBytes(64) | Call::TryFill(64)))
}

fn summarize_calls(calls: &[Call]) -> String {
    let fills = calls.iter().filter(|c| matches!(c, Call::FillBytes(64))).count();
    let other: Vec<&Call> = calls.iter().filter(|c| !matches!(c, Call::FillBytes(64))).take(4).collect();
    format!("{} calls: {} x fill_bytes(64), others {:?}", calls.len(), fills, other)
}

fn case_json(c: &Circ, wi: usize, s: &Script) -> serde_json::Value {
    json!({"circuit": c.name, "witness": wi, "script": s.name, "draws": s.draws.iter().map(hex).collect::<Vec<_>>()})
}

pub fn main(tier: Tier, replay: Option<serde_json::Value>) -> i32 {
    let mut run = Run::new("C06", tier, "model_checking");
    run.rule = "cases = circuits x witnesses x RNG scripts (base; each of the 14 draws replaced by 1, -1, rho; every pair of draws forced equal; two fully disjoint scripts; each of the 14 draws replaced by zero: draw count and equality with M3 whenever a proof is produced; entropy outages of the RNG's fallible interface at every draw position: same proof as without the outage); every case runs the real prover under the scripted RNG, the reference prover M3 on the parsed keys, and the masking formulas from the witness table; non-trivial = distinct (circuit, witness, script) whose real proof was produced and judged".into();
    let circs = match circuits(tier) {
        Ok(c) => c,
        Err(e) => {
            run.machinery(e);
            return run.finish();
        }
    };
    let scr = scripts();
    let mandatory = scr.iter().filter(|s| !matches!(s.kind, Kind::Zero(_) | Kind::Outage(_)) && s.kind != Kind::Disjoint).count();
    run.bound("scripts_mandatory", json!(mandatory));
    run.bound("scripts_total", json!(scr.len()));
    run.bound("circuits", json!(circs.iter().map(|c| format!("{} (n={}, constraints={}, witnesses={})", c.name, c.pd.size, c.pd.constraints, c.witnesses.len())).collect::<Vec<_>>()));

    // case list
    let mut cases: Vec<(usize, usize, usize)> = Vec::new();
    for (ci, c) in circs.iter().enumerate() {
        for wi in 0..c.witnesses.len() {
            for si in 0..scr.len() {
                cases.push((ci, wi, si));
            }
        }
    }
    if let Some(r) = &replay {
        run.set_replay_mode();
        let (cn, wi, sn) = (r["case"]["circuit"].as_str().unwrap_or(""), r["case"]["witness"].as_u64().unwrap_or(0) as usize, r["case"]["script"].as_str().unwrap_or(""));
        let Some(ci) = circs.iter().position(|c| c.name == cn) else {
            run.machinery(format!("replay circuit {} not built in tier {} (use thorough)", cn, tier.name()));
            return run.finish();
        };
        cases.retain(|(c, w, s)| *c == ci && *w == wi && (scr[*s].name == sn || scr[*s].kind == Kind::Base || scr[*s].kind == Kind::Disjoint));
        if !cases.iter().any(|(_, _, s)| scr[*s].name == sn) {
            run.machinery(format!("replay script {} not in enumeration", sn));
            return run.finish();
        }
    }

    let outs = crate::par::par_map(&cases, |(ci, wi, si)| {
        run_case(&circs[*ci], *wi, &scr[*si])
    });
    let mut results: Vec<Option<CaseOut>> = Vec::new();
    for ((ci, wi, si), o) in cases.iter().zip(outs) {
        match o {
            Ok(o) => results.push(Some(o)),
            Err(p) => {
                run.machinery(format!("harness panic in case {}/{}/{}: {}", circs[*ci].name, wi, scr[*si].name, p));
                results.push(None);
            }
        }
    }
    let find = |ci: usize, wi: usize, pred: &dyn Fn(&Script) -> bool| -> Vec<(usize, &CaseOut)> {
        cases
            .iter()
            .zip(results.iter())
            .filter(|((c, w, s), r)| *c == ci && *w == wi && pred(&scr[*s]) && r.is_some())
            .map(|((_, _, s), r)| (*s, r.as_ref().unwrap()))
            .collect()
    };

    let replay_script: Option<String> = replay.as_ref().map(|r| r["case"]["script"].as_str().unwrap_or("").to_string());
    let mut clauses = 0u64;
    let mut draw_changed = [0u64; 14];
    let mut draw_judged = [0u64; 14];
    let mut min_openings = usize::MAX;
    let mut min_masks = usize::MAX;
    let mut reported: std::collections::HashMap<String, u32> = std::collections::HashMap::new();
    let mut per_circuit_compared: std::collections::BTreeMap<&str, u64> = Default::default();
    for ((ci, wi, si), res) in cases.iter().zip(results.iter()) {
        let Some(o) = res else { continue };
        let (c, s) = (&circs[*ci], &scr[*si]);
        run.states += 1;
        run.evaluations += 1;
        let base = find(*ci, *wi, &|s| s.kind == Kind::Base);
        let Some((_, base)) = base.first().copied() else {
            run.machinery(format!("no base case for {}/{}", c.name, wi));
            continue;
        };
        if let Some(t) = &replay_script {
            // base / disjoint cases only serve as references in replay mode
            if &s.name != t {
                continue;
            }
        }
        if let Kind::Outage(i) = s.kind {
            clauses += 2;
            run.traces_validated += 1;
            run.nontrivial(fnv(format!("{}|{}|{}", c.name, wi, s.name).as_bytes()));
            let refused = o.calls.iter().filter(|c| matches!(c, Call::TryFillErr(_))).count();
            run.outcome(if refused == 0 { "outage:fallible-interface-not-used" } else { "outage:refusals-seen" });
            let problem = match (&o.real, &base.real) {
                (Err(e), _) => Some(format!("prover failed: {}", e)),
                (Ok(_), _) if !draws_are_14(&o.calls) => Some(format!("RNG calls {}, expected exactly 14 successful 64-byte draws", summarize_calls(&o.calls))),
                (Ok(a), Ok(b)) if a != b => Some("the proof differs from the proof for the same 14 draws without the outage (a masking scalar did not come from its draw)".to_string()),
                _ => None,
            };
            match problem {
                None => run.outcome("outage:same-proof-as-base"),
                Some(what) => {
                    run.outcome("outage:fail");
                    let key = format!("outage/circuit={}", c.name);
                    let cnt = reported.entry(key.clone()).or_insert(0);
                    if *cnt < 3 || replay.is_some() {
                        *cnt += 1;
                        run.violation(&format!("{}/draw={}", key, DRAW_NAMES[i]), &format!("{} witness {} script {}: {}", c.name, wi, s.name, what), case_json(c, *wi, s));
                    }
                }
            }
            continue;
        }
        if let Kind::Zero(i) = s.kind {
            // informational only
            let outcome = match (&o.real, &o.verified) {
                (Err(_), _) => "prover-error",
                (Ok(_), Some(Ok(()))) => "proof-verifies",
                (Ok(_), _) => "proof-invalid",
            };
            let eq = match (&o.real, &o.m3) {
                (Ok(a), Ok(b)) if a == b => "m3-equal",
                (Ok(_), Ok(_)) => "m3-differs",
                _ => "m3-n/a",
            };
            run.outcome(&format!("info:zero-{}:{}:{}", DRAW_NAMES[i], outcome, eq));
            if o.real.is_ok() {
                clauses += 2;
                run.traces_validated += 1;
                run.nontrivial(fnv(format!("{}|{}|{}", c.name, wi, s.name).as_bytes()));
                if !draws_are_14(&o.calls) {
                    run.outcome("clause-a:fail");
                    run.violation(&format!("clause-a/calls/circuit={}/script={}", c.name, s.name), &format!("{} witness {} script {}: RNG calls {}, expected 14 x fill_bytes(64) (a zero draw is a draw like any other)", c.name, wi, s.name, summarize_calls(&o.calls)), case_json(c, *wi, s));
                } else if eq == "m3-differs" {
                    run.outcome("m3-equality:fail");
                    run.violation(&format!("zero-draw-m3-differs/circuit={}/script={}", c.name, s.name), &format!("{} witness {} script {}: the proof differs from the reference prover's proof for the same 14 draws", c.name, wi, s.name), case_json(c, *wi, s));
                }
            }
            continue;
        }
        let dis_owned = find(*ci, *wi, &|s| s.kind == Kind::Disjoint || s.kind == Kind::Base);
        let dis: Vec<(&Script, &CaseOut)> = dis_owned.iter().map(|(si, o)| (&scr[*si], *o)).collect();
        let findings = judge(c, s, &scr[0].draws, o, base, &dis, &mut clauses);
        if o.real.is_ok() {
            run.traces_validated += 1;
            *per_circuit_compared.entry(c.name).or_insert(0) += 1;
            run.nontrivial(fnv(format!("{}|{}|{}", c.name, wi, s.name).as_bytes()));
            min_openings = min_openings.min(o.openings_checked);
            min_masks = min_masks.min(o.masks_nonzero);
            if let (Kind::Single(i), Ok(b), Ok(bb)) = (&s.kind, &o.real, &base.real) {
                draw_judged[*i] += 1;
                if b != bb {
                    draw_changed[*i] += 1;
                }
            }
        }
        run.outcome(if findings.is_empty() { "case:ok" } else { "case:findings" });
        if run.samples.len() < 6 && *si % 29 == 0 {
            run.sample(json!({"circuit": c.name, "witness": wi, "script": s.name, "openings_checked": o.openings_checked, "rng_calls": o.calls.len(), "m3_equal": o.m3.as_ref().ok() == o.real.as_ref().ok()}));
        }
        for fd in findings {
            run.outcome(&format!("{}:fail", fd.clause));
            // coarse, stable signatures: at most three scripts per (clause, circuit)
            let key = format!("{}/circuit={}", fd.clause, c.name);
            let cnt = reported.entry(key.clone()).or_insert(0);
            if *cnt >= 3 && replay.is_none() {
                continue;
            }
            *cnt += 1;
            let sig = if fd.clause == "clause-a" { format!("clause-a/calls/circuit={}/script={}", c.name, s.name) } else { format!("{}/script={}", key, s.name) };
            run.violation(&sig, &format!("{} witness {} script {}: {}", c.name, wi, s.name, fd.what), case_json(c, *wi, s));
        }
    }
    run.transitions = clauses;
    if replay.is_some() {
        println!("replay: {} cases re-judged, {} violations", run.states, run.violations);
        return run.finish();
    }
    if tier == Tier::Thorough {
        // byte equality real prover = M3 on six more circuits (range gadget,
        // logic rows, component_add_point, all-widget circuits of n = 32 and
        // n = 64), under V3 and the V2 legacy transcript seeding
        run.transitions += 1;
        match m3::selftest() {
            Ok(()) => {
                run.outcome("m3-selftest:ok");
                run.traces_validated += 12;
            }
            Err(e) => run.violation("clause-b/m3-selftest", &format!("real prover and M3 disagree: {}", e), json!({"circuit": "arith", "witness": 0, "script": "base", "selftest": e})),
        }
    }
    for i in 0..14 {
        // vacuity: the differential was exercised for every draw index ...
        run.gate(&format!("draw {} ({}) had >=1 judged script that changes it", i, DRAW_NAMES[i]), draw_judged[i] > 0);
        // ... and a draw whose change never changes the proof is not masking anything
        if draw_judged[i] > 0 && draw_changed[i] == 0 {
            run.violation(
                &format!("clause-d/draw-without-effect/draw={}", i),
                &format!("none of the {} scripts that change draw {} ({}) changed the proof: the scalar is drawn but not used", draw_judged[i], i, DRAW_NAMES[i]),
                json!({"circuit": circs[0].name, "witness": 0, "script": format!("draw{}=rho", i)}),
            );
        }
    }
    run.gate("clause (c) evaluated >= 15 openings per proof", min_openings != usize::MAX && min_openings >= 15);
    run.gate("all 8 masked openings carry a non-zero mask in every proof", min_masks != usize::MAX && min_masks == 8);
    for c in &circs {
        run.gate(&format!(">=1 real proof of {} compared with M3", c.name), per_circuit_compared.get(c.name).copied().unwrap_or(0) > 0);
    }
    run.gate(">= 134 mandatory scripts", mandatory >= 134);
    run.extra.insert("draw_change_changed_proof".into(), json!(DRAW_NAMES.iter().zip(draw_changed.iter()).map(|(n, c)| (n.to_string(), *c)).collect::<std::collections::BTreeMap<_, _>>()));
    run.extra.insert("min_openings_checked_per_proof".into(), json!(if min_openings == usize::MAX { 0 } else { min_openings }));
    run.extra.insert(
        "clause_d_prediction".into(),
        json!({
            "draws 0..7 (wire k = i/2)": "wire commitment k moves by delta*(P_(n+e) - P_e), e = i%2; the other three wire commitments stay; everything else changes",
            "draws 8..10": "a..d commitments stay; z_comm moves by delta*(P_(n+e) - P_e), e = i-8; everything after changes",
            "draw 11 (b12)": "t_low += delta*P_n, t_mid -= delta*P_0; a..d, z, t_high, t_fourth commitments stay; evaluations and W change",
            "draw 12 (b13)": "t_mid += delta*P_n, t_high -= delta*P_0; a..d, z, t_low, t_fourth stay",
            "draw 13 (b14)": "t_high += delta*P_n, t_fourth -= delta*P_0; a..d, z, t_low, t_mid stay",
            "exempt": "evaluations of constant key polynomials (q_* with <= 1 coefficient)",
        }),
    );
    run.assumptions = vec![
        "M3 (naive reference prover on the parsed keys) is the statement of the honest proving algorithm".into(),
        "challenges for clause (c) are re-derived verifier-style from the REAL proof bytes with M3's literal transcript table (m3::challenges_from_proof); M2 was not available when this check was built".into(),
        "sigma values and selector/sigma openings are taken from the polynomials the real prover key states (correctness of preprocessing is C01/C03/C05)".into(),
        "hash collisions / accidental equality of independent field elements (prob ~2^-250) do not occur".into(),
        "zero draws are informational only: a zero top blinder is the excused degenerate case".into(),
        "this decides the masking structure; statistical zero-knowledge is not re-proved".into(),
    ];
    if replay.is_none() {
        crate::c06_large::large_domain(&mut run, tier);
    }
    run.finish()
}
