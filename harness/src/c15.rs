//! C15 — compressed circuit descriptions compile to the identical keys.

use dusk_plonk::prelude::*;
use serde_json::json;

use crate::c01::{sized, Shape};
use crate::c05::Fam;
use crate::c17::alloc::measure_capped;
use crate::c17::mp::{self, Announce, Desc};
use crate::e1;
use crate::ev::{Run, Tier};
use crate::fe::*;
use crate::prog::Prog;

pub struct Item {
    pub name: String,
    pub prog: Prog,
}

/// A circuit whose description carries more than 65 535 distinct selector scalars (11 000
/// rows x 6 fresh coefficients): every length-prefixed vector of the description crosses
/// the 16-bit boundary of its MessagePack header.
pub fn big_description_circuit() -> Item {
    Item {
        name: "named/description-beyond-65535-scalars".into(),
        prog: Prog::new(|c| {
            for i in 0..11_000u64 {
                let k = 1_000_000 + 8 * i;
                let mut q = [zero(); 11];
                q[crate::m1::QM] = fe(k);
                q[crate::m1::QL] = fe(k + 1);
                q[crate::m1::QR] = fe(k + 2);
                q[crate::m1::QO] = fe(k + 3);
                q[crate::m1::QF] = fe(k + 4);
                q[crate::m1::QC] = -fe(k + 1);
                q[crate::m1::QARITH] = one();
                // a = 1, b = c = d = 0: q_l + q_c = 0
                c.verif_raw_gate(q, None, [Composer::ONE, Composer::ZERO, Composer::ZERO, Composer::ZERO]);
            }
            Ok(())
        }),
    }
}

pub fn named_circuits() -> Vec<Item> {
    let mut v = vec![];
    let mut push = |name: &str, p: Prog| v.push(Item { name: format!("named/{}", name), prog: p });
    push(
        "unused-witnesses",
        Prog::new(|c| {
            for i in 0..5 {
                c.append_witness(fe(100 + i));
            }
            let a = c.append_witness(fe(7));
            c.append_witness(fe(8));
            c.assert_equal_constant(a, fe(7), None);
            c.append_witness(fe(9));
            Ok(())
        }),
    );
    push(
        "repeated-selector-tuples",
        Prog::new(|c| {
            for i in 0..6u64 {
                let a = c.append_witness(fe(i));
                let b = c.append_witness(fe(2 * i));
                c.gate_add(Constraint::new().left(1).right(1).a(a).b(b));
            }
            Ok(())
        }),
    );
    push(
        "distinct-selector-tuples",
        Prog::new(|c| {
            for i in 0..6u64 {
                let a = c.append_witness(fe(i));
                let b = c.append_witness(fe(3));
                c.gate_add(Constraint::new().left(fe(10 + i)).right(fe(20 + i)).constant(fe(30 + i)).a(a).b(b));
            }
            Ok(())
        }),
    );
    push(
        "selectors-equal-builtin-constants",
        Prog::new(|c| {
            // 0, 1, -1 are the built-in table entries
            let a = c.append_witness(fe(5));
            let b = c.append_witness(fe(6));
            c.gate_add(Constraint::new().left(1).right(-BlsScalar::one()).a(a).b(b));
            c.gate_add(Constraint::new().left(-BlsScalar::one()).right(1).constant(0).a(a).b(b));
            c.gate_mul(Constraint::new().mult(1).a(a).b(b));
            Ok(())
        }),
    );
    // selectors equal to entries of the built-in dictionary that the compressor
    // shares with the decompressor: the Hades MDS matrix is the Cauchy matrix
    // 1/(i+j+5), so its 25 entries hold only 9 distinct values 1/5 .. 1/13
    push(
        "selectors-equal-hades-mds-entries",
        Prog::new(|c| {
            let a = c.append_witness(fe(3));
            let b = c.append_witness(fe(4));
            for i in 0..5u64 {
                for j in 0..5u64 {
                    let m = inv(fe(i + j + 5));
                    // every entry on a different selector position
                    let s = match (i + j) % 3 {
                        0 => Constraint::new().left(m).right(1),
                        1 => Constraint::new().left(1).right(m),
                        _ => Constraint::new().left(1).right(1).constant(m),
                    };
                    c.gate_add(s.a(a).b(b));
                }
            }
            Ok(())
        }),
    );
    push(
        "selectors-small-rationals-and-powers",
        Prog::new(|c| {
            // values likely to sit in (or next to) any built-in constant table
            let a = c.append_witness(fe(3));
            let b = c.append_witness(fe(4));
            for k in 2..=16u64 {
                c.gate_add(Constraint::new().left(inv(fe(k))).right(-inv(fe(k))).constant(fe(k)).a(a).b(b));
            }
            for k in [2usize, 8, 64, 128, 254] {
                c.gate_add(Constraint::new().left(pow2(k)).right(pow2(k) - one()).a(a).b(b));
            }
            Ok(())
        }),
    );
    // rows sharing ONE selector tuple with every pattern of public inputs over three
    // consecutive uses (none / non-zero / zero-valued), for three tuples that occur
    // nowhere else in the circuit (the description stores each tuple once)
    for (ti, tuple) in [(1i64, 1i64, 0i64), (2, 0, 1), (0, 3, -1)].into_iter().enumerate() {
        for pat in 0..27usize {
            let modes = [pat % 3, (pat / 3) % 3, pat / 9];
            let name = format!("pi-pattern/tuple{}/{}", ti, modes.iter().map(|m| ["-", "P", "0"][*m]).collect::<String>());
            push(
                &name,
                Prog::new(move |c| {
                    let a = c.append_witness(fe(3));
                    let b = c.append_witness(fe(4));
                    for m in modes {
                        let base = Constraint::new().left(fi(tuple.0 + 10)).right(fi(tuple.1 + 20)).mult(fi(tuple.2)).a(a).b(b);
                        let k = match m {
                            0 => base,
                            1 => base.public(fe(77)),
                            _ => base.public(zero()),
                        };
                        c.gate_add(k);
                    }
                    Ok(())
                }),
            );
        }
    }
    push(
        "zero-valued-public-inputs",
        Prog::new(|c| {
            c.append_public(zero());
            c.append_public(fe(4));
            c.append_public(zero());
            Ok(())
        }),
    );
    push(
        "no-multiplication-gate-after-init",
        Prog::new(|c| {
            let a = c.append_witness(fe(5));
            c.assert_equal(a, a);
            Ok(())
        }),
    );
    for c in [8usize, 9, 10, 15, 16, 17, 26, 58] {
        v.push(Item { name: format!("sized/c{}/pi-first", c), prog: sized(c, &Shape::Pi(vec![4])) });
        v.push(Item { name: format!("sized/c{}/pi-last", c), prog: sized(c, &Shape::Pi(vec![-1])) });
        v.push(Item { name: format!("sized/c{}/custom-last", c), prog: sized(c, &Shape::CustomLast(Fam::Range)) });
    }
    v
}

struct RouteCmp {
    constraints: usize,
    layout: u64,
    /// per capacity: (direct ok?, compressed ok?, bytes equal?, direct err, compressed err)
    caps: Vec<(String, bool, bool, bool, String, String)>,
    compress_err: Option<String>,
    compressed_len: usize,
}

fn compare_routes(prog: &Prog, full: &PublicParameters, label: &[u8]) -> Result<RouteCmp, String> {
    let snap = prog.run().map_err(|e| format!("{:?}", e))?;
    let c = snap.gates.len();
    let n = e1::min_degree(c);
    prog.install_default();
    let bytes = match Prog::compress() {
        Ok(b) => b,
        Err(e) => return Ok(RouteCmp { constraints: c, layout: crate::m1::layout_key(&snap), caps: vec![], compress_err: Some(format!("{:?}", e)), compressed_len: 0 }),
    };
    let mut caps = vec![];
    for (cn, points) in [("min-1", n + 6), ("min", n + 7), ("min+1", n + 8), ("ample", 2 * n + 40)] {
        let pp = crate::setup::truncate_pp(full, points.min(full.max_degree() + 1));
        let d = Compiler::compile_with_circuit(&pp, label, prog);
        let z = Compiler::compile_with_compressed(&pp, label, &bytes);
        let (dok, zok) = (d.is_ok(), z.is_ok());
        let eq = match (&d, &z) {
            (Ok((p1, v1)), Ok((p2, v2))) => p1.to_bytes() == p2.to_bytes() && v1.to_bytes() == v2.to_bytes(),
            _ => true,
        };
        caps.push((cn.to_string(), dok, zok, eq, d.err().map(|e| format!("{:?}", e)).unwrap_or_default(), z.err().map(|e| format!("{:?}", e)).unwrap_or_default()));
    }
    Ok(RouteCmp { constraints: c, layout: crate::m1::layout_key(&snap), caps, compress_err: None, compressed_len: bytes.len() })
}

/// Handcrafted descriptions derived from a real one (child process: an
/// allocation blow-up aborts the child, which the parent reports).
fn handcrafted_child() -> i32 {
    let full = crate::setup::pp(200);
    let prog = sized(20, &Shape::Pi(vec![4, -1]));
    prog.install_default();
    let real = Prog::compress().expect("compress");
    let inner = mp::inflate(&real, 1 << 24).expect("inflate");
    let base = Desc::decode(&inner).expect("own decoder reads the real description");
    if base.encode() != inner {
        println!("MACHINERY own encoder does not reproduce the real description");
        return 2;
    }
    // capacity: pp with max_degree D admits 2^floor(log2(D-6)) - 6 constraints
    let pp = crate::setup::truncate_pp(&full, 32 + 7); // D = 38 -> 32 - 6 = 26 constraints
    let maxc = 26usize;
    let reference = {
        let (r, peak, _) = measure_capped(1 << 30, || Compiler::compile_with_compressed(&pp, b"h", &real).map(|_| ()));
        println!("CASE valid-reference ok={} peak={}", matches!(r, Ok(Ok(()))), peak);
        peak
    };
    let grow = |d: &Desc, target: usize| -> Desc {
        let mut d = d.clone();
        while d.cons.len() < target {
            d.cons.push([0, 0, 0, 0, 0]);
        }
        d
    };
    let mut cases: Vec<(String, Vec<u8>, bool)> = vec![];
    let enc = |d: &Desc| mp::deflate(&d.encode());
    cases.push(("constraints=max".into(), enc(&grow(&base, maxc)), true));
    cases.push(("constraints=max+1".into(), enc(&grow(&base, maxc + 1)), false));
    for k in 1..=8usize {
        let mut inner2 = inner.clone();
        inner2.extend(std::iter::repeat(0u8).take(k));
        cases.push((format!("trailing-bytes-{}", k), mp::deflate(&inner2), false));
    }
    {
        let mut d = base.clone();
        d.cons[0][1] = d.witnesses; // witness index at bound
        cases.push(("witness-index=bound".into(), enc(&d), false));
        let mut d = base.clone();
        d.cons[0][1] = d.witnesses - 1;
        cases.push(("witness-index=bound-1".into(), enc(&d), true));
        let mut d = base.clone();
        d.cons[0][0] = d.polys.len() as u64;
        cases.push(("polynomial-index=bound".into(), enc(&d), false));
        let mut d = base.clone();
        let last = d.pis.len() - 1;
        d.pis[last] = d.cons.len() as u64;
        cases.push(("public-input-index=bound".into(), enc(&d), false));
        let mut d = base.clone();
        d.pis.swap(0, 1);
        cases.push(("public-inputs-not-increasing".into(), enc(&d), false));
        let mut d = base.clone();
        d.witnesses = 1_000_000_000_000;
        cases.push(("witness-count=1e12".into(), enc(&d), true));
        let mut d = base.clone();
        d.scalars.push([0xff; 32]);
        cases.push(("non-canonical-scalar".into(), enc(&d), false));
        for (k, nm) in ["pis", "scalars", "polys", "cons"].iter().enumerate() {
            let mut ann = Announce::default();
            ann.lens[k] = Some(1u64 << 32 - 1);
            cases.push((format!("announced-{}-len=2^31", nm), mp::deflate(&base.encode_with(&ann)), false));
        }
        cases.push(("deflate-bomb-1GiB".into(), mp::zero_bomb(1 << 30), false));
    }
    let mut worst = 0usize;
    for (name, bytes, want_ok) in cases {
        let (r, peak, _) = measure_capped(1 << 30, || Compiler::compile_with_compressed(&pp, b"h", &bytes).map(|_| ()));
        let got = match &r {
            Ok(Ok(())) => "ok".to_string(),
            Ok(Err(e)) => format!("err:{:?}", e),
            Err(p) => format!("panic:{}", p),
        };
        worst = worst.max(peak);
        println!("CASE {} want_ok={} got={} peak={} bound={}", name, want_ok, got, peak, 2 * reference + (1 << 20));
    }
    println!("DONE worst_peak={}", worst);
    0
}

fn handcrafted(run: &mut Run) {
    let exe = std::env::current_exe().expect("current exe");
    let out = std::process::Command::new(exe).args(["C15", "quick"]).env("VP_C15_CHILD", "1").output();
    let out = match out {
        Ok(o) => o,
        Err(e) => {
            run.machinery(format!("cannot spawn child: {}", e));
            return;
        }
    };
    let text = String::from_utf8_lossy(&out.stdout).to_string();
    let done = text.lines().any(|l| l.starts_with("DONE"));
    let mut last_case = String::new();
    for l in text.lines() {
        if l.starts_with("MACHINERY") {
            run.machinery(l.to_string());
        }
        if let Some(rest) = l.strip_prefix("CASE ") {
            let name = rest.split(' ').next().unwrap_or("").to_string();
            last_case = name.clone();
            if name == "valid-reference" {
                run.gate("valid reference description compiles", rest.contains("ok=true"));
                continue;
            }
            run.transitions += 1;
            run.evaluations += 1;
            run.traces_validated += 1;
            run.nontrivial(fnv(name.as_bytes()));
            let want_ok = rest.contains("want_ok=true");
            let got = rest.split(" got=").nth(1).unwrap_or("").split(" peak=").next().unwrap_or("").to_string();
            let peak: usize = rest.split(" peak=").nth(1).unwrap_or("0").split(' ').next().unwrap_or("0").parse().unwrap_or(0);
            let bound: usize = rest.split(" bound=").nth(1).unwrap_or("0").trim().parse().unwrap_or(usize::MAX);
            let case = json!({"handcrafted": name, "got": got, "peak": peak, "bound": bound});
            if got.starts_with("panic") {
                run.violation(&format!("handcrafted/{}/panic", name), &format!("compile_with_compressed panicked on {}: {}", name, got), case);
            } else if want_ok != (got == "ok") {
                run.violation(&format!("handcrafted/{}/{}", name, if got == "ok" { "accepted" } else { "rejected" }), &format!("handcrafted description {}: expected {}, got {}", name, if want_ok { "Ok" } else { "Err" }, got), case);
            } else if peak > bound {
                run.violation(&format!("handcrafted/{}/over-allocation", name), &format!("{}: peak allocation {} exceeds the differential bound {}", name, peak, bound), case);
            } else {
                run.outcome(if got == "ok" { "handcrafted:accepted-as-expected" } else { "handcrafted:rejected-as-expected" });
            }
        }
    }
    if !done {
        run.violation(
            &format!("handcrafted/{}/abort", last_case),
            &format!("child process died (status {:?}) after starting case following '{}': allocation blow-up or abort", out.status.code(), last_case),
            json!({"after_case": last_case, "status": format!("{:?}", out.status)}),
        );
    }
}

pub fn main(tier: Tier, replay: Option<serde_json::Value>) -> i32 {
    if std::env::var("VP_C15_CHILD").is_ok() {
        return handcrafted_child();
    }
    let mut run = Run::new("C15", tier, "model_checking");
    run.rule = "every E1 program state and a named list (unused witnesses, repeated / distinct selector tuples, selectors equal to the built-in table entries, zero-valued PIs, PI on first/last row, custom row on last row) x capacities {min-1, min, min+1, ample}: Prover/Verifier bytes of the compressed route equal those of direct compilation and both routes succeed or fail for exactly the same capacities; handcrafted descriptions (own MessagePack encoder validated against the real one): constraints = max / max+1, trailing bytes 1..8, each index at bound / bound-1, non-increasing PIs, witness count 1e12, announced lengths 2^31, deflate bomb: Err (or Ok where valid) with peak allocation <= 2 x valid peak + 1 MiB, in a child process".into();
    if replay.is_some() {
        run.set_replay_mode();
    }
    let replay_name: Option<String> = replay.as_ref().and_then(|r| r["case"]["name"].as_str().map(|s| s.to_string()));
    let full = crate::setup::pp((1usize << 14) + 64);
    let alpha = e1::alphabet();
    let mut items = named_circuits();
    items.push(big_description_circuit());
    let progs = match tier {
        Tier::Quick => {
            let mut v = e1::programs(&alpha, 2, 0, 2);
            v.retain(|p| p.ops.len() == 1 || (p.ops[0] * 3 + p.ops[1]) % 4 == 0);
            v
        }
        Tier::Thorough => e1::programs(&alpha, 2, 3, 8),
    };
    for p in &progs {
        items.push(Item { name: format!("program/{}", p.name), prog: e1::program_prog(&alpha, p) });
    }
    // labels of boundary lengths / contents on one small circuit
    for (ln, _) in e1::label_menu(tier) {
        items.push(Item { name: ln, prog: sized(9, &Shape::Pi(vec![4, -1])) });
    }
    if let Some(n) = &replay_name {
        items.retain(|i| &i.name == n);
    }
    run.bound("circuits", json!(items.len()));
    let outs = crate::par::par_map(&items, |it| compare_routes(&it.prog, &full, &e1::label_of(&it.name, tier, b"c15-label")));
    let mut layouts = std::collections::HashSet::new();
    for (it, o) in items.iter().zip(outs) {
        run.transitions += 1;
        run.evaluations += 1;
        let class = it.name.split('/').take(if it.name.starts_with("named") { 2 } else { 1 }).collect::<Vec<_>>().join("/");
        match o {
            Err(p) => run.machinery(format!("harness panic {}: {}", it.name, p)),
            Ok(Err(e)) => run.violation(&format!("{}/build-error", class), &format!("{}: {}", it.name, e), json!({"name": it.name})),
            Ok(Ok(rc)) => {
                layouts.insert(rc.layout);
                run.nontrivial(fnv(it.name.as_bytes()) ^ rc.layout);
                if let Some(e) = &rc.compress_err {
                    run.violation(&format!("{}/compress-failed", class), &format!("{}: compress failed: {}", it.name, e), json!({"name": it.name}));
                    continue;
                }
                if run.samples.len() < 6 {
                    run.sample(json!({"name": it.name, "constraints": rc.constraints, "compressed_len": rc.compressed_len, "capacities": rc.caps.iter().map(|c| json!({"cap": c.0, "direct_ok": c.1, "compressed_ok": c.2, "bytes_equal": c.3})).collect::<Vec<_>>()}));
                }
                for (cn, dok, zok, eq, de, ze) in &rc.caps {
                    run.traces_validated += 1;
                    let case = json!({"name": it.name, "capacity": cn, "constraints": rc.constraints, "direct": if *dok { "ok".to_string() } else { de.clone() }, "compressed": if *zok { "ok".to_string() } else { ze.clone() }});
                    if dok != zok {
                        run.violation(&format!("{}/capacity-{}/routes-disagree", class, cn), &format!("{} at capacity {}: direct {} but compressed {}", it.name, cn, if *dok { "compiles" } else { "fails" }, if *zok { "compiles" } else { "fails" }), case);
                    } else if !eq {
                        run.violation(&format!("{}/keys-differ", class), &format!("{} at capacity {}: compressed-route keys differ from direct keys", it.name, cn), case);
                    } else {
                        run.outcome(&format!("{}:{}", cn, if *dok { "both-compile-identical-keys" } else { "both-fail" }));
                    }
                    // the stated capacity rule itself
                    let expect_ok = cn != "min-1";
                    if *dok != expect_ok {
                        run.violation(&format!("{}/capacity-{}/direct-{}", class, cn, if *dok { "compiles" } else { "fails" }), &format!("{}: direct compilation at capacity {} {}", it.name, cn, if *dok { "succeeded" } else { "failed" }), json!({"name": it.name, "capacity": cn, "error": de}));
                    }
                }
            }
        }
    }
    run.states = layouts.len() as u64;
    handcrafted(&mut run);
    run.gate("both-fail cases at min-1", run.count("min-1:both-fail") > 10);
    run.gate("identical keys at min", run.count("min:both-compile-identical-keys") > 10);
    run.gate("handcrafted rejected", run.count("handcrafted:rejected-as-expected") >= 10);
    run.assumptions = vec!["the own MessagePack encoder is validated by byte-identical re-encoding of real descriptions".into(), "capacity rule: a circuit of c constraints needs max_degree >= (c+6).next_power_of_two() + 6".into()];
    run.finish()
}
