//! M3 — naive reference prover (DESIGN §3, Appendix A.2/A.3).
//!
//! Reproduces dusk-plonk's proofs byte for byte under a scripted RNG from
//!   * the preprocessed circuit as the real keys state it (`Prover::to_bytes()`
//!     parsed by `parse_prover`: selector / sigma polynomials in coefficient
//!     form, commit-key points, verifier-key commitments),
//!   * the instance (wire table and public-input rows of a snapshot),
//!   * label, transcript version and the 14 masking scalars
//!     `a0 a1 b0 b1 c0 c1 d0 d1 z0 z1 z2 t12 t13 t14`.
//!
//! Everything is deliberately naive and own code: O(n^2) DFT/IDFT, schoolbook
//! polynomial arithmetic, Horner evaluation, long division by X^n - 1 (no
//! cosets at all), commitments as explicit sums, the Fiat-Shamir transcript from
//! a literal (label, item) table. Only field / group primitives of
//! dusk-bls12_381 and merlin are used. Restricted to n <= 64.

use std::collections::HashMap;
use std::sync::Mutex;

use dusk_bls12_381::{G1Affine, G1Projective, ROOT_OF_UNITY, TWO_ADACITY};
use dusk_bytes::Serializable;
use dusk_plonk::verif::Snapshot;
use merlin::Transcript;

use crate::fe::*;

// ---------------------------------------------------------------------------
// naive polynomial kernel (coefficient vectors, lowest degree first)
// ---------------------------------------------------------------------------

pub type Poly = Vec<Fe>;

pub fn ptrim(a: &[Fe]) -> Poly {
    let mut v = a.to_vec();
    while v.last().map_or(false, |c| *c == zero()) {
        v.pop();
    }
    v
}
pub fn padd(a: &[Fe], b: &[Fe]) -> Poly {
    let mut r = vec![zero(); a.len().max(b.len())];
    for (i, c) in a.iter().enumerate() {
        r[i] += c;
    }
    for (i, c) in b.iter().enumerate() {
        r[i] += c;
    }
    r
}
pub fn psub(a: &[Fe], b: &[Fe]) -> Poly {
    let mut r = vec![zero(); a.len().max(b.len())];
    for (i, c) in a.iter().enumerate() {
        r[i] += c;
    }
    for (i, c) in b.iter().enumerate() {
        r[i] -= c;
    }
    r
}
pub fn pscale(a: &[Fe], k: Fe) -> Poly {
    a.iter().map(|c| *c * k).collect()
}
/// a + k (constant)
pub fn paddc(a: &[Fe], k: Fe) -> Poly {
    padd(a, &[k])
}
/// schoolbook product
pub fn pmul(a: &[Fe], b: &[Fe]) -> Poly {
    let a = ptrim(a);
    let b = ptrim(b);
    if a.is_empty() || b.is_empty() {
        return vec![];
    }
    let mut r = vec![zero(); a.len() + b.len() - 1];
    for (i, x) in a.iter().enumerate() {
        if *x == zero() {
            continue;
        }
        for (j, y) in b.iter().enumerate() {
            r[i + j] += *x * *y;
        }
    }
    r
}
/// Horner evaluation
pub fn peval(a: &[Fe], x: Fe) -> Fe {
    let mut acc = zero();
    for c in a.iter().rev() {
        acc = acc * x + *c;
    }
    acc
}
/// a(wX)
pub fn pshift(a: &[Fe], w: Fe) -> Poly {
    let mut p = one();
    let mut r = Vec::with_capacity(a.len());
    for c in a {
        r.push(*c * p);
        p *= w;
    }
    r
}
pub fn fpow(x: Fe, mut e: u64) -> Fe {
    let mut base = x;
    let mut r = one();
    while e > 0 {
        if e & 1 == 1 {
            r *= base;
        }
        base = base * base;
        e >>= 1;
    }
    r
}
/// Long division by X^n - 1: (quotient, remainder), remainder has n coefficients.
pub fn pdiv_zh(a: &[Fe], n: usize) -> (Poly, Poly) {
    let mut c = a.to_vec();
    if c.len() <= n {
        c.resize(n, zero());
        return (vec![], c);
    }
    let mut q = vec![zero(); c.len() - n];
    for i in (n..c.len()).rev() {
        let t = c[i];
        q[i - n] = t;
        c[i] = zero();
        c[i - n] += t;
    }
    c.truncate(n);
    (q, c)
}
/// Division by (X - z): (quotient, remainder).
pub fn pdiv_linear(a: &[Fe], z: Fe) -> (Poly, Fe) {
    if a.is_empty() {
        return (vec![], zero());
    }
    let mut q = vec![zero(); a.len() - 1];
    let mut carry = zero();
    for i in (0..a.len()).rev() {
        let t = a[i] + carry;
        if i == 0 {
            return (q, t);
        }
        q[i - 1] = t;
        carry = t * z;
    }
    unreachable!()
}

/// Generator of the 2^k-element subgroup: ROOT_OF_UNITY squared down.
pub fn omega_for(n: usize) -> Fe {
    assert!(n.is_power_of_two() && n >= 2);
    let k = n.trailing_zeros();
    let mut g = ROOT_OF_UNITY;
    for _ in k..TWO_ADACITY {
        g = g * g;
    }
    assert!(fpow(g, n as u64) == one() && fpow(g, (n / 2) as u64) == neg1(), "omega is a primitive n-th root");
    g
}
pub fn domain_points(n: usize) -> Vec<Fe> {
    let w = omega_for(n);
    let mut v = Vec::with_capacity(n);
    let mut p = one();
    for _ in 0..n {
        v.push(p);
        p *= w;
    }
    v
}
/// evaluations on the domain by Horner at every point
pub fn dft(coeffs: &[Fe], pts: &[Fe]) -> Vec<Fe> {
    pts.iter().map(|x| peval(coeffs, *x)).collect()
}
/// interpolation: c_k = n^-1 * sum_i e_i * w^(-i k)
pub fn idft(evals: &[Fe], pts: &[Fe]) -> Poly {
    let n = pts.len();
    assert_eq!(evals.len(), n);
    let ninv = inv(fe(n as u64));
    (0..n)
        .map(|k| {
            let mut s = zero();
            for i in 0..n {
                // w^(-ik) = pts[(n - (i*k mod n)) mod n]
                let e = (n - (i * k) % n) % n;
                s += evals[i] * pts[e];
            }
            s * ninv
        })
        .collect()
}

// ---------------------------------------------------------------------------
// parsing the real keys
// ---------------------------------------------------------------------------

/// Selector order: q_m,q_l,q_r,q_o,q_f,q_c,q_arith,q_range,q_logic,q_fixed,q_var
/// (the order of `GateRow::q` / `m1::QM..QVAR`). `vk_commitments` holds the
/// eleven selector commitments in the same order followed by s_sigma_1..4.
#[derive(Clone, Debug)]
pub struct ProverData {
    pub label: Vec<u8>,
    pub size: usize,
    pub constraints: usize,
    pub selectors: [Vec<Fe>; 11],
    pub sigmas: [Vec<Fe>; 4],
    pub commit_key: Vec<G1Affine>,
    pub vk_commitments: [G1Affine; 15],
    pub vk_n: usize,
}

struct Rd<'a> {
    b: &'a [u8],
    p: usize,
}
impl<'a> Rd<'a> {
    fn take(&mut self, n: usize) -> Result<&'a [u8], String> {
        if self.b.len() - self.p < n {
            return Err(format!("truncated: need {} bytes at offset {}, have {}", n, self.p, self.b.len() - self.p));
        }
        let s = &self.b[self.p..self.p + n];
        self.p += n;
        Ok(s)
    }
    fn u64be(&mut self) -> Result<usize, String> {
        Ok(u64::from_be_bytes(self.take(8)?.try_into().unwrap()) as usize)
    }
    fn u64le(&mut self) -> Result<usize, String> {
        Ok(u64::from_le_bytes(self.take(8)?.try_into().unwrap()) as usize)
    }
    fn fe(&mut self) -> Result<Fe, String> {
        let b: [u8; 32] = self.take(32)?.try_into().unwrap();
        Option::<Fe>::from(Fe::from_bytes(&b)).ok_or_else(|| "non-canonical scalar".to_string())
    }
    fn rest(&self) -> usize {
        self.b.len() - self.p
    }
}

/// Position of the serialized selector k (q_m,q_l,q_r,q_o,q_f,q_c,q_arith,
/// q_logic,q_range,q_fixed,q_var) in the M1 order.
const SERIAL_TO_M1: [usize; 11] = [0, 1, 2, 3, 4, 5, 6, 8, 7, 9, 10];

pub fn parse_prover(bytes: &[u8]) -> Result<ProverData, String> {
    let mut r = Rd { b: bytes, p: 0 };
    let label_len = r.u64be()?;
    let pk_len = r.u64be()?;
    let ck_len = r.u64be()?;
    let vk_len = r.u64be()?;
    let size = r.u64be()?;
    let constraints = r.u64be()?;
    let label = r.take(label_len)?.to_vec();
    let pk = r.take(pk_len)?;
    let ck = r.take(ck_len)?;
    let vk = r.take(vk_len)?;

    // --- prover key: u64 n, u64 evaluation-block size, then per polynomial
    // (u64 coefficient count, coefficients, one evaluation block); finally two
    // bare evaluation blocks (linear evaluations, vanishing polynomial).
    let mut p = Rd { b: pk, p: 0 };
    let n = p.u64le()?;
    let eval_size = p.u64le()?;
    if n != size {
        return Err(format!("prover key n {} != size {}", n, size));
    }
    let mut polys: Vec<Vec<Fe>> = Vec::new();
    for _ in 0..15 {
        let len = p.u64le()?;
        if len > n {
            return Err(format!("polynomial longer than n: {}", len));
        }
        let mut c = Vec::with_capacity(len);
        for _ in 0..len {
            c.push(p.fe()?);
        }
        p.take(eval_size)?;
        polys.push(c);
    }
    p.take(eval_size)?;
    p.take(eval_size)?;
    // `ProverKey::to_var_bytes` sizes its buffer as if all 15 polynomials had
    // q_m's length, so shorter polynomials leave zero padding at the end.
    let tail = p.rest();
    if p.take(tail)?.iter().any(|b| *b != 0) {
        return Err(format!("{} trailing non-zero bytes in prover key", tail));
    }
    let mut selectors: [Vec<Fe>; 11] = Default::default();
    for k in 0..11 {
        selectors[SERIAL_TO_M1[k]] = polys[k].clone();
    }
    let sigmas: [Vec<Fe>; 4] = [polys[11].clone(), polys[12].clone(), polys[13].clone(), polys[14].clone()];

    // --- commit key: LE u64 count, then raw affine points (97 bytes)
    let mut c = Rd { b: ck, p: 0 };
    let count = c.u64le()?;
    let mut commit_key = Vec::with_capacity(count);
    for i in 0..count {
        let raw = c.take(G1Affine::RAW_SIZE)?;
        let flag = raw[G1Affine::RAW_SIZE - 1];
        if flag > 1 {
            return Err(format!("commit key point {}: flag byte {}", i, flag));
        }
        let pt = unsafe { G1Affine::from_slice_unchecked(raw) };
        if !bool::from(pt.is_on_curve()) {
            return Err(format!("commit key point {} not on curve", i));
        }
        commit_key.push(pt);
    }
    if c.rest() != 0 {
        return Err("trailing bytes in commit key".into());
    }

    // --- verifier key: LE u64 n, 15 compressed commitments (rest is padding)
    let mut v = Rd { b: vk, p: 0 };
    let vk_n = v.u64le()?;
    let mut comms = Vec::new();
    for i in 0..15 {
        let b: [u8; 48] = v.take(48)?.try_into().unwrap();
        comms.push(G1Affine::from_bytes(&b).map_err(|e| format!("vk commitment {} undecodable: {:?}", i, e))?);
    }
    let mut vk_commitments = [G1Affine::identity(); 15];
    for k in 0..11 {
        vk_commitments[SERIAL_TO_M1[k]] = comms[k];
    }
    for k in 11..15 {
        vk_commitments[k] = comms[k];
    }
    Ok(ProverData { label, size, constraints, selectors, sigmas, commit_key, vk_commitments, vk_n })
}

// ---------------------------------------------------------------------------
// instance
// ---------------------------------------------------------------------------

#[derive(Clone, Debug)]
pub struct Instance {
    /// wire values a,b,c,d per row (length = constraints)
    pub wires: Vec<[Fe; 4]>,
    /// public-input rows (row, value), ascending rows
    pub pis: Vec<(usize, Fe)>,
}
impl Instance {
    pub fn from_snapshot(s: &Snapshot) -> Self {
        let wires = s.gates.iter().map(|g| [s.witnesses[g.w[0]], s.witnesses[g.w[1]], s.witnesses[g.w[2]], s.witnesses[g.w[3]]]).collect();
        let mut pis = s.public_inputs.clone();
        pis.sort_by_key(|(r, _)| *r);
        Instance { wires, pis }
    }
    pub fn pi_values(&self) -> Vec<Fe> {
        self.pis.iter().map(|(_, v)| *v).collect()
    }
}

#[derive(Clone, Copy, Debug, PartialEq, Eq)]
pub enum Version {
    V2,
    V3,
}

// ---------------------------------------------------------------------------
// transcript (Appendix A.2) from a literal table
// ---------------------------------------------------------------------------

fn static_label(label: &[u8]) -> &'static [u8] {
    static CACHE: Mutex<Option<HashMap<Vec<u8>, &'static [u8]>>> = Mutex::new(None);
    let mut g = CACHE.lock().unwrap_or_else(|e| e.into_inner());
    let m = g.get_or_insert_with(HashMap::new);
    if let Some(l) = m.get(label) {
        return l;
    }
    let l: &'static [u8] = Box::leak(label.to_vec().into_boxed_slice());
    m.insert(label.to_vec(), l);
    l
}

/// (transcript label, index into `ProverData::vk_commitments`) in seeding order.
pub const SEED_TABLE_V3: [(&[u8], usize); 15] = [
    (b"q_m", 0),
    (b"q_l", 1),
    (b"q_r", 2),
    (b"q_o", 3),
    (b"q_c", 5),
    (b"q_f", 4),
    (b"q_arith", 6),
    (b"q_range", 7),
    (b"q_logic", 8),
    (b"q_variable_group_add", 10),
    (b"q_fixed_group_add", 9),
    (b"s_sigma_1", 11),
    (b"s_sigma_2", 12),
    (b"s_sigma_3", 13),
    (b"s_sigma_4", 14),
];

/// Proof field indices (order of `Proof::to_bytes`).
pub const C_A: usize = 0;
pub const C_B: usize = 1;
pub const C_C: usize = 2;
pub const C_D: usize = 3;
pub const C_Z: usize = 4;
pub const C_TLOW: usize = 5;
pub const C_TMID: usize = 6;
pub const C_THIGH: usize = 7;
pub const C_TFOURTH: usize = 8;
pub const C_WZ: usize = 9;
pub const C_WZW: usize = 10;
pub const COMM_NAMES: [&str; 11] =
    ["a_comm", "b_comm", "c_comm", "d_comm", "z_comm", "t_low_comm", "t_mid_comm", "t_high_comm", "t_fourth_comm", "w_z_chall_comm", "w_z_chall_w_comm"];

pub const E_A: usize = 0;
pub const E_B: usize = 1;
pub const E_C: usize = 2;
pub const E_D: usize = 3;
pub const E_AW: usize = 4;
pub const E_BW: usize = 5;
pub const E_DW: usize = 6;
pub const E_QARITH: usize = 7;
pub const E_QC: usize = 8;
pub const E_QL: usize = 9;
pub const E_QR: usize = 10;
pub const E_S1: usize = 11;
pub const E_S2: usize = 12;
pub const E_S3: usize = 13;
pub const E_Z: usize = 14;
pub const EVAL_NAMES: [&str; 15] = [
    "a_eval", "b_eval", "c_eval", "d_eval", "a_w_eval", "b_w_eval", "d_w_eval", "q_arith_eval", "q_c_eval", "q_l_eval", "q_r_eval", "s_sigma_1_eval",
    "s_sigma_2_eval", "s_sigma_3_eval", "z_eval",
];
/// Order in which the evaluations are absorbed: (label, proof eval index).
pub const EVAL_ABSORB: [(&[u8], usize); 15] = [
    (b"a_eval", E_A),
    (b"b_eval", E_B),
    (b"c_eval", E_C),
    (b"d_eval", E_D),
    (b"s_sigma_1_eval", E_S1),
    (b"s_sigma_2_eval", E_S2),
    (b"s_sigma_3_eval", E_S3),
    (b"z_eval", E_Z),
    (b"a_w_eval", E_AW),
    (b"b_w_eval", E_BW),
    (b"d_w_eval", E_DW),
    (b"q_arith_eval", E_QARITH),
    (b"q_c_eval", E_QC),
    (b"q_l_eval", E_QL),
    (b"q_r_eval", E_QR),
];

pub struct Fs(Transcript);
impl Fs {
    pub fn seeded(pd: &ProverData, pis: &[Fe], ver: Version) -> Self {
        let mut t = Transcript::new(static_label(&pd.label));
        t.append_message(b"dom-sep", b"circuit_size");
        t.append_u64(b"n", pd.constraints as u64);
        let mut fs = Fs(t);
        for (label, idx) in SEED_TABLE_V3.iter() {
            // V1/V2: the s_sigma_4 slot carries s_sigma_1 again
            let idx = if ver == Version::V2 && *label == b"s_sigma_4" { 11 } else { *idx };
            fs.point(label, &pd.vk_commitments[idx]);
        }
        fs.0.append_message(b"dom-sep", b"circuit_size");
        fs.0.append_u64(b"n", pd.vk_n as u64);
        for pi in pis {
            fs.scalar(b"pi", pi);
        }
        fs
    }
    pub fn point(&mut self, label: &'static [u8], p: &G1Affine) {
        self.0.append_message(label, &p.to_bytes());
    }
    pub fn scalar(&mut self, label: &'static [u8], s: &Fe) {
        self.0.append_message(label, &s.to_bytes());
    }
    pub fn challenge(&mut self, label: &'static [u8]) -> Fe {
        let mut buf = [0u8; 64];
        self.0.challenge_bytes(label, &mut buf);
        Fe::from_bytes_wide(&buf)
    }
}

#[derive(Clone, Copy, Debug, Default, PartialEq, Eq)]
pub struct Challenges {
    pub beta: Fe,
    pub gamma: Fe,
    pub alpha: Fe,
    pub range_sep: Fe,
    pub logic_sep: Fe,
    pub fixed_sep: Fe,
    pub var_sep: Fe,
    pub z: Fe,
    pub v: Fe,
    pub v_w: Fe,
    pub u: Fe,
}

/// Decoded proof: 11 commitments, 15 evaluations (proof order).
#[derive(Clone, Debug)]
pub struct ProofFields {
    pub comms: [G1Affine; 11],
    pub evals: [Fe; 15],
}
pub fn decode_proof(bytes: &[u8]) -> Result<ProofFields, String> {
    if bytes.len() != 1008 {
        return Err(format!("proof length {}", bytes.len()));
    }
    let mut comms = [G1Affine::identity(); 11];
    for i in 0..11 {
        let b: [u8; 48] = bytes[i * 48..i * 48 + 48].try_into().unwrap();
        comms[i] = G1Affine::from_bytes(&b).map_err(|e| format!("commitment {}: {:?}", i, e))?;
    }
    let mut evals = [zero(); 15];
    for i in 0..15 {
        let o = 11 * 48 + i * 32;
        let b: [u8; 32] = bytes[o..o + 32].try_into().unwrap();
        evals[i] = Option::<Fe>::from(Fe::from_bytes(&b)).ok_or_else(|| format!("eval {} non-canonical", i))?;
    }
    Ok(ProofFields { comms, evals })
}

/// Verifier-style re-derivation of every challenge from proof bytes (the
/// transcript table only; no prover state).
pub fn challenges_from_proof(pd: &ProverData, proof: &ProofFields, pis: &[Fe], ver: Version) -> Challenges {
    let mut fs = Fs::seeded(pd, pis, ver);
    let mut ch = Challenges::default();
    fs.point(b"a_comm", &proof.comms[C_A]);
    fs.point(b"b_comm", &proof.comms[C_B]);
    fs.point(b"c_comm", &proof.comms[C_C]);
    fs.point(b"d_comm", &proof.comms[C_D]);
    ch.beta = fs.challenge(b"beta");
    fs.scalar(b"beta", &ch.beta);
    ch.gamma = fs.challenge(b"gamma");
    fs.point(b"z_comm", &proof.comms[C_Z]);
    ch.alpha = fs.challenge(b"alpha");
    ch.range_sep = fs.challenge(b"range separation challenge");
    ch.logic_sep = fs.challenge(b"logic separation challenge");
    ch.fixed_sep = fs.challenge(b"fixed base separation challenge");
    ch.var_sep = fs.challenge(b"variable base separation challenge");
    fs.point(b"t_low_comm", &proof.comms[C_TLOW]);
    fs.point(b"t_mid_comm", &proof.comms[C_TMID]);
    fs.point(b"t_high_comm", &proof.comms[C_THIGH]);
    fs.point(b"t_fourth_comm", &proof.comms[C_TFOURTH]);
    ch.z = fs.challenge(b"z_challenge");
    for (label, idx) in EVAL_ABSORB.iter() {
        fs.scalar(label, &proof.evals[*idx]);
    }
    ch.v = fs.challenge(b"v_challenge");
    ch.v_w = fs.challenge(b"v_w_challenge");
    fs.point(b"w_z_chall_comm", &proof.comms[C_WZ]);
    fs.point(b"w_z_chall_w_comm", &proof.comms[C_WZW]);
    ch.u = fs.challenge(b"u_challenge");
    ch
}

// ---------------------------------------------------------------------------
// commitments
// ---------------------------------------------------------------------------

/// Σ c_i · P_i, term by term.
pub fn commit(key: &[G1Affine], poly: &[Fe]) -> Result<G1Affine, String> {
    let p = ptrim(poly);
    if p.len() > key.len() {
        return Err(format!("polynomial degree {} exceeds commit key ({} points)", p.len() - 1, key.len()));
    }
    let mut acc = G1Projective::identity();
    for (c, pt) in p.iter().zip(key.iter()) {
        if *c == zero() {
            continue;
        }
        acc += G1Projective::from(*pt) * *c;
    }
    Ok(G1Affine::from(acc))
}

// ---------------------------------------------------------------------------
// gate identities, generic over "polynomial or constant" (constants are
// polynomials of length one), Appendix A.1 with the A.3 weights
// ---------------------------------------------------------------------------

pub struct WireSet<'a> {
    pub a: &'a [Fe],
    pub b: &'a [Fe],
    pub c: &'a [Fe],
    pub d: &'a [Fe],
    pub aw: &'a [Fe],
    pub bw: &'a [Fe],
    pub dw: &'a [Fe],
}

fn edwards_d() -> Fe {
    -(fe(10240) * inv(fe(10241)))
}
fn pdelta(f: &[Fe]) -> Poly {
    let f1 = paddc(f, -fe(1));
    let f2 = paddc(f, -fe(2));
    let f3 = paddc(f, -fe(3));
    pmul(&pmul(f, &f1), &pmul(&f2, &f3))
}
/// f - 4 g
fn pquad(f: &[Fe], g: &[Fe]) -> Poly {
    psub(f, &pscale(g, fe(4)))
}
fn sum(ps: &[Poly]) -> Poly {
    let mut r = vec![];
    for p in ps {
        r = padd(&r, p);
    }
    r
}

pub fn range_identity(w: &WireSet, sep: Fe) -> Poly {
    let k = sep * sep;
    sum(&[
        pdelta(&pquad(w.c, w.d)),
        pscale(&pdelta(&pquad(w.b, w.c)), k),
        pscale(&pdelta(&pquad(w.a, w.b)), k * k),
        pscale(&pdelta(&pquad(w.dw, w.a)), k * k * k),
    ])
}
pub fn logic_identity(w: &WireSet, q_c: &[Fe], sep: Fe) -> Poly {
    let k = sep * sep;
    let a = pquad(w.aw, w.a);
    let b = pquad(w.bw, w.b);
    let e = pquad(w.dw, w.d);
    let wv = w.c;
    let ab = padd(&a, &b);
    // F = w[w(4w - 18(A+B) + 81) + 18(A^2+B^2) - 81(A+B) + 83]
    let inner = paddc(&psub(&pscale(wv, fe(4)), &pscale(&ab, fe(18))), fe(81));
    let sq = padd(&pmul(&a, &a), &pmul(&b, &b));
    let mid = paddc(&psub(&padd(&pmul(wv, &inner), &pscale(&sq, fe(18))), &pscale(&ab, fe(81))), fe(83));
    let f = pmul(wv, &mid);
    // op = q_c(9E - 3(A+B)) + 3(A+B+E) - 2F
    let op = psub(
        &padd(&pmul(q_c, &psub(&pscale(&e, fe(9)), &pscale(&ab, fe(3)))), &pscale(&padd(&ab, &e), fe(3))),
        &pscale(&f, fe(2)),
    );
    let k2 = k * k;
    sum(&[pdelta(&a), pscale(&pdelta(&b), k), pscale(&pdelta(&e), k2), pscale(&psub(wv, &pmul(&a, &b)), k2 * k), pscale(&op, k2 * k2)])
}
pub fn fixed_identity(w: &WireSet, q_l: &[Fe], q_r: &[Fe], q_c: &[Fe], sep: Fe) -> Poly {
    let k = sep * sep;
    let dd = edwards_d();
    let bit = psub(w.dw, &pscale(w.d, fe(2)));
    let bit_ok = pmul(&pmul(&bit, &paddc(&bit, neg1())), &paddc(&bit, one()));
    let y_alpha = paddc(&pmul(&pmul(&bit, &bit), &paddc(q_r, neg1())), one());
    let x_alpha = pmul(&bit, q_l);
    let xy = psub(&pmul(&bit, q_c), w.c);
    let cab_d = pscale(&pmul(&pmul(w.c, w.a), w.b), dd);
    let x_acc = psub(&padd(w.aw, &pmul(w.aw, &cab_d)), &padd(&pmul(w.a, &y_alpha), &pmul(w.b, &x_alpha)));
    let y_acc = psub(&psub(w.bw, &pmul(w.bw, &cab_d)), &padd(&pmul(w.b, &y_alpha), &pmul(w.a, &x_alpha)));
    sum(&[bit_ok, pscale(&xy, k), pscale(&x_acc, k * k), pscale(&y_acc, k * k * k)])
}
pub fn var_identity(w: &WireSet, sep: Fe) -> Poly {
    let k = sep * sep;
    let dd = edwards_d();
    let xy = psub(&pmul(w.a, w.d), w.dw);
    let bc = pmul(w.b, w.c);
    let prod = pscale(&pmul(w.dw, &bc), dd); // D * d' * b * c
    let x3 = psub(&padd(w.dw, &bc), &pmul(w.aw, &paddc(&prod, one())));
    let y3 = psub(&padd(&pmul(w.b, w.d), &pmul(w.a, w.c)), &pmul(w.bw, &psub(&[one()], &prod)));
    sum(&[xy, pscale(&x3, k), pscale(&y3, k * k)])
}

// ---------------------------------------------------------------------------
// the prover
// ---------------------------------------------------------------------------

#[derive(Clone, Copy, Debug, PartialEq, Eq)]
pub enum Stage {
    /// blinded wire polynomials are in place, not yet committed
    Wires,
    /// blinded permutation polynomial in place, not yet committed
    Perm,
    /// the four (re-randomised) quotient shares in place, not yet committed
    Quotient,
    /// the 15 evaluations computed, not yet absorbed
    Evals,
    /// r, W_z and W_zw polynomials computed, not yet committed
    Openings,
}

/// Deviations of the adversarial prover (C02). Default = honest.
#[derive(Default)]
pub struct Adversary {
    /// if the numerator is not divisible by Z_H, keep the quotient and drop the
    /// remainder instead of failing
    pub drop_remainder: bool,
    /// (proof eval index `E_*`, value): replace individual evaluations after
    /// they are computed and before they are absorbed into the transcript (so
    /// v, v_w, r, W_z, W_zw follow the forged values) ...
    pub eval_overrides: Vec<(usize, Fe)>,
    /// ... unless `patch_only` is set: then nothing else is recomputed, the
    /// honest proof is produced and only the evaluation fields of the output
    /// bytes are replaced.
    pub patch_only: bool,
    /// called at `Stage::Evals` (after `eval_overrides`), with challenges up to
    /// z and all polynomials available; may rewrite `evals`.
    pub forge: Option<Box<dyn Fn(&mut Intermediates) + Send + Sync>>,
    /// Members of the batched opening at z, as indices into the standard list
    /// `OPENING_MEMBERS` (r, a, b, c, d, s_sigma_1..3, q_arith, q_c, q_l, q_r),
    /// member i weighted v^i; `None` entries consume a power of v without adding
    /// a polynomial. Default (None) = the standard twelve. `opening_list_v1()`
    /// is the legacy-profile (V1) shape without the four selector polynomials.
    pub opening_list: Option<Vec<Option<usize>>>,
    /// Transcript-omission bet: do not absorb `z_comm`, and derive the round-3
    /// challenges (alpha, separation challenges) *before* `Stage::Perm`, so the
    /// stage hook can choose z(X) knowing alpha. Against a verifier that does
    /// absorb z_comm the resulting proof uses the wrong challenges.
    pub skip_absorb_z_comm: bool,
    /// general hook, called at every stage before the stage's data is
    /// committed / absorbed.
    pub stage_hook: Option<Box<dyn Fn(Stage, &mut Intermediates) + Send + Sync>>,
}

#[derive(Clone, Debug, Default)]
pub struct Intermediates {
    pub n: usize,
    pub omega: Fe,
    pub domain: Vec<Fe>,
    /// padded wire columns a,b,c,d (evaluations on the domain)
    pub wire_vals: [Vec<Fe>; 4],
    pub pi_dense: Vec<Fe>,
    pub pi_poly: Poly,
    pub wire_polys_unblinded: [Poly; 4],
    /// blinded wire polynomials (n + 2 coefficients)
    pub wire_polys: [Poly; 4],
    pub sigma_evals: [Vec<Fe>; 4],
    /// grand product on the domain, z_vec[0] = 1
    pub z_vec: Vec<Fe>,
    pub z_poly_unblinded: Poly,
    /// blinded permutation polynomial (n + 3 coefficients)
    pub z_poly: Poly,
    pub numerator: Poly,
    pub quotient: Poly,
    /// remainder of numerator / Z_H (all zero for a satisfied instance)
    pub remainder: Poly,
    pub remainder_dropped: bool,
    /// quotient shares before re-randomisation
    pub t_chunks_raw: [Poly; 4],
    /// quotient shares as committed
    pub t_chunks: [Poly; 4],
    pub ch: Challenges,
    /// proof order (`E_*`)
    pub evals: [Fe; 15],
    /// evaluations before overrides / forging
    pub honest_evals: [Fe; 15],
    pub pi_eval: Fe,
    pub l1_eval: Fe,
    pub zh_eval: Fe,
    pub r_poly: Poly,
    pub w_z_poly: Poly,
    pub w_zw_poly: Poly,
    /// proof order (`C_*`)
    pub comms: [G1Affine; 11],
    pub draws: [Fe; 14],
}

pub const K1: u64 = 7;
pub const K2: u64 = 13;
pub const K3: u64 = 17;

pub fn blind(unblinded: &[Fe], blinders: &[Fe], n: usize) -> Poly {
    // mask = (b0 + b1 X + ...) * (X^n - 1)
    let mut c = unblinded.to_vec();
    c.resize(n, zero());
    for (i, b) in blinders.iter().enumerate() {
        c[i] -= *b;
        c.push(*b);
    }
    c
}

pub fn serialize(comms: &[G1Affine; 11], evals: &[Fe; 15]) -> Vec<u8> {
    let mut out = Vec::with_capacity(1008);
    for c in comms {
        out.extend_from_slice(&c.to_bytes());
    }
    for e in evals {
        out.extend_from_slice(&e.to_bytes());
    }
    out
}

pub const OPENING_MEMBERS: [&str; 12] = ["r", "a", "b", "c", "d", "s_sigma_1", "s_sigma_2", "s_sigma_3", "q_arith", "q_c", "q_l", "q_r"];
/// The legacy-profile (V1) batched opening: r, a, b, c, d, s_sigma_1..3.
pub fn opening_list_v1() -> Vec<Option<usize>> {
    (0..8).map(Some).collect()
}

/// The linearisation polynomial r(X) for the given evaluations: the polynomial
/// counterpart of the verifier's D (without the u*[z] term) plus the constant
/// PI(z). Needs `im` up to `Stage::Evals` (challenges up to z, z_poly,
/// t_chunks, pi_eval, l1_eval, zh_eval).
pub fn linearisation_poly(pd: &ProverData, im: &Intermediates, e: &[Fe; 15]) -> Poly {
    let n = im.n;
    let q = &pd.selectors;
    let (alpha, beta, gamma, z) = (im.ch.alpha, im.ch.beta, im.ch.gamma, im.ch.z);
    let ca = [e[E_A]];
    let cb = [e[E_B]];
    let cc = [e[E_C]];
    let cd = [e[E_D]];
    let caw = [e[E_AW]];
    let cbw = [e[E_BW]];
    let cdw = [e[E_DW]];
    let ws = WireSet { a: &ca, b: &cb, c: &cc, d: &cd, aw: &caw, bw: &cbw, dw: &cdw };
    let scalar = |p: Poly| -> Fe { peval(&p, zero()) };
    let arith = pscale(
        &sum(&[pscale(&q[0], e[E_A] * e[E_B]), pscale(&q[1], e[E_A]), pscale(&q[2], e[E_B]), pscale(&q[3], e[E_C]), pscale(&q[4], e[E_D]), q[5].clone()]),
        e[E_QARITH],
    );
    let range = pscale(&q[7], scalar(range_identity(&ws, im.ch.range_sep)) * im.ch.range_sep);
    let logic = pscale(&q[8], scalar(logic_identity(&ws, &[e[E_QC]], im.ch.logic_sep)) * im.ch.logic_sep);
    let fixed = pscale(&q[9], scalar(fixed_identity(&ws, &[e[E_QL]], &[e[E_QR]], &[e[E_QC]], im.ch.fixed_sep)) * im.ch.fixed_sep);
    let var = pscale(&q[10], scalar(var_identity(&ws, im.ch.var_sep)) * im.ch.var_sep);
    // permutation part
    let id_k = alpha * (e[E_A] + beta * z + gamma) * (e[E_B] + beta * fe(K1) * z + gamma) * (e[E_C] + beta * fe(K2) * z + gamma) * (e[E_D] + beta * fe(K3) * z + gamma);
    let copy_k = alpha * beta * e[E_Z] * (e[E_A] + beta * e[E_S1] + gamma) * (e[E_B] + beta * e[E_S2] + gamma) * (e[E_C] + beta * e[E_S3] + gamma);
    let perm = sum(&[pscale(&im.z_poly, id_k), pscale(&pd.sigmas[3], -copy_k), pscale(&im.z_poly, alpha * alpha * im.l1_eval)]);
    // Constant term: M3 states it as PI(z) = sum_rows PI_i * L_i(z). The real
    // prover feeds the *sparse* public-input vector to its barycentric
    // evaluation (values treated as sitting on rows 0,1,2,...), so its r(X)
    // has a different constant term whenever a public input is not on
    // those rows. The constant cancels in floor(r + ... / (X - z)), hence
    // no proof byte depends on it (confirmed by byte equality on circuits
    // with public inputs on rows >= 4).
    // quotient part
    let zn = fpow(z, n as u64);
    let tq = sum(&[im.t_chunks[0].clone(), pscale(&im.t_chunks[1], zn), pscale(&im.t_chunks[2], zn * zn), pscale(&im.t_chunks[3], zn * zn * zn)]);
    sum(&[arith, range, logic, fixed, var, vec![im.pi_eval], perm, pscale(&tq, -im.zh_eval)])
}

/// The relation the verifier's equation imposes on the evaluations at z:
/// D(z) + r0 where D is the linearisation polynomial without the PI constant
/// and r0 = PI(z) - alpha^2 L1(z) - alpha (a+beta s1+gamma)(b+beta s2+gamma)
/// (c+beta s3+gamma)(d+gamma) z_w. Zero for an honest proof of a satisfied
/// instance; a forger solves one evaluation so that it vanishes.
pub fn balance(pd: &ProverData, im: &Intermediates, e: &[Fe; 15]) -> Fe {
    let (alpha, beta, gamma) = (im.ch.alpha, im.ch.beta, im.ch.gamma);
    let r_at_z = peval(&linearisation_poly(pd, im, e), im.ch.z);
    r_at_z - alpha * alpha * im.l1_eval - alpha * (e[E_A] + beta * e[E_S1] + gamma) * (e[E_B] + beta * e[E_S2] + gamma) * (e[E_C] + beta * e[E_S3] + gamma) * (e[E_D] + gamma) * e[E_Z]
}

pub fn prove(pd: &ProverData, inst: &Instance, draws: &[Fe; 14], ver: Version, adv: &Adversary) -> Result<(Vec<u8>, Intermediates), String> {
    let n = pd.size;
    assert!(n <= 64, "M3 is restricted to n <= 64");
    if n < 4 || !n.is_power_of_two() || pd.constraints.next_power_of_two() != n {
        return Err("bad sizes".into());
    }
    if inst.wires.len() != pd.constraints {
        return Err(format!("size mismatch: instance {} rows, compiled {}", inst.wires.len(), pd.constraints));
    }
    let hook = |s: Stage, im: &mut Intermediates| {
        if let Some(h) = &adv.stage_hook {
            h(s, im);
        }
    };
    let key = &pd.commit_key;
    let mut im = Intermediates { n, draws: *draws, ..Default::default() };
    im.omega = omega_for(n);
    im.domain = domain_points(n);
    let pts = im.domain.clone();
    let w = im.omega;

    let pis = inst.pi_values();
    let mut fs = Fs::seeded(pd, &pis, ver);

    // ---- round 1: wires
    for k in 0..4 {
        let mut col = vec![zero(); n];
        for (i, row) in inst.wires.iter().enumerate() {
            col[i] = row[k];
        }
        im.wire_polys_unblinded[k] = idft(&col, &pts);
        im.wire_polys[k] = blind(&im.wire_polys_unblinded[k], &draws[2 * k..2 * k + 2], n);
        im.wire_vals[k] = col;
    }
    im.pi_dense = vec![zero(); n];
    for (r, v) in &inst.pis {
        if *r >= n {
            return Err("public input row out of range".into());
        }
        im.pi_dense[*r] = *v;
    }
    im.pi_poly = idft(&im.pi_dense, &pts);
    hook(Stage::Wires, &mut im);
    for k in 0..4 {
        im.comms[C_A + k] = commit(key, &im.wire_polys[k])?;
    }
    fs.point(b"a_comm", &im.comms[C_A]);
    fs.point(b"b_comm", &im.comms[C_B]);
    fs.point(b"c_comm", &im.comms[C_C]);
    fs.point(b"d_comm", &im.comms[C_D]);

    // ---- round 2: permutation
    im.ch.beta = fs.challenge(b"beta");
    let beta = im.ch.beta;
    fs.scalar(b"beta", &beta);
    im.ch.gamma = fs.challenge(b"gamma");
    let gamma = im.ch.gamma;
    for k in 0..4 {
        im.sigma_evals[k] = dft(&pd.sigmas[k], &pts);
    }
    let ks = [one(), fe(K1), fe(K2), fe(K3)];
    let mut zv = Vec::with_capacity(n);
    let mut acc = one();
    for i in 0..n {
        zv.push(acc);
        if i + 1 < n {
            let mut num = one();
            let mut den = one();
            for k in 0..4 {
                num *= im.wire_vals[k][i] + beta * ks[k] * pts[i] + gamma;
                den *= im.wire_vals[k][i] + beta * im.sigma_evals[k][i] + gamma;
            }
            if den == zero() {
                return Err("permutation denominator is zero".into());
            }
            acc *= num * inv(den);
        }
    }
    im.z_vec = zv;
    im.z_poly_unblinded = idft(&im.z_vec, &pts);
    im.z_poly = blind(&im.z_poly_unblinded, &draws[8..11], n);
    // An adversary betting that the verifier does not absorb z_comm knows the
    // round-3 challenges before it fixes z(X).
    let round3 = |fs: &mut Fs, im: &mut Intermediates| {
        im.ch.alpha = fs.challenge(b"alpha");
        im.ch.range_sep = fs.challenge(b"range separation challenge");
        im.ch.logic_sep = fs.challenge(b"logic separation challenge");
        im.ch.fixed_sep = fs.challenge(b"fixed base separation challenge");
        im.ch.var_sep = fs.challenge(b"variable base separation challenge");
    };
    if adv.skip_absorb_z_comm {
        round3(&mut fs, &mut im);
    }
    hook(Stage::Perm, &mut im);
    im.comms[C_Z] = commit(key, &im.z_poly)?;

    // ---- round 3: quotient
    if !adv.skip_absorb_z_comm {
        fs.point(b"z_comm", &im.comms[C_Z]);
        round3(&mut fs, &mut im);
    }
    let alpha = im.ch.alpha;
    {
        let [a, b, c, d] = &im.wire_polys;
        let aw = pshift(a, w);
        let bw = pshift(b, w);
        let dw = pshift(d, w);
        let ws = WireSet { a, b, c, d, aw: &aw, bw: &bw, dw: &dw };
        let q = &pd.selectors;
        // arithmetic + PI
        let arith_inner = sum(&[
            pmul(&pmul(a, b), &q[0]),
            pmul(a, &q[1]),
            pmul(b, &q[2]),
            pmul(c, &q[3]),
            pmul(d, &q[4]),
            q[5].clone(),
        ]);
        let mut num = padd(&pmul(&q[6], &arith_inner), &im.pi_poly);
        num = padd(&num, &pscale(&pmul(&q[7], &range_identity(&ws, im.ch.range_sep)), im.ch.range_sep));
        num = padd(&num, &pscale(&pmul(&q[8], &logic_identity(&ws, &q[5], im.ch.logic_sep)), im.ch.logic_sep));
        num = padd(&num, &pscale(&pmul(&q[9], &fixed_identity(&ws, &q[1], &q[2], &q[5], im.ch.fixed_sep)), im.ch.fixed_sep));
        num = padd(&num, &pscale(&pmul(&q[10], &var_identity(&ws, im.ch.var_sep)), im.ch.var_sep));
        // permutation
        let wires = [a, b, c, d];
        let mut id_side = im.z_poly.clone();
        let mut copy_side = pshift(&im.z_poly, w);
        for k in 0..4 {
            // wire + beta*k*X + gamma
            let f = padd(wires[k], &[gamma, beta * ks[k]]);
            id_side = pmul(&id_side, &f);
            let g = paddc(&padd(wires[k], &pscale(&pd.sigmas[k], beta)), gamma);
            copy_side = pmul(&copy_side, &g);
        }
        num = padd(&num, &pscale(&psub(&id_side, &copy_side), alpha));
        // alpha^2 * L1(X) * (z(X) - 1), L1 = (1/n)(1 + X + ... + X^(n-1))
        let l1 = vec![inv(fe(n as u64)); n];
        num = padd(&num, &pscale(&pmul(&l1, &paddc(&im.z_poly, neg1())), alpha * alpha));
        im.numerator = ptrim(&num);
    }
    let (quot, rem) = pdiv_zh(&im.numerator, n);
    im.quotient = quot;
    im.remainder = rem;
    if im.remainder.iter().any(|c| *c != zero()) {
        if !adv.drop_remainder {
            return Err("unsatisfied".into());
        }
        im.remainder_dropped = true;
    }
    {
        let mut t = im.quotient.clone();
        if t.len() < 3 * n {
            t.resize(3 * n, zero());
        }
        im.t_chunks_raw = [t[0..n].to_vec(), t[n..2 * n].to_vec(), t[2 * n..3 * n].to_vec(), t[3 * n..].to_vec()];
        let (b12, b13, b14) = (draws[11], draws[12], draws[13]);
        let mut ch = im.t_chunks_raw.clone();
        if ch[3].is_empty() {
            ch[3].push(zero());
        }
        ch[0].push(b12);
        ch[1][0] -= b12;
        ch[1].push(b13);
        ch[2][0] -= b13;
        ch[2].push(b14);
        ch[3][0] -= b14;
        im.t_chunks = ch;
    }
    hook(Stage::Quotient, &mut im);
    for k in 0..4 {
        im.comms[C_TLOW + k] = commit(key, &im.t_chunks[k])?;
    }
    fs.point(b"t_low_comm", &im.comms[C_TLOW]);
    fs.point(b"t_mid_comm", &im.comms[C_TMID]);
    fs.point(b"t_high_comm", &im.comms[C_THIGH]);
    fs.point(b"t_fourth_comm", &im.comms[C_TFOURTH]);

    // ---- round 4: evaluations
    im.ch.z = fs.challenge(b"z_challenge");
    let z = im.ch.z;
    let zw = z * w;
    {
        let q = &pd.selectors;
        let e = &mut im.evals;
        e[E_A] = peval(&im.wire_polys[0], z);
        e[E_B] = peval(&im.wire_polys[1], z);
        e[E_C] = peval(&im.wire_polys[2], z);
        e[E_D] = peval(&im.wire_polys[3], z);
        e[E_AW] = peval(&im.wire_polys[0], zw);
        e[E_BW] = peval(&im.wire_polys[1], zw);
        e[E_DW] = peval(&im.wire_polys[3], zw);
        e[E_QARITH] = peval(&q[6], z);
        e[E_QC] = peval(&q[5], z);
        e[E_QL] = peval(&q[1], z);
        e[E_QR] = peval(&q[2], z);
        e[E_S1] = peval(&pd.sigmas[0], z);
        e[E_S2] = peval(&pd.sigmas[1], z);
        e[E_S3] = peval(&pd.sigmas[2], z);
        e[E_Z] = peval(&im.z_poly, zw);
    }
    im.honest_evals = im.evals;
    im.zh_eval = fpow(z, n as u64) - one();
    im.pi_eval = peval(&im.pi_poly, z);
    im.l1_eval = peval(&vec![inv(fe(n as u64)); n], z);
    if !adv.patch_only {
        for (i, v) in &adv.eval_overrides {
            im.evals[*i] = *v;
        }
    }
    if let Some(f) = &adv.forge {
        f(&mut im);
    }
    hook(Stage::Evals, &mut im);
    for (label, idx) in EVAL_ABSORB.iter() {
        fs.scalar(label, &im.evals[*idx]);
    }

    // ---- round 5: linearisation and openings
    im.ch.v = fs.challenge(b"v_challenge");
    {
        let q = &pd.selectors;
        im.r_poly = linearisation_poly(pd, &im, &im.evals);
        // W_z
        let v = im.ch.v;
        let standard: [&[Fe]; 12] = [
            &im.r_poly,
            &im.wire_polys[0],
            &im.wire_polys[1],
            &im.wire_polys[2],
            &im.wire_polys[3],
            &pd.sigmas[0],
            &pd.sigmas[1],
            &pd.sigmas[2],
            &q[6],
            &q[5],
            &q[1],
            &q[2],
        ];
        let list: Vec<Option<usize>> = match &adv.opening_list {
            Some(l) => l.clone(),
            None => (0..12).map(Some).collect(),
        };
        let mut agg: Poly = vec![];
        let mut pw = one();
        for m in list.iter() {
            if let Some(k) = m {
                agg = padd(&agg, &pscale(standard[*k], pw));
            }
            pw *= v;
        }
        im.w_z_poly = pdiv_linear(&ptrim(&agg), z).0;
    }
    im.ch.v_w = fs.challenge(b"v_w_challenge");
    {
        let members: [&[Fe]; 4] = [&im.z_poly, &im.wire_polys[0], &im.wire_polys[1], &im.wire_polys[3]];
        let mut agg: Poly = vec![];
        let mut pw = one();
        for m in members.iter() {
            agg = padd(&agg, &pscale(m, pw));
            pw *= im.ch.v_w;
        }
        im.w_zw_poly = pdiv_linear(&ptrim(&agg), zw).0;
    }
    hook(Stage::Openings, &mut im);
    im.comms[C_WZ] = commit(key, &im.w_z_poly)?;
    im.comms[C_WZW] = commit(key, &im.w_zw_poly)?;
    fs.point(b"w_z_chall_comm", &im.comms[C_WZ]);
    fs.point(b"w_z_chall_w_comm", &im.comms[C_WZW]);
    im.ch.u = fs.challenge(b"u_challenge");

    let mut out_evals = im.evals;
    if adv.patch_only {
        for (i, v) in &adv.eval_overrides {
            out_evals[*i] = *v;
        }
    }
    Ok((serialize(&im.comms, &out_evals), im))
}

// ---------------------------------------------------------------------------
// self test: byte equality with the real prover
// ---------------------------------------------------------------------------

pub mod circuits {
    //! Small circuits shared by the M3 self test and C06.
    use crate::c05::{family_assignment, merged_row, solve_pis, Fam};
    use crate::fe::*;
    use crate::prog::Prog;
    use crate::rows::{self, Assign, Layout, Place};
    use dusk_plonk::prelude::*;

    /// arithmetic circuit with two public inputs, 8 constraints (n = 8)
    pub fn arith(x: u64, y: u64) -> Prog {
        Prog::new(move |c| {
            let a = c.append_witness(fe(x));
            let b = c.append_witness(fe(y));
            // a*b + 3a + 5b + 7 + pi = 0 ... pi chosen public
            let s = c.gate_add(Constraint::new().left(1).right(1).a(a).b(b));
            let p = c.gate_mul(Constraint::new().mult(1).a(a).b(b));
            let pi1 = -(fe(x) + fe(y) + fe(2) * fe(x) * fe(y));
            c.append_gate(Constraint::new().left(1).fourth(2).a(s).d(p).public(pi1));
            let pi2 = -(fe(3) * fe(x) + fe(9));
            c.append_gate(Constraint::new().left(3).constant(9).a(a).public(pi2));
            Ok(())
        })
    }
    /// range gadget (2 * pairs bits)
    pub fn range(x: u64) -> Prog {
        Prog::new(move |c| {
            let a = c.append_witness(fe(x));
            c.component_range_bits::<8>(a);
            Ok(())
        })
    }
    /// logic rows (AND then XOR, each with its next row), 8 constraints.
    /// (The public `append_logic_*` gadget needs ~170 rows per operand binding
    /// and does not fit n <= 64, so the widget rows are laid out directly.)
    pub fn logic(variant: usize) -> Prog {
        let lay = Layout {
            rows: vec![merged_row(&[Fam::And]), rows::RowSpec::zero(), merged_row(&[Fam::Xor]), rows::RowSpec::zero()],
            share: vec![],
            place: Place::First,
        };
        let (c1, n1) = family_assignment(Fam::And, variant);
        let (c2, n2) = family_assignment(Fam::Xor, variant + 1);
        rows::prog(&lay, &Assign::new(vec![c1, n1, c2, n2], vec![zero(); 4]))
    }
    /// component_add_point on two constant points
    pub fn add_point(k1: u64, k2: u64) -> Prog {
        Prog::new(move |c| {
            let p = c.append_constant_point(crate::c05::gen_mul(k1))?;
            let q = c.append_constant_point(crate::c05::gen_mul(k2))?;
            let s = c.component_add_point(p, q);
            c.assert_equal_public_point(s.into(), crate::c05::gen_mul(k1 + k2))?;
            Ok(())
        })
    }
    /// all five widget families on raw rows + arithmetic/PI rows, placed so that
    /// the circuit has exactly `total` constraints (power of two)
    pub fn mixed_layout(total: usize) -> (Layout, Vec<Assign>) {
        let fams = [Fam::Range, Fam::And, Fam::Xor, Fam::Fixed, Fam::Var];
        let mut rows_ = Vec::new();
        for f in fams {
            rows_.push(merged_row(&[f]));
            rows_.push(rows::RowSpec::zero());
        }
        rows_.push(merged_row(&[Fam::Arith]));
        rows_.push(merged_row(&[Fam::Arith, Fam::Range]));
        let lay = Layout { rows: rows_, share: vec![], place: Place::LastOfFull(total) };
        let mut asgs = Vec::new();
        for v in [1usize, 2] {
            let mut vals = Vec::new();
            for f in fams {
                let (cur, next) = family_assignment(f, v);
                vals.push(cur);
                vals.push(next);
            }
            vals.push([fe(2 + v as u64), fe(3), fe(5), fe(7)]);
            // arith + range on the last row of the full domain: next row is row 0 (all zero)
            let (cur, _) = family_assignment(Fam::Range, 0);
            vals.push(cur);
            let n = vals.len();
            let mut a = Assign::new(vals, vec![zero(); n]);
            solve_pis(&lay, &mut a);
            asgs.push(a);
        }
        (lay, asgs)
    }
    pub fn mixed(total: usize, variant: usize) -> Prog {
        let (lay, asgs) = mixed_layout(total);
        rows::prog(&lay, &asgs[variant % asgs.len()])
    }
}

/// Distinct non-zero draws.
pub fn base_draws(stream: u64) -> [Fe; 14] {
    let mut rho = Rho::new(seed(), 3000 + stream);
    let mut d = [zero(); 14];
    for x in d.iter_mut() {
        let mut v = rho.next_fe();
        while v == zero() {
            v = rho.next_fe();
        }
        *x = v;
    }
    d
}

/// Real prover under a scripted RNG; (proof bytes, public inputs, rng calls).
pub fn real_prove(
    prover: &dusk_plonk::prelude::Prover,
    prog: &crate::prog::Prog,
    draws: &[Fe; 14],
    ver: Version,
) -> Result<(Vec<u8>, Vec<Fe>, Vec<crate::rng::Call>), String> {
    real_prove_faulty(prover, prog, draws, ver, &[])
}

/// As `real_prove`, with entropy outages of the RNG's fallible interface.
pub fn real_prove_faulty(
    prover: &dusk_plonk::prelude::Prover,
    prog: &crate::prog::Prog,
    draws: &[Fe; 14],
    ver: Version,
    faults: &[(usize, usize)],
) -> Result<(Vec<u8>, Vec<Fe>, Vec<crate::rng::Call>), String> {
    use dusk_plonk::prelude::PlonkVersion;
    let mut rng = crate::rng::ScriptedRng::new(draws.to_vec());
    rng.faults = faults.to_vec();
    let pv = match ver {
        Version::V2 => PlonkVersion::V2,
        Version::V3 => PlonkVersion::V3,
    };
    let r = prover.prove_with_version(&mut rng, prog, pv).map_err(|e| format!("{:?}", e))?;
    Ok((r.0.to_bytes().to_vec(), r.1, rng.calls))
}

pub fn selftest() -> Result<(), String> {
    use dusk_plonk::prelude::Compiler;
    // 64 constraints need capacity (64 + padding).next_power_of_two() = 128
    let pp = crate::setup::pp(128);
    let cases: Vec<(&str, crate::prog::Prog, crate::prog::Prog)> = vec![
        ("arith", circuits::arith(3, 4), circuits::arith(11, 6)),
        ("range", circuits::range(0), circuits::range(201)),
        ("logic", circuits::logic(0), circuits::logic(1)),
        ("add_point", circuits::add_point(2, 9), circuits::add_point(2, 9)),
        ("mixed32", circuits::mixed(32, 0), circuits::mixed(32, 1)),
        ("mixed64", circuits::mixed(64, 0), circuits::mixed(64, 1)),
    ];
    for (name, compile_prog, inst_prog) in cases {
        let (prover, verifier) = Compiler::compile_with_circuit(&pp, b"m3-selftest", &compile_prog).map_err(|e| format!("{}: compile {:?}", name, e))?;
        let pd = parse_prover(&prover.to_bytes()).map_err(|e| format!("{}: parse {}", name, e))?;
        for (si, ver) in [(0u64, Version::V3), (1, Version::V2)] {
            let draws = base_draws(si);
            let (real, pis, _) = real_prove(&prover, &inst_prog, &draws, ver).map_err(|e| format!("{}: real prover {}", name, e))?;
            let snap = inst_prog.last_snapshot().ok_or("no snapshot")?;
            let inst = Instance::from_snapshot(&snap);
            if inst.pi_values() != pis {
                return Err(format!("{}: public inputs differ", name));
            }
            let (mine, im) = prove(&pd, &inst, &draws, ver, &Adversary::default()).map_err(|e| format!("{}: m3 {}", name, e))?;
            if mine != real {
                let field = (0..26)
                    .find(|k| {
                        let (o, l) = if *k < 11 { (k * 48, 48) } else { (528 + (k - 11) * 32, 32) };
                        mine[o..o + l] != real[o..o + l]
                    })
                    .unwrap();
                return Err(format!("{}/{:?}: first differing proof field #{} (n={})", name, ver, field, im.n));
            }
            // the challenges re-derived from the bytes are the prover's
            let ch = challenges_from_proof(&pd, &decode_proof(&real)?, &pis, ver);
            if ch != im.ch {
                return Err(format!("{}: challenges re-derived from the proof differ from the prover's", name));
            }
            if ver == Version::V3 {
                let proof = <dusk_plonk::prelude::Proof as Serializable<1008>>::from_bytes(&mine.clone().try_into().unwrap()).map_err(|e| format!("{:?}", e))?;
                verifier.verify(&proof, &pis).map_err(|e| format!("{}: M3 proof rejected {:?}", name, e))?;
            }
        }
    }
    Ok(())
}

#[cfg(test)]
mod tests {
    use super::*;
    use dusk_plonk::prelude::{Compiler, Proof};

    fn verify(v: &dusk_plonk::prelude::Verifier, bytes: &[u8], pis: &[Fe]) -> bool {
        let arr: [u8; 1008] = bytes.to_vec().try_into().unwrap();
        match <Proof as Serializable<1008>>::from_bytes(&arr) {
            Ok(p) => v.verify(&p, pis).is_ok(),
            Err(_) => false,
        }
    }

    #[test]
    fn selftest_passes() {
        selftest().unwrap();
    }

    #[test]
    fn adversary_paths() {
        let pp = crate::setup::pp(64);
        let prog = circuits::arith(3, 4);
        let (prover, verifier) = Compiler::compile_with_circuit(&pp, b"m3-adv", &prog).unwrap();
        let pd = parse_prover(&prover.to_bytes()).unwrap();
        let inst = Instance::from_snapshot(&prog.last_snapshot().unwrap());
        let pis = inst.pi_values();
        let draws = base_draws(7);
        let (honest, im) = prove(&pd, &inst, &draws, Version::V3, &Adversary::default()).unwrap();
        assert!(verify(&verifier, &honest, &pis));
        assert!(im.remainder.iter().all(|c| *c == zero()));
        // unsatisfied instance
        let mut bad = inst.clone();
        bad.wires[5][0] += one();
        assert_eq!(prove(&pd, &bad, &draws, Version::V3, &Adversary::default()).err().unwrap(), "unsatisfied");
        let (forced, im2) = prove(&pd, &bad, &draws, Version::V3, &Adversary { drop_remainder: true, ..Default::default() }).unwrap();
        assert!(im2.remainder_dropped);
        assert!(!verify(&verifier, &forced, &pis));
        // patched evaluation only
        let adv = Adversary { eval_overrides: vec![(E_A, fe(5))], patch_only: true, ..Default::default() };
        let (patched, _) = prove(&pd, &inst, &draws, Version::V3, &adv).unwrap();
        let off = 528 + E_A * 32;
        assert_eq!(patched[..off], honest[..off]);
        assert_eq!(patched[off + 32..], honest[off + 32..]);
        assert_ne!(patched[off..off + 32], honest[off..off + 32]);
        assert!(!verify(&verifier, &patched, &pis));
        // override absorbed: openings follow
        let adv = Adversary { eval_overrides: vec![(E_A, fe(5))], ..Default::default() };
        let (forged, im3) = prove(&pd, &inst, &draws, Version::V3, &adv).unwrap();
        assert_ne!(im3.ch.v, im.ch.v);
        assert_ne!(forged[C_WZ * 48..C_WZ * 48 + 48], honest[C_WZ * 48..C_WZ * 48 + 48]);
        assert!(!verify(&verifier, &forged, &pis));
        // stage hook sees every stage
        let seen = std::sync::Arc::new(Mutex::new(vec![]));
        let s2 = seen.clone();
        let adv = Adversary { stage_hook: Some(Box::new(move |st, _| s2.lock().unwrap().push(st))), ..Default::default() };
        let (again, _) = prove(&pd, &inst, &draws, Version::V3, &adv).unwrap();
        assert_eq!(again, honest);
        assert_eq!(*seen.lock().unwrap(), vec![Stage::Wires, Stage::Perm, Stage::Quotient, Stage::Evals, Stage::Openings]);
    }
}
