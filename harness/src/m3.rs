//! m3 — reference model (to be written)
