//! C17 — checked decoders are total, bounded and admit only well-formed data
//! (fault enumeration, engine E3).
//!
//! The parent enumerates the cases, runs them in child processes of the same
//! binary (`VP_C17_SHARD` selects the shard) under a wall-clock watchdog, and
//! attributes a crashed / killed child to a single case by re-running it alone.

use std::collections::BTreeMap;
use std::io::{BufRead, BufReader, Read, Write};
use std::process::{Command, Stdio};
use std::sync::atomic::{AtomicBool, Ordering};
use std::sync::mpsc;
use std::sync::Mutex;
use std::time::{Duration, Instant};

use serde_json::{json, Value};

use crate::ev::{Run, Tier};
use crate::fe::fnv;

#[path = "c17_alloc.rs"]
pub mod alloc;
#[path = "c17_cases.rs"]
pub mod cases;
#[path = "c17_exec.rs"]
pub mod exec;
#[path = "c17_fmt.rs"]
pub mod fmt;
#[path = "c17_mp.rs"]
pub mod mp;
#[path = "c17_world.rs"]
pub mod world;

use cases::{apply, Case, Plan};
use exec::{Limits, Res};
use fmt::Class;
use world::World;

const SHARD_ENV: &str = "VP_C17_SHARD";
/// a case (decode + acceptance side) still running after this is killed and re-run alone
const CASE_KILL: Duration = Duration::from_secs(30);
/// a child that has not reported anything yet (building its world) gets this long
const STARTUP_KILL: Duration = Duration::from_secs(180);

fn case_kill() -> Duration {
    std::env::var("VP_C17_CASE_KILL_S").ok().and_then(|s| s.parse().ok()).map(Duration::from_secs).unwrap_or(CASE_KILL)
}

fn hex(b: &[u8]) -> String {
    let mut s = String::with_capacity(b.len() * 2);
    for x in b {
        s.push_str(&format!("{:02x}", x));
    }
    s
}
fn unhex(s: &str) -> Vec<u8> {
    (0..s.len() / 2).map(|i| u8::from_str_radix(&s[2 * i..2 * i + 2], 16).unwrap_or(0)).collect()
}

// ------------------------------------------------------------------ child

fn child(tier: Tier, spec: &str) -> i32 {
    exec::install_recording_hook();
    let w = World::build(tier);
    let lim = Limits::measure(&w);
    let pool = rayon::ThreadPoolBuilder::new().num_threads(1).build().expect("pool");
    let out = std::io::stdout();
    let parts: Vec<&str> = spec.split(':').collect();
    if parts[0] == "replay" {
        let path = spec.splitn(2, ':').nth(1).unwrap_or("");
        let v: Value = serde_json::from_str(&std::fs::read_to_string(path).expect("replay file")).expect("replay json");
        let case = if v.get("case").is_some() { &v["case"] } else { &v };
        let class = Class::all().into_iter().find(|c| c.name() == case["class"].as_str().unwrap_or("")).expect("class");
        let circ = w.circs.iter().position(|c| Some(c.name) == case["circuit"].as_str()).unwrap_or(0);
        let bytes = unhex(case["input_hex"].as_str().expect("input_hex"));
        let section = case["section"].as_str().unwrap_or("whole").to_string();
        let fam = case["family"].as_str().unwrap_or("replay").to_string();
        writeln!(out.lock(), "B 0").ok();
        let r = pool.install(|| exec::run_bytes(&w, &lim, class, circ, &bytes, &section, &fam));
        writeln!(out.lock(), "E 0 {}", r.to_json()).ok();
        return 0;
    }
    let plan = cases::enumerate(&w);
    writeln!(out.lock(), "W {} {} {}", w.fingerprint, plan.cases.len(), lim.to_json()).ok();
    let sel: Vec<usize> = match parts[0] {
        "mod" => {
            let (i, n, from): (usize, usize, usize) = (parts[1].parse().unwrap(), parts[2].parse().unwrap(), parts[3].parse().unwrap());
            (from..plan.cases.len()).filter(|k| k % n == i).collect()
        }
        "one" => vec![parts[1].parse().unwrap()],
        _ => {
            eprintln!("bad shard spec {}", spec);
            return 2;
        }
    };
    let test_hang: Option<usize> = std::env::var("VP_C17_TEST_HANG").ok().and_then(|s| s.parse().ok());
    pool.install(|| {
        for k in sel {
            writeln!(out.lock(), "B {}", k).ok();
            if test_hang == Some(k) {
                // self-test hook for the watchdog path
                loop {
                    std::thread::sleep(Duration::from_secs(1));
                }
            }
            let r = exec::run_case(&w, &lim, &plan.cases[k]);
            writeln!(out.lock(), "E {} {}", k, r.to_json()).ok();
        }
    });
    0
}

// ------------------------------------------------------------------ parent

struct ChildRun {
    /// results by case index
    done: Vec<(usize, Res)>,
    /// case begun but not finished when the child ended
    pending: Option<usize>,
    header: Option<(u64, usize, Value)>,
    /// "exit", "killed:hang", "killed:deadline", "crash:<status>"
    end: String,
    stderr_tail: String,
}

fn run_child(tier: Tier, spec: &str, deadline: Instant, stop: &AtomicBool, mut sink: impl FnMut(usize, Res)) -> ChildRun {
    let exe = std::env::current_exe().expect("current exe");
    let mut ch = Command::new(exe)
        .args(["C17", tier.name()])
        .env(SHARD_ENV, spec)
        .env("VERIF_WORKERS", "1")
        .stdin(Stdio::null())
        .stdout(Stdio::piped())
        .stderr(Stdio::piped())
        .spawn()
        .expect("spawn child");
    let so = ch.stdout.take().unwrap();
    let se = ch.stderr.take().unwrap();
    let (tx, rx) = mpsc::channel::<String>();
    let rd = std::thread::spawn(move || {
        for line in BufReader::new(so).lines() {
            match line {
                Ok(l) => {
                    if tx.send(l).is_err() {
                        break;
                    }
                }
                Err(_) => break,
            }
        }
    });
    let errd = std::thread::spawn(move || {
        let mut s = Vec::new();
        let _ = BufReader::new(se).read_to_end(&mut s);
        let s = String::from_utf8_lossy(&s).to_string();
        let n = s.len();
        s[n.saturating_sub(1500)..].to_string()
    });
    let mut out = ChildRun { done: vec![], pending: None, header: None, end: String::new(), stderr_tail: String::new() };
    let mut begun = Instant::now();
    let mut killed: Option<&'static str> = None;
    loop {
        match rx.recv_timeout(Duration::from_millis(100)) {
            Ok(l) => {
                if let Some(rest) = l.strip_prefix("B ") {
                    out.pending = rest.trim().parse().ok();
                    begun = Instant::now();
                } else if let Some(rest) = l.strip_prefix("E ") {
                    let mut it = rest.splitn(2, ' ');
                    let k: usize = it.next().and_then(|s| s.parse().ok()).unwrap_or(usize::MAX);
                    let r = it.next().and_then(|s| serde_json::from_str::<Value>(s).ok()).and_then(|v| Res::from_json(&v));
                    if let Some(r) = r {
                        if out.pending == Some(k) {
                            out.pending = None;
                        }
                        sink(k, r.clone());
                        out.done.push((k, r));
                    }
                } else if let Some(rest) = l.strip_prefix("W ") {
                    let mut it = rest.splitn(3, ' ');
                    let fp = it.next().and_then(|s| s.parse().ok()).unwrap_or(0);
                    let n = it.next().and_then(|s| s.parse().ok()).unwrap_or(0);
                    let lim = it.next().and_then(|s| serde_json::from_str(s).ok()).unwrap_or(Value::Null);
                    out.header = Some((fp, n, lim));
                    begun = Instant::now();
                }
            }
            Err(mpsc::RecvTimeoutError::Timeout) => {
                if killed.is_none() {
                    if Instant::now() > deadline || stop.load(Ordering::Relaxed) {
                        let _ = ch.kill();
                        killed = Some("killed:deadline");
                    } else if begun.elapsed() > if out.header.is_none() && out.done.is_empty() && out.pending.is_none() { STARTUP_KILL } else { case_kill() } {
                        let _ = ch.kill();
                        killed = Some("killed:hang");
                    }
                }
            }
            Err(mpsc::RecvTimeoutError::Disconnected) => break,
        }
    }
    let st = ch.wait();
    let _ = rd.join();
    out.stderr_tail = errd.join().unwrap_or_default();
    out.end = match (killed, st) {
        (Some(k), _) => k.to_string(),
        (None, Ok(s)) if s.success() => "exit".into(),
        (None, Ok(s)) => format!("crash:{}", s),
        (None, Err(e)) => format!("crash:{}", e),
    };
    out
}

struct Shared {
    results: Mutex<Vec<Option<Res>>>,
    notes: Mutex<Vec<String>>,
    header: Mutex<Option<(u64, usize, Value)>>,
    capped: AtomicBool,
}

fn manage_shard(tier: Tier, i: usize, n: usize, total: usize, deadline: Instant, sh: &Shared) {
    let mut from = 0usize;
    let mut restarts = 0;
    let mut confirmed = 0;
    let stop = &sh.capped;
    loop {
        if (from..total).all(|k| k % n != i) {
            return;
        }
        let cr = run_child(tier, &format!("mod:{}:{}:{}", i, n, from), deadline, stop, |k, r| {
            sh.results.lock().unwrap()[k] = Some(r);
        });
        if let Some(h) = &cr.header {
            let mut g = sh.header.lock().unwrap();
            match &*g {
                None => *g = Some(h.clone()),
                Some(prev) if prev.0 != h.0 || prev.1 != h.1 => sh.notes.lock().unwrap().push(format!("children disagree on the world: {:?} vs {:?}", (prev.0, prev.1), (h.0, h.1))),
                _ => {}
            }
        }
        if std::env::var("VP_C17_VERBOSE").is_ok() {
            eprintln!("[c17] shard {} child from {} ended {} after {} cases", i, from, cr.end, cr.done.len());
        }
        if cr.end == "exit" && cr.pending.is_none() {
            return;
        }
        if cr.end == "killed:deadline" {
            sh.capped.store(true, Ordering::Relaxed);
            return;
        }
        let Some(k) = cr.pending else {
            sh.notes.lock().unwrap().push(format!("shard {} child ended ({}) outside a case; stderr: {}", i, cr.end, cr.stderr_tail));
            restarts += 1;
            if restarts > 3 {
                return;
            }
            // resume after the last finished case
            from = cr.done.iter().map(|d| d.0 + 1).max().unwrap_or(from);
            continue;
        };
        // a child runs its cases one at a time, so the pending case is the culprit; the first
        // crashes of a shard are additionally re-run alone to confirm reproducibility
        confirmed += 1;
        if confirmed > 2 {
            let mut r = Res::default();
            r.outcome = if cr.end == "killed:hang" { "hang".into() } else { "abort".into() };
            r.err = format!("{} (not re-run alone); stderr: {}", cr.end, cr.stderr_tail.replace('\n', " | "));
            r.nontrivial = true;
            sh.results.lock().unwrap()[k] = Some(r);
            from = k + 1;
            continue;
        }
        let mut got = None;
        let alone = run_child(tier, &format!("one:{}", k), deadline, stop, |_, r| got = Some(r));
        let res = match got {
            Some(r) if alone.end == "exit" => {
                sh.notes.lock().unwrap().push(format!("case {} ended its shard ({}) but completed when run alone; stderr: {}", k, cr.end, cr.stderr_tail));
                r
            }
            _ => {
                let hang = alone.end == "killed:hang";
                let mut r = Res::default();
                r.outcome = if hang { "hang".into() } else { "abort".into() };
                r.err = format!("{} / alone: {}; stderr: {}", cr.end, alone.end, alone.stderr_tail.replace('\n', " | "));
                r.nontrivial = true;
                r
            }
        };
        sh.results.lock().unwrap()[k] = Some(res);
        from = k + 1;
    }
}

fn case_json(w: &World, c: &Case, r: &Res) -> Value {
    let o = &w.objs[c.obj];
    let bytes = match &c.m {
        cases::Mut::Bomb { zeros, .. } if *zeros > (1 << 22) => vec![],
        m => apply(&o.bytes, m),
    };
    json!({
        "class": o.class.name(), "object": o.name, "circuit": w.circs[o.circ].name,
        "family": c.fam, "operator": c.op, "position": c.pos, "section": c.section,
        "mutation": format!("{:.200}", format!("{:?}", match &c.m { cases::Mut::Whole(_) => &cases::Mut::None, m => m })),
        "outcome": r.outcome, "error": r.err, "peak_bytes": r.peak, "decode_us": r.us, "use": r.use_,
        "input_len": bytes.len(), "input_hex": hex(&bytes),
    })
}

fn final_sig(w: &World, c: &Case, r: &Res) -> String {
    // abort / hang found by the parent: signature from the own diagnosis of the input
    let o = &w.objs[c.obj];
    let bytes = match &c.m {
        cases::Mut::Bomb { .. } => vec![],
        m => apply(&o.bytes, m),
    };
    match exec::diagnose(w, o.class, &bytes) {
        Some((sec, kind)) if kind != "structure" && kind != "inflate" && !bytes.is_empty() => format!("{}/{}/{}/{}", o.class.name(), sec, kind, r.outcome),
        _ => format!("{}/{}/{}/{}", o.class.name(), c.section, c.fam, r.outcome),
    }
}

fn replay(tier: Tier, path_json: Value) -> i32 {
    let mut run = Run::new("C17", tier, "fault_enumeration");
    run.set_replay_mode();
    let tmp = std::env::temp_dir().join(format!("c17-replay-{}.json", std::process::id()));
    std::fs::write(&tmp, serde_json::to_string(&path_json).unwrap()).expect("write replay temp");
    let stop = AtomicBool::new(false);
    let mut obs = vec![];
    for _ in 0..2 {
        let mut got = None;
        let cr = run_child(tier, &format!("replay:{}", tmp.display()), Instant::now() + Duration::from_secs(120), &stop, |_, r| got = Some(r));
        let r = match got {
            Some(r) if cr.end == "exit" => r,
            _ => {
                let mut r = Res::default();
                r.outcome = if cr.end == "killed:hang" { "hang".into() } else { "abort".into() };
                r.err = format!("{}; stderr: {}", cr.end, cr.stderr_tail.replace('\n', " | "));
                r.viol.push((path_json["signature"].as_str().unwrap_or("replay/abort").to_string(), r.err.clone()));
                r
            }
        };
        obs.push(r);
    }
    let _ = std::fs::remove_file(&tmp);
    println!("replay: outcome={} error={} use={} violations={:?}", obs[0].outcome, obs[0].err, obs[0].use_, obs[0].viol);
    if obs[0].stable() != obs[1].stable() {
        run.machinery(format!("replay diverged: {} vs {}", obs[0].stable(), obs[1].stable()));
    }
    for (sig, what) in &obs[0].viol {
        run.violation(sig, what, path_json.get("case").cloned().unwrap_or(Value::Null));
    }
    run.finish()
}

pub fn main(tier: Tier, replay_file: Option<Value>) -> i32 {
    if let Ok(spec) = std::env::var(SHARD_ENV) {
        return child(tier, &spec);
    }
    if let Some(v) = replay_file {
        return replay(tier, v);
    }
    let mut run = Run::new("C17", tier, "fault_enumeration");
    run.rule = "cases = fault operators (bit flips, length/count-field edits, consistent resizes, truncation/extension, splices and swaps, hand-built invalid scalars / G1 / G2 / raw points, re-packed MessagePack payloads, deflate bombs; depth 2 on integer fields in thorough) over valid encodings produced by the real code; every case runs the real checked decoder in a child process under catch_unwind, a counting allocator and a watchdog; every accepted value is re-encoded, re-parsed by an own strict parser and used (prove / verify / compile). non-trivial = distinct (object class, operator, position class) whose input got past the decoder's first length check (compressed circuits: inflated and structurally parsed)".into();
    if let Err(e) = fmt::self_test() {
        run.machinery(format!("self test of the strict parser / invalid elements: {}", e));
        return run.finish();
    }
    let verbose = std::env::var("VP_C17_VERBOSE").is_ok();
    let t0 = Instant::now();
    let w = World::build(tier);
    let plan: Plan = cases::enumerate(&w);
    let total = plan.cases.len();
    if verbose {
        eprintln!("[c17] world + {} cases enumerated at {:?}", total, t0.elapsed());
    }
    // vacuity: the strict parser accepts every unmutated valid encoding; the allocator sees valid decodes
    for o in &w.objs {
        if let Some(d) = exec::diagnose(&w, o.class, &o.bytes) {
            run.machinery(format!("strict parser rejects the valid encoding {}: {:?}", o.name, d));
        }
    }
    let lim = Limits::measure(&w);
    // Proof::from_bytes works on the stack: no heap allocation is expected there
    run.gate(
        "counting allocator observed a non-zero peak for the valid decodes of every allocating class",
        Class::all().iter().all(|c| *c == Class::Proof || lim.peak[exec::ci(*c)] > 0),
    );
    run.states = w.objs.len() as u64;

    let n = crate::par::workers();
    let budget = match tier {
        Tier::Quick => 100,
        Tier::Thorough => 24 * 60,
    };
    let budget = std::env::var("VP_C17_BUDGET_S").ok().and_then(|s| s.parse().ok()).unwrap_or(budget);
    let deadline = Instant::now() + Duration::from_secs(budget);
    let sh = Shared { results: Mutex::new(vec![None; total]), notes: Mutex::new(vec![]), header: Mutex::new(None), capped: AtomicBool::new(false) };
    std::thread::scope(|s| {
        for i in 0..n {
            let sh = &sh;
            s.spawn(move || manage_shard(tier, i, n, total, deadline, sh));
        }
    });
    if verbose {
        eprintln!("[c17] children done at {:?}", t0.elapsed());
    }
    for note in sh.notes.lock().unwrap().iter() {
        run.machinery(note.clone());
    }
    match &*sh.header.lock().unwrap() {
        Some((fp, cnt, _)) => {
            if *fp != w.fingerprint || *cnt != total {
                run.machinery(format!("parent and children enumerate different worlds: fingerprint {} vs {}, cases {} vs {}", w.fingerprint, fp, total, cnt));
            }
        }
        None => run.machinery("no child reported its world".into()),
    }
    if sh.capped.load(Ordering::Relaxed) {
        run.capped = Some(format!("wall budget of {} s reached", budget));
    }

    // ---- aggregate
    let results = sh.results.into_inner().unwrap();
    let mut accepted_mut: BTreeMap<&'static str, u64> = BTreeMap::new();
    let mut rejected_fam: BTreeMap<(String, &'static str), u64> = BTreeMap::new();
    let mut fams: BTreeMap<(String, &'static str), u64> = BTreeMap::new();
    let mut errors: BTreeMap<String, u64> = BTreeMap::new();
    let mut uses: BTreeMap<String, u64> = BTreeMap::new();
    let mut per_fam: BTreeMap<String, u64> = BTreeMap::new();
    let mut missing = 0u64;
    let mut max_peak = [0usize; 5];
    let mut max_us = [0u64; 5];
    let mut sample_keys = std::collections::HashSet::new();
    for (k, c) in plan.cases.iter().enumerate() {
        let o = &w.objs[c.obj];
        let cn = o.class.name();
        let Some(r) = &results[k] else {
            missing += 1;
            continue;
        };
        run.evaluations += 1;
        run.transitions += 1;
        *per_fam.entry(format!("{}:{}", cn, c.fam)).or_insert(0) += 1;
        let over = r.viol.iter().any(|v| v.0.ends_with("/overalloc"));
        let slow = r.viol.iter().any(|v| v.0.ends_with("/hang"));
        let label = if r.outcome == "abort" || r.outcome == "hang" || r.outcome == "panic" {
            r.outcome.as_str()
        } else if slow {
            "hang"
        } else if over {
            "overalloc"
        } else {
            r.outcome.as_str()
        };
        run.outcome(&format!("{}:{}", cn, label));
        if r.outcome == "err" {
            *errors.entry(format!("{}:{}", cn, r.err)).or_insert(0) += 1;
        }
        if r.accepted {
            run.traces_validated += 1;
            *uses.entry(format!("{}:{}", cn, r.use_)).or_insert(0) += 1;
        }
        max_peak[exec::ci(o.class)] = max_peak[exec::ci(o.class)].max(r.peak);
        max_us[exec::ci(o.class)] = max_us[exec::ci(o.class)].max(r.us);
        if r.nontrivial {
            run.nontrivial(fnv(format!("{}|{}|{}|{}", cn, c.fam, c.op, c.pos).as_bytes()));
        }
        if c.fam == "baseline" {
            let good = r.outcome == "ok" && r.strict_ok && r.viol.is_empty() && (r.use_.ends_with("verified") || r.use_.starts_with("verify-ok"));
            if !good {
                run.machinery(format!("valid encoding {} did not pass cleanly: {:?}", o.name, r));
            }
        } else {
            *fams.entry((cn.to_string(), c.fam)).or_insert(0) += 1;
            if r.outcome == "ok" {
                *accepted_mut.entry(cn).or_insert(0) += 1;
            }
            if r.outcome == "err" {
                *rejected_fam.entry((cn.to_string(), c.fam)).or_insert(0) += 1;
            }
        }
        if r.outcome == "abort" || r.outcome == "hang" {
            let sig = final_sig(&w, c, r);
            run.violation(&sig, &format!("child process {} while decoding case {} ({} {} at {}): {}", r.outcome, k, c.fam, c.op, c.pos, r.err), case_json(&w, c, r));
        }
        for (sig, what) in &r.viol {
            run.violation(sig, &format!("{} [case {}: {} {} {} at {}]", what, k, o.name, c.fam, c.op, c.pos), case_json(&w, c, r));
        }
        let sk = format!("{}:{}:{}", cn, c.fam, r.outcome);
        if run.samples.len() < 12 && c.fam != "baseline" && sample_keys.insert(sk) && (k % 7 == 3 || r.outcome == "ok") {
            run.sample(json!({"object": o.name, "family": c.fam, "operator": c.op, "position": c.pos, "outcome": r.outcome, "error": r.err, "use": r.use_, "peak_bytes": r.peak, "decode_us": r.us}));
        }
    }
    if let Ok(path) = std::env::var("VP_C17_DUMP") {
        let mut f = std::io::BufWriter::new(std::fs::File::create(path).expect("dump file"));
        for (k, c) in plan.cases.iter().enumerate() {
            if let Some(r) = &results[k] {
                let _ = writeln!(f, "{}", json!({"k": k, "obj": w.objs[c.obj].name, "fam": c.fam, "op": c.op, "pos": c.pos, "r": r.to_json()}));
            }
        }
    }
    if missing > 0 && run.capped.is_none() {
        run.machinery(format!("{} cases have no result", missing));
    }
    // ---- vacuity gates
    if run.capped.is_none() {
        for class in Class::all() {
            run.gate(&format!("{}: >=1 mutated input accepted", class.name()), accepted_mut.get(class.name()).copied().unwrap_or(0) > 0);
        }
        for ((cn, fam), _) in fams.iter() {
            run.gate(&format!("{}: >=1 input of operator family {} rejected", cn, fam), rejected_fam.get(&(cn.clone(), *fam)).copied().unwrap_or(0) > 0);
        }
    }
    if verbose {
        eprintln!("[c17] aggregated at {:?}", t0.elapsed());
    }
    // ---- evidence
    run.exhaustive = false;
    run.bound("cases", json!(total));
    run.bound("fault_depth", json!(tier.pick(1, 2)));
    run.bound("objects", json!(w.objs.iter().map(|o| json!({"name": o.name, "bytes": o.bytes.len(), "fields": o.fields.len()})).collect::<Vec<_>>()));
    run.bound("public_parameters_points", json!(71));
    run.bound("compressed_max_constraints", json!(w.max_constraints));
    run.bound("alloc_bound_bytes", json!(Class::all().iter().map(|c| (c.name().to_string(), lim.alloc_bound(*c))).collect::<BTreeMap<_, _>>()));
    run.bound("time_bound_us", json!(Class::all().iter().map(|c| (c.name().to_string(), lim.time_bound_us(*c))).collect::<BTreeMap<_, _>>()));
    run.extra.insert("enumeration_coverage".into(), json!(plan.coverage));
    run.extra.insert("cases_per_class_and_family".into(), json!(per_fam));
    run.extra.insert("error_kinds".into(), json!(errors));
    run.extra.insert("use_outcomes".into(), json!(uses));
    run.extra.insert("valid_decode_peak_bytes".into(), json!(lim.peak));
    run.extra.insert("valid_decode_slowest_us".into(), json!(lim.slow_us));
    run.extra.insert("max_observed_peak_bytes".into(), json!(max_peak));
    run.extra.insert("max_observed_decode_us".into(), json!(max_us));
    run.extra.insert("child_processes".into(), json!(n));
    run.assumptions = vec![
        "the own strict parser (c17_fmt.rs / c17_mp.rs) states what a well-formed encoding is; it trusts dusk-bls12_381's is_on_curve / is_torsion_free / from_compressed_unchecked and own integer comparisons against hard-coded moduli (self-tested against the library at start-up)".into(),
        "exhaustive only where enumeration_coverage says so; bulk data of large prover encodings is strided (every offset residue mod 32 and mod 97, every bit position)".into(),
        "allocation bound: 2 x peak of the largest valid decode of the class + 1 MiB (compressed circuits: largest valid description at the capacity of the 71-point parameters); time bound: 10 x slowest valid decode + 1 s; a request beyond 1 GiB is refused so that the child aborts instead of exhausting the machine".into(),
        "the rkyv archives are out of scope (feature off); CommitKey / OpeningKey are not exported, they are reached through Prover::try_from_bytes, Verifier::try_from_bytes and PublicParameters::from_slice".into(),
    ];
    run.finish()
}
