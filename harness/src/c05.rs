//! C05 — prover exactness: raw-row layouts x assignments, real prover vs M1.

use dusk_jubjub::{JubJubAffine, JubJubExtended, GENERATOR_EXTENDED};
use serde_json::json;

use crate::ev::{Run, Tier};
use crate::fe::*;
use crate::m1::{self, *};
use crate::rows::*;

#[derive(Clone, Copy, Debug, PartialEq, Eq, Hash)]
pub enum Fam {
    Arith,
    Range,
    And,
    Xor,
    Fixed,
    Var,
}
pub const CUSTOM: [Fam; 5] = [Fam::Range, Fam::And, Fam::Xor, Fam::Fixed, Fam::Var];

pub fn affine(p: JubJubExtended) -> (Fe, Fe) {
    let a = JubJubAffine::from(p);
    (a.get_u(), a.get_v())
}
pub fn gen_mul(k: u64) -> JubJubExtended {
    GENERATOR_EXTENDED * dusk_jubjub::JubJubScalar::from(k)
}

/// Selectors of a row on which the given families are active.
pub fn merged_row(fams: &[Fam]) -> RowSpec {
    let mut r = RowSpec::zero();
    let (xb, yb) = affine(gen_mul(5));
    for f in fams {
        match f {
            Fam::Range => r.q[QRANGE] = one(),
            Fam::And => {
                r.q[QLOGIC] = one();
                r.q[QC] = one();
            }
            Fam::Xor => {
                r.q[QLOGIC] = neg1();
                r.q[QC] = neg1();
            }
            Fam::Fixed => {
                r.q[QFIXED] = one();
                r.q[QL] = xb;
                r.q[QR] = yb;
                r.q[QC] = xb * yb;
            }
            Fam::Var => r.q[QVAR] = one(),
            Fam::Arith => {}
        }
    }
    if fams.contains(&Fam::Arith) {
        r.q[QARITH] = one();
        r.q[QM] = one();
        r.q[QO] = neg1();
        r.q[QF] = fe(2);
        r.has_pi = true;
    }
    r
}

/// A satisfying (cur, next) assignment for one custom family, variant `v`.
pub fn family_assignment(f: Fam, v: usize) -> ([Fe; 4], [Fe; 4]) {
    match f {
        Fam::Range => {
            let quads = [[0u64, 0, 0, 0], [3, 2, 1, 0], [1, 3, 3, 2], [3, 3, 3, 3]][v % 4];
            let d = fe([0u64, 1, 7, 2][v % 4]);
            let c = fe(4) * d + fe(quads[0]);
            let b = fe(4) * c + fe(quads[1]);
            let a = fe(4) * b + fe(quads[2]);
            let dn = fe(4) * a + fe(quads[3]);
            ([a, b, c, d], [zero(), zero(), zero(), dn])
        }
        Fam::And | Fam::Xor => {
            let (qa, qb) = [(0u64, 0u64), (3, 1), (2, 3), (3, 3)][v % 4];
            let (a, b, d) = (fe([0u64, 1, 9, 2][v % 4]), fe([0u64, 2, 4, 3][v % 4]), fe([0u64, 3, 1, 1][v % 4]));
            let o = if f == Fam::And { qa & qb } else { qa ^ qb };
            let an = fe(4) * a + fe(qa);
            let bn = fe(4) * b + fe(qb);
            let dn = fe(4) * d + fe(o);
            ([a, b, fe(qa * qb), d], [an, bn, zero(), dn])
        }
        Fam::Fixed => {
            let bit: i64 = [0, 1, -1, 1][v % 4];
            let acc = [gen_mul(0), gen_mul(3), gen_mul(7), gen_mul(0)][v % 4];
            let beta = gen_mul(5);
            let (xb, yb) = affine(beta);
            let add = match bit {
                0 => gen_mul(0),
                1 => beta,
                _ => -beta,
            };
            let (ax, ay) = affine(acc);
            let (nx, ny) = affine(acc + add);
            let s = fe([0u64, 6, 11, 0][v % 4]);
            let c = fi(bit) * (xb * yb);
            ([ax, ay, c, s], [nx, ny, zero(), fe(2) * s + fi(bit)])
        }
        Fam::Var => {
            let p1 = [gen_mul(0), gen_mul(2), gen_mul(3), gen_mul(4)][v % 4];
            let p2 = [gen_mul(0), gen_mul(9), -gen_mul(3), gen_mul(4)][v % 4];
            let (x1, y1) = affine(p1);
            let (x2, y2) = affine(p2);
            let (x3, y3) = affine(p1 + p2);
            ([x1, y1, x2, y2], [x3, y3, zero(), x1 * y2])
        }
        Fam::Arith => ([fe(2), fe(3), fe(5), fe(7)], [zero(); 4]),
    }
}

/// Solve the public input of every PI row so the arithmetic component holds.
pub fn solve_pis(lay: &Layout, asg: &mut Assign) {
    for (i, r) in lay.rows.iter().enumerate() {
        if r.has_pi {
            let [a, b, c, d] = asg.vals[i];
            let q = &r.q;
            asg.pis[i] = -(q[QARITH] * (q[QM] * a * b + q[QL] * a + q[QR] * b + q[QO] * c + q[QF] * d + q[QC]));
        }
    }
}

pub struct Case {
    pub name: String,
    pub lay: Layout,
    pub asg: Assign,
}

fn perturbations(v: Fe) -> Vec<(&'static str, Fe)> {
    let mut out = vec![("+1", v + one()), ("-1", v - one()), ("+4", v + fe(4))];
    if v + v != v {
        out.push(("x2", v + v));
    }
    out
}

fn block_layout(rows: Vec<RowSpec>, place: Place) -> Layout {
    Layout { rows, share: vec![], place }
}

pub fn enumerate(tier: Tier) -> Vec<Case> {
    let mut cases = Vec::new();
    let rho = Rho::new(seed(), 5).next_fe();

    // --- 1. arithmetic tuples --------------------------------------------------
    let sel: Vec<Fe> = match tier {
        Tier::Quick => vec![zero(), one(), neg1()],
        Tier::Thorough => vec![zero(), one(), neg1(), fe(2)],
    };
    let modes: Vec<(u64, Option<Fe>)> = match tier {
        Tier::Quick => vec![(1, None), (1, Some(rho)), (0, Some(zero()))],
        Tier::Thorough => vec![(1, None), (1, Some(rho)), (0, Some(zero())), (0, Some(rho)), (2, None), (2, Some(fe(0)))],
    };
    let ns = sel.len();
    let total = ns.pow(6);
    for t in 0..total {
        let mut idx = t;
        let mut q6 = [zero(); 6];
        for k in 0..6 {
            q6[k] = sel[idx % ns];
            idx /= ns;
        }
        for (mi, (qa, pi)) in modes.iter().enumerate() {
            let mut r = RowSpec::zero();
            r.q[..6].copy_from_slice(&q6);
            r.q[QARITH] = fe(*qa);
            r.has_pi = pi.is_some();
            let lay = block_layout(vec![r.clone()], Place::First);
            let (a, b, d) = (fe(2), fe(3), fe(7));
            let piv = pi.unwrap_or(zero());
            // try to solve for c
            let rest = q6[QM] * a * b + q6[QL] * a + q6[QR] * b + q6[QF] * d + q6[QC];
            let c = if *qa != 0 && q6[QO] != zero() {
                // qa*(rest + qo*c) + pi = 0
                -(rest + piv * inv(fe(*qa))) * inv(q6[QO])
            } else {
                fe(5)
            };
            let asg = Assign::new(vec![[a, b, c, d]], vec![piv]);
            cases.push(Case { name: format!("arith/t{}/m{}/base", t, mi), lay: lay.clone(), asg: asg.clone() });
            let mut p = asg.clone();
            p.vals[0][2] = c + one();
            cases.push(Case { name: format!("arith/t{}/m{}/c+1", t, mi), lay: lay.clone(), asg: p });
            if tier == Tier::Thorough {
                for (k, nm) in [(0usize, "a"), (1, "b"), (3, "d")] {
                    let mut p = asg.clone();
                    p.vals[0][k] = p.vals[0][k] + one();
                    cases.push(Case { name: format!("arith/t{}/m{}/{}+1", t, mi, nm), lay: lay.clone(), asg: p });
                }
            }
        }
    }

    // --- 2. custom families: single, pairs, all; placements --------------------
    let mut combos: Vec<Vec<Fam>> = Vec::new();
    for f in CUSTOM {
        combos.push(vec![f]);
        combos.push(vec![f, Fam::Arith]);
    }
    for i in 0..CUSTOM.len() {
        for j in i + 1..CUSTOM.len() {
            // And+Xor on one row is not a distinct selector combination
            if CUSTOM[i] == Fam::And && CUSTOM[j] == Fam::Xor {
                continue;
            }
            combos.push(vec![CUSTOM[i], CUSTOM[j]]);
        }
    }
    combos.push(vec![Fam::Range, Fam::And, Fam::Fixed, Fam::Var, Fam::Arith]);
    combos.push(vec![Fam::Range, Fam::Xor, Fam::Fixed, Fam::Var, Fam::Arith]);

    let places: Vec<Place> = match tier {
        Tier::Quick => vec![Place::First, Place::LastOfFull(16)],
        Tier::Thorough => vec![Place::First, Place::After(3), Place::LastOfFull(8), Place::LastOfFull(16), Place::LastOfFull(32)],
    };
    let variants = tier.pick(2usize, 4usize);
    for combo in &combos {
        let sel_row = merged_row(combo);
        for place in &places {
            let last = matches!(place, Place::LastOfFull(_));
            let rows = if last { vec![sel_row.clone()] } else { vec![sel_row.clone(), RowSpec::zero()] };
            let lay = block_layout(rows, *place);
            // baselines: zero + each family's satisfying assignments
            let mut bases: Vec<(String, Assign)> = vec![("zero".into(), zero_assign(&lay))];
            for f in combo.iter().filter(|f| **f != Fam::Arith) {
                for v in 0..variants {
                    let (cur, next) = family_assignment(*f, v);
                    if last {
                        // next row is the constant row 0: only usable when the
                        // family's next-row wires are all zero
                        if next != [zero(); 4] {
                            continue;
                        }
                        bases.push((format!("{:?}{}", f, v), Assign::new(vec![cur], vec![zero()])));
                    } else {
                        bases.push((format!("{:?}{}", f, v), Assign::new(vec![cur, next], vec![zero(), zero()])));
                    }
                }
            }
            for (bn, base) in bases.iter_mut() {
                solve_pis(&lay, base);
                let cname = format!("{:?}/{:?}/{}", combo, place, bn);
                cases.push(Case { name: format!("{}/base", cname), lay: lay.clone(), asg: base.clone() });
                let nrows = lay.rows.len();
                for r in 0..nrows {
                    for k in 0..4 {
                        // next-row wire c is read by no identity; keep one probe
                        for (pn, pv) in perturbations(base.vals[r][k]) {
                            if r == 1 && k == 2 && pn != "+1" {
                                continue;
                            }
                            let mut p = base.clone();
                            p.vals[r][k] = pv;
                            cases.push(Case { name: format!("{}/r{}w{}{}", cname, r, k, pn), lay: lay.clone(), asg: p });
                        }
                    }
                }
                // PI perturbation
                if lay.rows[0].has_pi {
                    let mut p = base.clone();
                    p.pis[0] += one();
                    cases.push(Case { name: format!("{}/pi+1", cname), lay: lay.clone(), asg: p });
                }
            }
        }
    }

    // --- 2a'. instances that emit OTHER selectors than the compiled description -----
    // (same row count, same PI rows, same wiring): the compiled description and the
    // instance's wire values alone decide; what gate kinds the instance "uses" is irrelevant
    {
        let fam_cases: Vec<usize> = cases
            .iter()
            .enumerate()
            .filter(|(_, c)| {
                let custom = c.name.starts_with('[') && !c.name.starts_with("[Arith]");
                let sel = c.name.ends_with("/base") || c.name.ends_with("w0+1") || c.name.ends_with("w3+1") || c.name.ends_with("w1+4");
                custom && sel && (tier == Tier::Thorough || c.name.contains("/First/"))
            })
            .map(|(i, _)| i)
            .collect();
        for i in fam_cases {
            let base = Case { name: cases[i].name.clone(), lay: cases[i].lay.clone(), asg: cases[i].asg.clone() };
            let n = base.lay.rows.len();
            let mut variants: Vec<(&str, Vec<[Fe; 11]>)> = vec![];
            variants.push(("no-selectors", vec![[zero(); 11]; n]));
            let mut ar = [zero(); 11];
            ar[QARITH] = one();
            variants.push(("plain-arith", vec![ar; n]));
            // another custom family's selectors on the first row
            let other = merged_row(&[if base.name.starts_with("[Range]") { Fam::Var } else { Fam::Range }]);
            let mut o = vec![[zero(); 11]; n];
            o[0] = other.q;
            variants.push(("other-family", o));
            for (vn, q) in variants {
                let mut asg = base.asg.clone();
                asg.inst_q = Some(q);
                cases.push(Case { name: format!("foreign-selectors/{}/{}", vn, base.name), lay: base.lay.clone(), asg });
            }
        }
    }

    // --- 2a''. the same verdicts inside worker pools of 3, 5, 6, 7 and 12 threads (the prover's
    // parallel regions split their data by the pool size; exactness must not depend on it)
    {
        let picks: Vec<usize> = cases
            .iter()
            .enumerate()
            .filter(|(_, c)| c.name.starts_with('[') && (c.name.ends_with("/base") || c.name.ends_with("r0w0+1")) && (c.name.contains("/First/") || c.name.contains("LastOfFull")))
            .map(|(i, _)| i)
            .collect();
        let pools: Vec<usize> = tier.pick(vec![3, 6], vec![2, 3, 5, 6, 7, 12]);
        for (k, i) in picks.into_iter().enumerate() {
            for (j, t) in pools.iter().enumerate() {
                // quick: every base case in one of the pool sizes, round robin
                if tier == Tier::Quick && (k + j) % pools.len() != 0 {
                    continue;
                }
                let c = Case { name: format!("pool{}/{}", t, cases[i].name), lay: cases[i].lay.clone(), asg: cases[i].asg.clone() };
                cases.push(c);
            }
        }
    }

    // --- 2b. crafted cases isolating components no single-wire perturbation isolates
    for place in [Place::First, Place::After(3)] {
        // logic.dE alone: with q_c = -1/3 the op identity does not determine E
        let mut r = RowSpec::zero();
        r.q[QLOGIC] = one();
        r.q[QC] = -inv(fe(3));
        let lay = block_layout(vec![r, RowSpec::zero()], place);
        for (qa, qb) in [(0u64, 0u64), (1, 2), (3, 3), (0, 1)] {
            let (aa, bb, w) = (fe(qa), fe(qb), fe(qa * qb));
            // op = q_c(9E-3(A+B)) + 3(A+B+E) - 2F = (9q_c+3)E + ... : E free; make the rest vanish
            // need -3q_c(A+B) + 3(A+B) - 2F = 0 which generally fails; instead solve for a
            // consistent row by choosing E freely only when the remainder is zero. Use M1 to decide.
            for e in [fe(0), fe(1), fe(5), neg1()] {
                let (a, b, d) = (fe(1), fe(2), fe(3));
                let asg = Assign::new(
                    vec![[a, b, w, d], [fe(4) * a + aa, fe(4) * b + bb, zero(), fe(4) * d + e]],
                    vec![zero(), zero()],
                );
                cases.push(Case { name: format!("craft/logic-dE/{:?}/{}-{}-{}", place, qa, qb, hex(&e)), lay: lay.clone(), asg });
            }
        }
        // logic.w alone: pick w' != A*B and solve q_c so that the op identity still holds
        for (qa, qb, e, wp) in [(1u64, 2u64, 0u64, 5u64), (3, 3, 3, 1), (2, 1, 3, 7)] {
            let (aa, bb, ee, w) = (fe(qa), fe(qb), fe(e), fe(wp));
            let f = w * (w * (fe(4) * w - fe(18) * (aa + bb) + fe(81)) + fe(18) * (aa * aa + bb * bb) - fe(81) * (aa + bb) + fe(83));
            let den = fe(9) * ee - fe(3) * (aa + bb);
            if den == zero() {
                continue;
            }
            let qc = (fe(2) * f - fe(3) * (aa + bb + ee)) * inv(den);
            let mut r = RowSpec::zero();
            r.q[QLOGIC] = one();
            r.q[QC] = qc;
            let lay = block_layout(vec![r, RowSpec::zero()], place);
            let (a, b, d) = (fe(1), fe(2), fe(3));
            let asg = Assign::new(
                vec![[a, b, w, d], [fe(4) * a + aa, fe(4) * b + bb, zero(), fe(4) * d + ee]],
                vec![zero(), zero()],
            );
            cases.push(Case { name: format!("craft/logic-w/{:?}/{}-{}-{}-{}", place, qa, qb, e, wp), lay: lay.clone(), asg: asg.clone() });
            // control: the honest product on the same selectors
            let mut h = asg.clone();
            h.vals[0][2] = aa * bb;
            cases.push(Case { name: format!("craft/logic-w-control/{:?}/{}-{}-{}-{}", place, qa, qb, e, wp), lay, asg: h });
        }
        // fixed.bit alone: bit = 2 (or -2, 3) with every other fixed-base identity solved
        for bit in [2i64, -2, 3] {
            let lay = block_layout(vec![merged_row(&[Fam::Fixed]), RowSpec::zero()], place);
            let q = &lay.rows[0].q;
            let (ax, ay) = affine(gen_mul(3));
            let bitf = fi(bit);
            let c = bitf * q[QC];
            let y_alpha = bitf * bitf * (q[QR] - one()) + one();
            let x_alpha = bitf * q[QL];
            let dd = m1::edwards_d();
            let an = (ax * y_alpha + ay * x_alpha) * inv(one() + c * ax * ay * dd);
            let bn = (ay * y_alpha + ax * x_alpha) * inv(one() - c * ax * ay * dd);
            let s = fe(6);
            let asg = Assign::new(vec![[ax, ay, c, s], [an, bn, zero(), fe(2) * s + bitf]], vec![zero(), zero()]);
            cases.push(Case { name: format!("craft/fixed-bit/{:?}/{}", place, bit), lay, asg });
        }
    }

    // --- 2c. cancelling residual pairs: two components of one widget violated
    // by +e and -e (all others satisfied). The row model rejects them (two
    // components fail); a prover / verifier whose separation weights for the two
    // components coincide would let them through.
    for place in [Place::First, Place::After(3)] {
        let (cx, cy) = crate::m5::cancelling_quads(0);
        let four = fe(4);
        // range: quads (c-4d, b-4c, a-4b, d'-4a)
        for i in 0..4usize {
            for j in i + 1..4 {
                let mut quads = [fe(1), fe(2), fe(3), fe(0)];
                quads[i] = cx;
                quads[j] = cy;
                let d = fe(2);
                let c = four * d + quads[0];
                let b = four * c + quads[1];
                let a = four * b + quads[2];
                let dn = four * a + quads[3];
                let lay = block_layout(vec![merged_row(&[Fam::Range]), RowSpec::zero()], place);
                let asg = Assign::new(vec![[a, b, c, d], [zero(), zero(), zero(), dn]], vec![zero(), zero()]);
                cases.push(Case { name: format!("cancel/range/{:?}/{}-{}", place, i, j), lay, asg });
            }
        }
        // logic: residuals dA, dB, dE, (w - AB), op; q_c is free and op is linear in it
        let logic_case = |name: String, aa: Fe, bb: Fe, ee: Fe, w: Fe, op_target: Fe, cases: &mut Vec<Case>| {
            let f = w * (w * (fe(4) * w - fe(18) * (aa + bb) + fe(81)) + fe(18) * (aa * aa + bb * bb) - fe(81) * (aa + bb) + fe(83));
            let den = fe(9) * ee - fe(3) * (aa + bb);
            if den == zero() {
                return;
            }
            // q_c * den + 3(A+B+E) - 2F = op_target
            let qc = (op_target - fe(3) * (aa + bb + ee) + fe(2) * f) * inv(den);
            let mut r = RowSpec::zero();
            r.q[QLOGIC] = one();
            r.q[QC] = qc;
            let lay = block_layout(vec![r, RowSpec::zero()], place);
            let (a, b, d) = (fe(1), fe(2), fe(3));
            let asg = Assign::new(vec![[a, b, w, d], [four * a + aa, four * b + bb, zero(), four * d + ee]], vec![zero(), zero()]);
            cases.push(Case { name, lay, asg });
        };
        let dl = |f: Fe| f * (f - fe(1)) * (f - fe(2)) * (f - fe(3));
        // pairs among the three quad residuals
        logic_case(format!("cancel/logic/{:?}/dA-dB", place), cx, cy, fe(1), cx * cy, zero(), &mut cases);
        logic_case(format!("cancel/logic/{:?}/dA-dE", place), cx, fe(2), cy, cx * fe(2), zero(), &mut cases);
        logic_case(format!("cancel/logic/{:?}/dB-dE", place), fe(3), cx, cy, fe(3) * cx, zero(), &mut cases);
        // quad residual against the product / op residual
        let x = fe(7);
        logic_case(format!("cancel/logic/{:?}/dA-w", place), x, fe(2), fe(1), x * fe(2) - dl(x), zero(), &mut cases);
        logic_case(format!("cancel/logic/{:?}/dB-w", place), fe(2), x, fe(1), x * fe(2) - dl(x), zero(), &mut cases);
        logic_case(format!("cancel/logic/{:?}/dE-w", place), fe(2), fe(1), x, fe(2) - dl(x), zero(), &mut cases);
        logic_case(format!("cancel/logic/{:?}/dA-op", place), x, fe(2), fe(1), x * fe(2), -dl(x), &mut cases);
        logic_case(format!("cancel/logic/{:?}/dB-op", place), fe(2), x, fe(1), x * fe(2), -dl(x), &mut cases);
        logic_case(format!("cancel/logic/{:?}/dE-op", place), fe(2), fe(1), x, fe(2), -dl(x), &mut cases);
        logic_case(format!("cancel/logic/{:?}/w-op", place), fe(3), fe(2), fe(1), fe(6) + fe(5), -fe(5), &mut cases);
        // fixed base: residuals (bit consistency, xy, x-acc, y-acc) with targets t[0..4]
        let row = merged_row(&[Fam::Fixed]);
        let dd = m1::edwards_d();
        let (ax, ay) = affine(gen_mul(3));
        for i in 0..4usize {
            for j in i + 1..4 {
                let e = fe(6); // beta(2) = 2*1*3 = 6
                let mut t = [zero(); 4];
                t[i] = e;
                t[j] = -e;
                // bit consistency residual is bit(bit-1)(bit+1): 6 for bit 2, -6 for bit -2, 0 for bit 1
                let bit = if t[0] == e { fe(2) } else if t[0] == -e { fi(-2) } else { one() };
                let c = bit * row.q[QC] - t[1];
                let y_alpha = bit * bit * (row.q[QR] - one()) + one();
                let x_alpha = bit * row.q[QL];
                let an = (t[2] + ax * y_alpha + ay * x_alpha) * inv(one() + c * ax * ay * dd);
                let bn = (t[3] + ay * y_alpha + ax * x_alpha) * inv(one() - c * ax * ay * dd);
                let s_acc = fe(6);
                let lay = block_layout(vec![row.clone(), RowSpec::zero()], place);
                let asg = Assign::new(vec![[ax, ay, c, s_acc], [an, bn, zero(), fe(2) * s_acc + bit]], vec![zero(), zero()]);
                cases.push(Case { name: format!("cancel/fixed/{:?}/{}-{}", place, i, j), lay, asg });
            }
        }
        // variable base: residuals (x1*y2 - d', x3 identity, y3 identity)
        let (x1, y1) = affine(gen_mul(2));
        let (x2, y2) = affine(gen_mul(9));
        for i in 0..3usize {
            for j in i + 1..3 {
                let e = fe(5);
                let mut t = [zero(); 3];
                t[i] = e;
                t[j] = -e;
                let x1y2 = x1 * y2 - t[0];
                let y1x2 = y1 * x2;
                // (x1y2 + y1x2) - x3 (1 + d x1y2 y1x2) = t1 ;  (y1y2 + x1x2) - y3 (1 - d x1y2 y1x2) = t2
                let x3 = (x1y2 + y1x2 - t[1]) * inv(one() + dd * x1y2 * y1x2);
                let y3 = (y1 * y2 + x1 * x2 - t[2]) * inv(one() - dd * x1y2 * y1x2);
                let lay = block_layout(vec![merged_row(&[Fam::Var]), RowSpec::zero()], place);
                let asg = Assign::new(vec![[x1, y1, x2, y2], [x3, y3, zero(), x1y2]], vec![zero(), zero()]);
                cases.push(Case { name: format!("cancel/var/{:?}/{}-{}", place, i, j), lay, asg });
            }
        }
        // cross-widget pairs on one row: the first residual of two widgets (and
        // of a widget against the arithmetic identity) cancel
        {
            // range.0 = e with logic.dA = -e is not constructible independently of the
            // shared wires in general; use range + arithmetic and var + arithmetic,
            // where the arithmetic residual is free through the public input
            for (fam, tag) in [(Fam::Range, "range"), (Fam::Var, "var"), (Fam::Fixed, "fixed")] {
                let lay = block_layout(vec![merged_row(&[fam, Fam::Arith]), RowSpec::zero()], place);
                let q = lay.rows[0].q;
                // exactly one custom residual is non-zero
                let (cur, next) = match fam {
                    Fam::Range => {
                        let quads = [fe(5), fe(1), fe(2), fe(3)];
                        let d = fe(2);
                        let c = four * d + quads[0];
                        let b = four * c + quads[1];
                        let a = four * b + quads[2];
                        ([a, b, c, d], [zero(), zero(), zero(), four * a + quads[3]])
                    }
                    Fam::Var => {
                        let x1y2 = x1 * y2 - fe(5);
                        let y1x2 = y1 * x2;
                        let x3 = (x1y2 + y1x2) * inv(one() + dd * x1y2 * y1x2);
                        let y3 = (y1 * y2 + x1 * x2) * inv(one() - dd * x1y2 * y1x2);
                        ([x1, y1, x2, y2], [x3, y3, zero(), x1y2])
                    }
                    _ => {
                        let bit = one();
                        let c = bit * q[QC] - fe(5);
                        let y_alpha = bit * bit * (q[QR] - one()) + one();
                        let x_alpha = bit * q[QL];
                        let an = (ax * y_alpha + ay * x_alpha) * inv(one() + c * ax * ay * dd);
                        let bn = (ay * y_alpha + ax * x_alpha) * inv(one() - c * ax * ay * dd);
                        ([ax, ay, c, fe(6)], [an, bn, zero(), fe(13)])
                    }
                };
                let comps = m1::row_components(&q, zero(), &cur, &next);
                let e: Fe = comps.iter().skip(1).fold(zero(), |acc, c| acc + *c);
                let mut asg = Assign::new(vec![cur, next], vec![zero(), zero()]);
                // arithmetic residual (through the public input) = -e
                asg.pis[0] = -comps[0] - e;
                cases.push(Case { name: format!("cancel/cross/{:?}/{}-arith", place, tag), lay, asg });
            }
        }
    }

    // --- 2d. uniform violation: every row of a completely full domain violated
    // by the same amount (the division remainder is then a non-zero CONSTANT, the
    // boundary case of the prover's degree-based unsatisfied-circuit check)
    for total in [8usize, 16] {
        for (dn, delta) in [("1", one()), ("rho", rho)] {
            let Some(script) = uniform_init_script(delta) else { continue };
            let n_user = total - init_rows();
            let mut r = RowSpec::zero();
            r.q[QARITH] = one();
            r.q[QL] = one();
            let mut rows = vec![];
            for k in 0..n_user {
                let mut rk = r.clone();
                rk.q[QC] = -fe(10 + k as u64);
                rows.push(rk);
            }
            let lay = Layout { rows, share: vec![], place: Place::LastOfFull(total) };
            let mk = |d: Fe, with_script: bool| {
                let vals: Vec<[Fe; 4]> = (0..n_user).map(|k| [fe(10 + k as u64) + d, zero(), zero(), zero()]).collect();
                let mut a = Assign::new(vals, vec![zero(); n_user]);
                if with_script {
                    a.script = script.clone();
                }
                a
            };
            cases.push(Case { name: format!("uniform/n{}/delta{}/all-rows", total, dn), lay: lay.clone(), asg: mk(delta, true) });
            // controls: only the user rows, only the initial rows
            cases.push(Case { name: format!("uniform/n{}/delta{}/user-rows-only", total, dn), lay: lay.clone(), asg: mk(delta, false) });
            cases.push(Case { name: format!("uniform/n{}/delta{}/init-rows-only", total, dn), lay: lay.clone(), asg: mk(zero(), true) });
        }
    }

    // --- 3. copy constraints -----------------------------------------------------
    let dists: Vec<usize> = tier.pick(vec![0, 1], vec![0, 1, 2]);
    for dist in dists {
        for k1 in 0..4usize {
            for k2 in 0..4usize {
                if dist == 0 && k2 <= k1 {
                    continue;
                }
                for place in [Place::First, Place::LastOfFull(8)] {
                    let rows = vec![RowSpec::zero(); dist + 1];
                    let lay = Layout { rows, share: vec![vec![(0, k1), (dist, k2)]], place };
                    let mut base = zero_assign(&lay);
                    base.vals[0][k1] = fe(11);
                    base.vals[dist][k2] = fe(11);
                    // shared witness, equal values
                    cases.push(Case { name: format!("copy/d{}w{}w{}/{:?}/kept", dist, k1, k2, place), lay: lay.clone(), asg: base.clone() });
                    // separate witnesses, equal values: still satisfies the compiled copy constraint
                    let mut sep = base.clone();
                    sep.share = Some(vec![]);
                    cases.push(Case { name: format!("copy/d{}w{}w{}/{:?}/separate-equal", dist, k1, k2, place), lay: lay.clone(), asg: sep.clone() });
                    // separate witnesses, different values: every row holds, copy broken
                    let mut brk = sep.clone();
                    brk.vals[dist][k2] = fe(12);
                    cases.push(Case { name: format!("copy/d{}w{}w{}/{:?}/broken", dist, k1, k2, place), lay: lay.clone(), asg: brk });
                }
            }
        }
    }
    // copy constraint against the constant witnesses ZERO: an unused wire given a non-zero value
    {
        let lay = block_layout(vec![RowSpec::zero(), RowSpec::zero()], Place::First);
        // compiled: wire (1,3) is the ZERO witness (unused); instance: fresh non-zero witness
        let lay2 = Layout { rows: lay.rows.clone(), share: vec![], place: Place::First };
        let mut a = zero_assign(&lay2);
        a.vals[1][3] = fe(9);
        cases.push(Case { name: "copy/free-wire-nonzero".into(), lay: lay2, asg: a });
    }

    // --- 3b. a LONG copy class (the ZERO witness on every wire of 300 / 600 filler rows:
    // 1200 / 2400 positions) split in two at every position: the tail is carried by one
    // other witness holding 9. Every row holds; the compiled copy constraint does not.
    {
        let fillers: Vec<usize> = tier.pick(vec![300], vec![300, 600]);
        for f in fillers {
            let lay = Layout { rows: vec![RowSpec::zero(), RowSpec::zero()], share: vec![], place: Place::After(f) };
            let slots = f * 4;
            let from: Vec<usize> = match tier {
                Tier::Quick => (1..slots).filter(|s| (*s >= 960 && *s <= 1040) || s % 97 == 0).collect(),
                Tier::Thorough => (1..slots).collect(),
            };
            for s0 in from {
                let mut a = zero_assign(&lay);
                a.filler_split = Some((s0, fe(9)));
                cases.push(Case { name: format!("long-class-split/filler{}/from{}", f, s0), lay: lay.clone(), asg: a });
            }
            // control: the tail carried by another witness that also holds zero is fine
            let mut a = zero_assign(&lay);
            a.filler_split = Some((slots / 2, zero()));
            cases.push(Case { name: format!("long-class-split/filler{}/equal-value-control", f), lay: lay.clone(), asg: a });
        }
    }

    // --- 4. size mismatch --------------------------------------------------------
    {
        let lay = block_layout(vec![merged_row(&[Fam::Range]), RowSpec::zero()], Place::First);
        let (cur, next) = family_assignment(Fam::Range, 1);
        let base = Assign::new(vec![cur, next], vec![zero(), zero()]);
        let mut more = base.clone();
        more.extra_rows = 1;
        cases.push(Case { name: "size/plus1".into(), lay: lay.clone(), asg: more });
        let mut more = base.clone();
        more.extra_rows = 12;
        cases.push(Case { name: "size/plus12".into(), lay: lay.clone(), asg: more });
        let mut less = base.clone();
        less.drop_last = true;
        cases.push(Case { name: "size/minus1".into(), lay: lay.clone(), asg: less });
    }
    cases
}

pub struct Outcome {
    /// for crafted cancellation cases: exactly two residuals, summing to zero
    pub cancel_ok: Option<bool>,
    pub name: String,
    pub verdict: m1::Verdict,
    pub real: Real,
    pub lay_key: u64,
    pub desc: serde_json::Value,
}

pub fn run_case(cache: &KeyCache, c: &Case) -> Outcome {
    let keys = cache.get(&c.lay).expect("layout compiles");
    let inst = prog(&c.lay, &c.asg);
    let threads: Option<usize> = c.name.strip_prefix("pool").and_then(|r| r.split('/').next()).and_then(|t| t.parse().ok());
    let (real, snap) = match threads {
        Some(t) => {
            let pool = rayon::ThreadPoolBuilder::new().num_threads(t).build().expect("pool");
            pool.install(|| run_real(&keys, &inst, 0))
        }
        None => run_real(&keys, &inst, 0),
    };
    let snap = snap.unwrap_or_else(|| inst.run().expect("instance builds"));
    let verdict = m1::decide(&keys.2, &snap);
    // the fast pre-processed form used by the gadget checks must agree
    let fast = m1::Model::new(&keys.2).decide(&snap);
    assert!(fast == verdict, "m1::Model::decide disagrees with m1::decide: {:?} vs {:?}", fast, verdict);
    let cancel_ok = if c.name.starts_with("cancel/") {
        let pi = if c.lay.rows[0].has_pi { c.asg.pis[0] } else { zero() };
        let comps = m1::row_components(&c.lay.rows[0].q, pi, &c.asg.vals[0], &c.asg.vals[1]);
        let nz: Vec<Fe> = comps.iter().filter(|v| **v != zero()).cloned().collect();
        Some(nz.len() == 2 && nz[0] + nz[1] == zero())
    } else {
        None
    };
    Outcome { cancel_ok, name: c.name.clone(), verdict, real, lay_key: c.lay.key(), desc: describe(&c.lay, &c.asg) }
}

pub fn main(tier: Tier, replay: Option<serde_json::Value>) -> i32 {
    let mut run = Run::new("C05", tier, "model_checking");
    run.rule = "cases = raw-row layouts (arithmetic selector tuples; custom-gate families alone, pairwise and all at once; first / middle / last-row-of-full-domain placement) x assignments (constructed satisfying, every single-wire perturbation, copy-constraint breaks, size mismatches; instances emitting other selectors than the compiled description; base cases again inside worker pools of other sizes; a copy class of 1200 / 2400 positions split at every position); every case is decided by the row model M1 and executed on the real prover+verifier; non-trivial = distinct (layout, assignment) whose M1 verdict was compared with the real outcome".into();
    let pp = crate::setup::pp(1 << 10);
    let cache = KeyCache::new(pp, b"c05");
    let cases = enumerate(tier);
    if let Some(r) = replay {
        run.set_replay_mode();
        let name = r["case"]["name"].as_str().unwrap_or("").to_string();
        let Some(c) = cases.iter().find(|c| c.name == name) else {
            run.machinery(format!("replay case {} not in enumeration", name));
            return run.finish();
        };
        let o1 = run_case(&cache, c);
        let o2 = run_case(&cache, c);
        if o1.real != o2.real {
            run.machinery("replay diverged".into());
        }
        println!("replay {}: model={:?} real={:?}", name, o1.verdict, o1.real);
        if expected(&o1.verdict) != o1.real {
            run.violation(&format!("replay/{}", name), "still disagrees", o1.desc);
        }
        return run.finish();
    }
    run.bound("tier_cases", json!(cases.len()));
    let outs = crate::par::par_map(&cases, |c| run_case(&cache, c));
    let mut only_fail = [0u64; N_COMPONENTS];
    let mut copy_only = 0u64;
    let (mut foreign_sat, mut foreign_unsat) = (0u64, 0u64);
    let mut layouts = std::collections::HashSet::new();
    for (c, o) in cases.iter().zip(outs) {
        run.evaluations += 1;
        run.transitions += 1;
        let o = match o {
            Ok(o) => o,
            Err(p) => {
                run.machinery(format!("harness panic in case {}: {}", c.name, p));
                continue;
            }
        };
        layouts.insert(o.lay_key);
        run.traces_validated += 1;
        if let Ok(pref) = std::env::var("VERIF_TRACE") {
            if o.name.starts_with(&pref) {
                eprintln!("TRACE {} model={:?} real={:?}", o.name, o.verdict, o.real);
            }
        }
        match o.cancel_ok {
            Some(true) => run.outcome("crafted:cancelling-pair"),
            Some(false) => run.machinery(format!("crafted case {} is not a cancelling residual pair", o.name)),
            None => {}
        }
        let exp = expected(&o.verdict);
        if o.name.starts_with("foreign-selectors/") {
            if o.verdict.satisfied() {
                foreign_sat += 1;
            } else {
                foreign_unsat += 1;
            }
        }
        let key = fnv(format!("{}|{}", o.lay_key, o.desc).as_bytes());
        run.nontrivial(key);
        match &o.verdict {
            m1::Verdict::SizeMismatch { .. } => run.outcome("model:size-mismatch"),
            v if v.satisfied() => run.outcome("model:satisfied"),
            m1::Verdict::Rows { gate_fails, copy_fails } => {
                run.outcome("model:unsatisfied");
                let comps: std::collections::BTreeSet<usize> = gate_fails.iter().map(|(_, k)| *k).collect();
                if comps.len() == 1 && copy_fails.is_empty() {
                    only_fail[*comps.iter().next().unwrap()] += 1;
                }
                if gate_fails.is_empty() && !copy_fails.is_empty() {
                    copy_only += 1;
                }
            }
        }
        run.outcome(&format!("real:{}", match &o.real {
            Real::Accepted => "accepted",
            Real::Unsatisfied => "unsatisfied",
            Real::SizeMismatch => "size-mismatch",
            Real::ProvedNotVerified(_) => "proved-not-verified",
            Real::OtherErr(_) => "other-error",
            Real::Panic(_) => "panic",
        }));
        if run.samples.len() < 6 && (run.evaluations % 997 == 1) {
            run.sample(json!({"name": o.name, "model": format!("{:?}", o.verdict), "real": format!("{:?}", o.real)}));
        }
        if exp != o.real {
            let fam = c.name.split('/').next().unwrap_or("").to_string();
            let kind = format!("{:?}", o.real).split('(').next().unwrap().to_string();
            let sig = format!("{}/model-{}/real-{}", fam, match exp { Real::Accepted => "sat", Real::Unsatisfied => "unsat", _ => "size" }, kind);
            run.violation(
                &sig,
                &format!("case {}: model {:?} but real {:?}", o.name, o.verdict, o.real),
                json!({"name": o.name, "layout": o.desc, "model": format!("{:?}", o.verdict), "real": format!("{:?}", o.real)}),
            );
        }
    }
    run.states = layouts.len() as u64;
    for k in 0..N_COMPONENTS {
        run.gate(&format!("component {} is the only failing one in >=1 case", COMPONENT_NAMES[k]), only_fail[k] > 0);
    }
    run.gate(">=1 case breaking only a copy constraint", copy_only > 0);
    run.gate(">=1 satisfied case", run.count("model:satisfied") > 0);
    run.gate("cancelling residual pairs constructed", run.count("crafted:cancelling-pair") >= 50);
    run.gate("uniform-violation cases constructed", cases.iter().filter(|c| c.name.starts_with("uniform/") && c.name.ends_with("all-rows")).count() >= 2);
    run.gate(">=1 size mismatch case", run.count("model:size-mismatch") > 0);
    run.gate("foreign-selector instances: satisfied and unsatisfied ones", foreign_sat > 0 && foreign_unsat > 0);
    run.extra.insert("only_failing_component_counts".into(), json!(COMPONENT_NAMES.iter().zip(only_fail.iter()).map(|(n, c)| (n.to_string(), *c)).collect::<std::collections::BTreeMap<_, _>>()));
    run.extra.insert("copy_only_cases".into(), json!(copy_only));
    run.extra.insert("compiles".into(), json!(cache.len()));
    run.assumptions = vec![
        "M1 (Appendix A.1) is the statement of the gate identities".into(),
        "separation-challenge cancellations (prob ~2^-250) do not occur".into(),
        "field values come from constructed assignments and +-1/+4/x2 perturbations, not the whole field".into(),
    ];
    run.finish()
}
