//! C03 — the verifier decides exactly the protocol's equation and transcript:
//! real `Verifier::verify_with_version` vs the reference verifier M2 on every
//! explored (verifier, proof, public inputs) triple.

use std::panic::{catch_unwind, AssertUnwindSafe};
use std::sync::Arc;

use dusk_bls12_381::{G1Affine, G1Projective};
use dusk_bytes::Serializable;
use dusk_jubjub::{JubJubScalar, GENERATOR_EXTENDED};
use dusk_plonk::prelude::*;
use dusk_plonk::verif::Snapshot;
use serde_json::{json, Value};

use crate::ev::{Run, Tier};
use crate::fe::*;
use crate::m2::{self, VerifierData, Version};
use crate::prog::Prog;

pub const VERSIONS: [Version; 3] = [Version::V3, Version::V2, Version::V1];

pub fn pv(v: Version) -> PlonkVersion {
    match v {
        Version::V1 => PlonkVersion::V1,
        Version::V2 => PlonkVersion::V2,
        Version::V3 => PlonkVersion::V3,
    }
}

pub fn to_hex(b: &[u8]) -> String {
    let mut s = String::with_capacity(b.len() * 2);
    for x in b {
        s.push_str(&format!("{:02x}", x));
    }
    s
}
pub fn from_hex_bytes(s: &str) -> Vec<u8> {
    let d: Vec<u8> = s.bytes().map(|c| (c as char).to_digit(16).expect("hex digit") as u8).collect();
    d.chunks(2).map(|p| (p[0] << 4) | p[1]).collect()
}

// ---------------------------------------------------------------------------
// Circuits
// ---------------------------------------------------------------------------

pub struct Circ {
    pub name: String,
    pub prog: Prog,
    pub prover: Prover,
    pub verifier: Verifier,
    pub vbytes: Vec<u8>,
    pub vd: VerifierData,
    /// snapshot of the compile run
    pub snap: Snapshot,
    /// commit-key points (for the legacy-profile proof derivation)
    pub powers: Arc<Vec<G1Affine>>,
}

/// Degree of the public parameters needed for a circuit of `constraints` rows.
pub fn trim_size(constraints: usize) -> usize {
    (constraints + 6).next_power_of_two()
}

pub fn compile(name: &str, prog: &Prog, label: &[u8]) -> Result<Circ, String> {
    let snap0 = prog.run().map_err(|e| format!("{}: circuit does not build: {:?}", name, e))?;
    let tn = trim_size(snap0.gates.len());
    let pp = crate::setup::pp(tn.max(64));
    let (prover, verifier) = Compiler::compile_with_circuit(&pp, label, prog).map_err(|e| format!("{}: compile: {:?}", name, e))?;
    let snap = prog.last_snapshot().ok_or("no snapshot")?;
    let vbytes = verifier.to_bytes();
    let vd = m2::parse_verifier(&vbytes).map_err(|e| format!("{}: M2 cannot parse Verifier::to_bytes(): {}", name, e))?;
    let powers = dusk_plonk::verif::kernels::trim(&pp, tn).map_err(|e| format!("{}: trim: {:?}", name, e))?.powers();
    Ok(Circ { name: name.to_string(), prog: prog.clone(), prover, verifier, vbytes, vd, snap, powers: Arc::new(powers) })
}

/// The named circuits of C03 (public composer components only).
pub fn circuit_progs() -> Vec<(&'static str, Prog)> {
    let mut v: Vec<(&'static str, Prog)> = Vec::new();
    // arithmetic only, two public inputs, the second one zero-valued
    v.push((
        "arith2pi",
        Prog::new(|c| {
            let a = c.append_witness(fe(3));
            let b = c.append_witness(fe(5));
            let m = c.gate_mul(Constraint::new().mult(1).a(a).b(b));
            let s = c.gate_add(Constraint::new().left(1).right(1).a(a).b(m));
            c.assert_equal_constant(s, fe(3), Some(fe(15)));
            let z = c.gate_add(Constraint::new().left(1).right(neg1()).a(a).b(a));
            c.assert_equal_constant(z, fe(0), Some(fe(0)));
            Ok(())
        }),
    ));
    // range gadget
    v.push((
        "range10",
        Prog::new(|c| {
            let w = c.append_public(fe(693));
            c.component_range_bits::<10>(w);
            Ok(())
        }),
    ));
    // logic gadget
    v.push((
        "xor4",
        Prog::new(|c| {
            let a = c.append_witness(fe(0xa5));
            let b = c.append_witness(fe(0x3c));
            let x = c.append_logic_xor::<4>(a, b);
            c.assert_equal_constant(x, fe(0), Some(fe(0xa5 ^ 0x3c)));
            Ok(())
        }),
    ));
    // fixed-base + variable-base widgets
    v.push((
        "ecc",
        Prog::new(|c| {
            let s = c.append_witness(JubJubScalar::from(7u64));
            let p = c.component_mul_generator(s, GENERATOR_EXTENDED)?;
            let q = c.component_add_point(p, p);
            c.assert_equal_public_point(q.into(), GENERATOR_EXTENDED * JubJubScalar::from(14u64))?;
            Ok(())
        }),
    ));
    // mixed: range + and + arithmetic + three public inputs
    v.push((
        "mixed",
        Prog::new(|c| {
            let a = c.append_public(fe(37));
            let b = c.append_witness(fe(11));
            c.component_range_bits::<6>(a);
            let x = c.append_logic_and::<3>(a, b);
            let m = c.gate_mul(Constraint::new().mult(1).a(x).b(b).constant(fe(2)));
            c.assert_equal_constant(m, fe(0), Some(fe((37 & 11) * 11 + 2)));
            let d = c.gate_add(Constraint::new().left(1).right(neg1()).fourth(1).a(a).b(a).d(b).public(fe(5)));
            c.assert_equal_constant(d, fe(16), None);
            Ok(())
        }),
    ));
    // no public inputs
    v.push((
        "nopi",
        Prog::new(|c| {
            let a = c.append_witness(fe(3));
            let b = c.append_witness(fe(5));
            let m = c.gate_mul(Constraint::new().mult(1).a(a).b(b));
            c.assert_equal_constant(m, fe(15), None);
            Ok(())
        }),
    ));
    v
}

pub fn circuit_names(tier: Tier) -> Vec<&'static str> {
    match tier {
        Tier::Quick => vec!["arith2pi", "range10", "xor4"],
        Tier::Thorough => vec!["arith2pi", "range10", "xor4", "ecc", "mixed", "nopi"],
    }
}

// ---------------------------------------------------------------------------
// Proofs
// ---------------------------------------------------------------------------

#[derive(Clone)]
pub struct Honest {
    pub circ: usize,
    pub ver: Version,
    /// RNG stream the proof was made with
    pub stream: u64,
    pub bytes: Vec<u8>,
    pub pis: Vec<Fe>,
    /// false for a V1 entry whose derivation failed (the bytes are then the V2
    /// proof, a placeholder both sides reject)
    pub ok: bool,
}

/// Honest proof through the real prover (V2, V3).
pub fn prove_real(c: &Circ, ver: Version, stream: u64) -> Result<(Vec<u8>, Vec<Fe>), String> {
    let mut rng = crate::rng::ScriptedRng::base(seed(), 300 + stream);
    let prog = c.prog.clone();
    let r = catch_unwind(AssertUnwindSafe(|| c.prover.prove_with_version(&mut rng, &prog, pv(ver))));
    match r {
        Err(e) => Err(format!("{}: prover panicked: {}", c.name, crate::par::panic_msg(e))),
        Ok(Err(e)) => Err(format!("{}: prove_with_version({}) failed: {:?}", c.name, ver.name(), e)),
        Ok(Ok((p, pis))) => Ok((p.to_bytes().to_vec(), pis)),
    }
}

/// The real prover cannot make legacy-profile (V1) proofs. A V1 proof is the
/// V2 proof whose W_z does not carry the four selector openings
/// (v^8 q_arith, v^9 q_c, v^10 q_l, v^11 q_r): subtract their quotient
/// commitments, computed here from the compiled rows and the commit key.
pub fn derive_v1(c: &Circ, v2_bytes: &[u8], pis: &[Fe]) -> Result<Vec<u8>, String> {
    let mut p = m2::parse_proof(v2_bytes)?;
    let ch = m2::challenges(&c.vd, &p, pis, Version::V2);
    let n = m2::domain_size(c.vd.n);
    if c.powers.len() < n {
        return Err("commit key shorter than the domain".into());
    }
    let elems = m2::domain_elements(n);
    let n_inv = inv(fe(n as u64));
    let mut w = G1Projective::from(p.comms[m2::W_Z_COMM]);
    let mut vpow = ch.v;
    for _ in 0..7 {
        vpow *= ch.v; // v^8
    }
    for (sel, ev) in [
        (crate::m1::QARITH, m2::Q_ARITH_EVAL),
        (crate::m1::QC, m2::Q_C_EVAL),
        (crate::m1::QL, m2::Q_L_EVAL),
        (crate::m1::QR, m2::Q_R_EVAL),
    ] {
        let mut col = vec![zero(); n];
        for (i, g) in c.snap.gates.iter().enumerate() {
            col[i] = g.q[sel];
        }
        // inverse DFT by definition
        let mut coeffs = vec![zero(); n];
        for k in 0..n {
            let mut acc = zero();
            for j in 0..n {
                if col[j] != zero() {
                    acc += col[j] * elems[(n - (j * k) % n) % n];
                }
            }
            coeffs[k] = acc * n_inv;
        }
        // value at z (Horner) must be the evaluation the proof carries
        let mut at_z = zero();
        for k in (0..n).rev() {
            at_z = at_z * ch.z + coeffs[k];
        }
        if at_z != p.evals[ev] {
            return Err(format!("selector polynomial rebuilt from the rows does not evaluate to {}", m2::EVAL_NAMES[ev]));
        }
        // (q(X) - q(z)) / (X - z) by synthetic division
        let mut quo = vec![zero(); n.saturating_sub(1)];
        let mut carry = zero();
        for k in (1..n).rev() {
            carry = coeffs[k] + ch.z * carry;
            quo[k - 1] = carry;
        }
        let mut comm = G1Projective::identity();
        for (k, q) in quo.iter().enumerate() {
            if *q != zero() {
                comm += G1Projective::from(c.powers[k]) * *q;
            }
        }
        w -= comm * vpow;
        vpow *= ch.v;
    }
    p.comms[m2::W_Z_COMM] = G1Affine::from(w);
    Ok(m2::proof_to_bytes(&p))
}

/// Two honest proofs (RNG streams 0, 1) per version for a circuit. A failed
/// V1 derivation (M2's challenges are not the ones the prover used) is returned
/// as a note and a placeholder, so that the comparison of the V2/V3 proofs
/// still runs and reports the underlying disagreement.
pub fn honest_proofs(ci: usize, c: &Circ, notes: &mut Vec<String>) -> Result<Vec<Honest>, String> {
    let mut out = Vec::new();
    for stream in 0..2u64 {
        let (b3, p3) = prove_real(c, Version::V3, stream)?;
        out.push(Honest { circ: ci, ver: Version::V3, stream, bytes: b3, pis: p3, ok: true });
        let (b2, p2) = prove_real(c, Version::V2, stream)?;
        let (b1, ok) = match derive_v1(c, &b2, &p2) {
            Ok(b) => (b, true),
            Err(e) => {
                notes.push(format!("{}: legacy (V1) proof derivation failed: {}", c.name, e));
                (b2.clone(), false)
            }
        };
        out.push(Honest { circ: ci, ver: Version::V2, stream, bytes: b2, pis: p2.clone(), ok: true });
        out.push(Honest { circ: ci, ver: Version::V1, stream, bytes: b1, pis: p2, ok });
    }
    Ok(out)
}

// ---------------------------------------------------------------------------
// The two sides
// ---------------------------------------------------------------------------

#[derive(Clone, Debug, PartialEq, Eq)]
pub enum Side {
    Accept,
    Reject,
    /// the side's proof decoder refused the bytes
    Undecodable,
    Panic(String),
}
impl Side {
    pub fn name(&self) -> &'static str {
        match self {
            Side::Accept => "accept",
            Side::Reject => "reject",
            Side::Undecodable => "undecodable",
            Side::Panic(_) => "panic",
        }
    }
    pub fn accepts(&self) -> bool {
        *self == Side::Accept
    }
    pub fn decoded(&self) -> bool {
        matches!(self, Side::Accept | Side::Reject)
    }
}

pub fn real_side(verifier: &Verifier, bytes: &[u8], pis: &[Fe], ver: Version) -> Side {
    let r = catch_unwind(AssertUnwindSafe(|| {
        let arr: Result<[u8; 1008], _> = bytes.try_into();
        let Ok(arr) = arr else { return Side::Undecodable };
        match Proof::from_bytes(&arr) {
            Err(_) => Side::Undecodable,
            Ok(p) => match verifier.verify_with_version(&p, pis, pv(ver)) {
                Ok(()) => Side::Accept,
                Err(_) => Side::Reject,
            },
        }
    }));
    match r {
        Ok(s) => s,
        Err(e) => Side::Panic(crate::par::panic_msg(e)),
    }
}

pub fn m2_side(vd: &VerifierData, bytes: &[u8], pis: &[Fe], ver: Version) -> Side {
    match m2::parse_proof(bytes) {
        Err(_) => Side::Undecodable,
        Ok(p) => {
            if m2::verify(vd, &p, pis, ver) {
                Side::Accept
            } else {
                Side::Reject
            }
        }
    }
}

// ---------------------------------------------------------------------------
// Triples
// ---------------------------------------------------------------------------

#[derive(Clone, Debug)]
pub enum Mutn {
    None,
    Flip(usize),
    /// replace the bytes of a proof field
    Field(usize, Vec<u8>),
    /// replace the whole proof (adversarially constructed bytes)
    Whole(Vec<u8>),
}

#[derive(Clone, Debug)]
pub struct Triple {
    /// verifier (circuit index)
    pub vcirc: usize,
    pub ver: Version,
    /// index of the honest proof the bytes derive from
    pub base: usize,
    pub m: Mutn,
    /// `None` = the base proof's public inputs
    pub pis: Option<Vec<Fe>>,
    /// coarse class for signatures / histogram
    pub class: String,
    /// field or edit name for signatures
    pub what: String,
}

pub struct Outcome {
    pub real: Side,
    pub m2: Side,
    pub hash: u64,
}

fn materialise(t: &Triple, honest: &[Honest]) -> (Vec<u8>, Vec<Fe>) {
    let h = &honest[t.base];
    let mut b = h.bytes.clone();
    match &t.m {
        Mutn::None => {}
        Mutn::Flip(bit) => b[bit / 8] ^= 1 << (bit % 8),
        Mutn::Field(f, nb) => {
            let (lo, hi) = m2::field_range(*f);
            b[lo..hi].copy_from_slice(nb);
        }
        Mutn::Whole(nb) => b = nb.clone(),
    }
    (b, t.pis.clone().unwrap_or_else(|| h.pis.clone()))
}

pub fn evaluate(t: &Triple, circs: &[Circ], honest: &[Honest]) -> Outcome {
    let (b, pis) = materialise(t, honest);
    let c = &circs[t.vcirc];
    let real = real_side(&c.verifier, &b, &pis, t.ver);
    let m2s = m2_side(&c.vd, &b, &pis, t.ver);
    let mut h = fnv(&b);
    h = (h ^ t.vcirc as u64).wrapping_mul(0x100000001b3);
    h = (h ^ t.ver as u64).wrapping_mul(0x100000001b3);
    for p in &pis {
        h = fnv_fe(h, p);
    }
    Outcome { real, m2: m2s, hash: h }
}

fn case_json(t: &Triple, circs: &[Circ], honest: &[Honest]) -> Value {
    let (b, pis) = materialise(t, honest);
    json!({
        "circuit": circs[t.vcirc].name,
        "version": t.ver.name(),
        "class": t.class,
        "what": t.what,
        "proof_of": circs[honest[t.base].circ].name,
        "proof_version": honest[t.base].ver.name(),
        "proof_hex": to_hex(&b),
        "pis": pis.iter().map(hex).collect::<Vec<_>>(),
    })
}

/// The honest proof of (circuit, version, stream).
fn find(honest: &[Honest], circ: usize, ver: Version, stream: u64) -> usize {
    honest.iter().position(|h| h.circ == circ && h.ver == ver && h.stream == stream).expect("honest proof exists")
}

/// Which (circuit, version) pairs get all 8064 flips: every pair in the thorough
/// tier; in the quick tier every circuit under V3 plus the first circuit under
/// V1, whose batched opening differs (the other pairs get one flipped bit in
/// each of the 1008 bytes).
pub fn all_flips(tier: Tier, ci: usize, ver: Version) -> bool {
    tier == Tier::Thorough || ver == Version::V3 || (ci == 0 && ver == Version::V1)
}

pub fn enumerate(tier: Tier, circs: &[Circ], honest: &[Honest]) -> Vec<Triple> {
    let mut out = Vec::new();
    let gen = G1Affine::generator().to_compressed().to_vec();
    let ident = G1Affine::identity().to_compressed().to_vec();
    for ci in 0..circs.len() {
        for ver in VERSIONS {
            let b0 = find(honest, ci, ver, 0);
            let b1 = find(honest, ci, ver, 1);
            let t0 = Triple { vcirc: ci, ver, base: b0, m: Mutn::None, pis: None, class: "honest".into(), what: circs[ci].name.clone() };
            // (a) honest proofs
            out.push(t0.clone());
            out.push(Triple { base: b1, ..t0.clone() });
            // (b) every single-bit flip
            for bit in 0..m2::PROOF_SIZE * 8 {
                if !all_flips(tier, ci, ver) && bit % 8 != (bit / 8) % 8 {
                    continue;
                }
                out.push(Triple { m: Mutn::Flip(bit), class: "flip".into(), what: m2::field_name(m2::field_of_byte(bit / 8)).into(), ..t0.clone() });
            }
            // (c) field replacements
            let hb = &honest[b0].bytes;
            let other = &honest[b1].bytes;
            for f in 0..m2::N_FIELDS {
                let (lo, hi) = m2::field_range(f);
                let name = m2::field_name(f);
                let kind: Vec<usize> = if f < 11 { (0..11).collect() } else { (11..26).collect() };
                for g in kind {
                    if g != f {
                        let (glo, ghi) = m2::field_range(g);
                        out.push(Triple { m: Mutn::Field(f, hb[glo..ghi].to_vec()), class: "repl-same-proof".into(), what: name.into(), ..t0.clone() });
                    }
                }
                out.push(Triple { m: Mutn::Field(f, other[lo..hi].to_vec()), class: "repl-other-proof".into(), what: name.into(), ..t0.clone() });
                if f < 11 {
                    out.push(Triple { m: Mutn::Field(f, gen.clone()), class: "repl-generator".into(), what: name.into(), ..t0.clone() });
                    out.push(Triple { m: Mutn::Field(f, ident.clone()), class: "repl-identity".into(), what: name.into(), ..t0.clone() });
                } else {
                    let val = m2::decode_fe(&hb[lo..hi]).expect("honest evaluation decodes");
                    out.push(Triple { m: Mutn::Field(f, zero().to_bytes().to_vec()), class: "repl-zero".into(), what: name.into(), ..t0.clone() });
                    out.push(Triple { m: Mutn::Field(f, (val + one()).to_bytes().to_vec()), class: "repl-plus1".into(), what: name.into(), ..t0.clone() });
                    out.push(Triple { m: Mutn::Field(f, (val - one()).to_bytes().to_vec()), class: "repl-minus1".into(), what: name.into(), ..t0.clone() });
                }
            }
            // (d) verifier x proof matrix: proofs of every other circuit
            for cj in 0..circs.len() {
                if cj != ci {
                    out.push(Triple { base: find(honest, cj, ver, 0), class: "matrix".into(), what: format!("proof-of-{}", circs[cj].name), ..t0.clone() });
                }
            }
            // cross-version: the proofs made for the other versions
            for pver in VERSIONS {
                if pver != ver {
                    out.push(Triple { base: find(honest, ci, pver, 0), class: "xver".into(), what: format!("proof-{}", pver.name()), ..t0.clone() });
                }
            }
            // (e) public-input edits
            let pis = honest[b0].pis.clone();
            let mut edits: Vec<(String, Vec<Fe>)> = Vec::new();
            for i in 0..pis.len() {
                let mut p = pis.clone();
                p[i] += one();
                edits.push(("plus1".into(), p));
                let mut p = pis.clone();
                p[i] -= one();
                edits.push(("minus1".into(), p));
                let mut p = pis.clone();
                p.remove(i);
                edits.push(("dropped".into(), p));
                for j in i + 1..pis.len() {
                    let mut p = pis.clone();
                    p.swap(i, j);
                    edits.push(("swapped".into(), p));
                }
            }
            let mut p = pis.clone();
            p.push(zero());
            edits.push(("extended-zero".into(), p));
            let mut p = pis.clone();
            p.push(pis.last().copied().unwrap_or(one()));
            edits.push(("extended-dup".into(), p));
            let mut p = pis.clone();
            p.insert(0, zero());
            edits.push(("prepended-zero".into(), p));
            for (nm, p) in edits {
                out.push(Triple { pis: Some(p), class: "pi-edit".into(), what: nm, ..t0.clone() });
            }
            // (f) adaptive opening witnesses: `u` is the only challenge the prover
            // never uses, so no honest proof shows whether it depends on the two
            // opening commitments. Solve them for the `u` a verifier would draw
            // BEFORE absorbing them: on the honest proof, on the honest proof with a
            // wrong public input, and on an all-identity proof.
            let hb = &honest[b0];
            if let Ok(pd0) = m2::parse_proof(&hb.bytes) {
                let mut targets: Vec<(&str, m2::ProofData, Vec<Fe>)> = vec![("honest", pd0.clone(), hb.pis.clone())];
                if !hb.pis.is_empty() {
                    let mut wrong = hb.pis.clone();
                    wrong[0] += one();
                    targets.push(("wrong-pi", pd0.clone(), wrong));
                }
                let mut idp = pd0.clone();
                for k in 0..11 {
                    idp.comms[k] = G1Affine::identity();
                }
                for e in idp.evals.iter_mut() {
                    *e = zero();
                }
                let mut lie = hb.pis.clone();
                if !lie.is_empty() {
                    lie[0] += fe(2);
                }
                targets.push(("all-identity", idp, lie));
                // coordinated faults: commitment i shifted by +T and commitment j by -T, T in the
                // cofactor torsion: each field alone is not an element of G1, their sum is
                if let Some(t) = m2::cofactor_torsion_point() {
                    for i in 0..11usize {
                        for j in 0..11usize {
                            if i == j || (tier == Tier::Quick && !(j == i + 1 || (i, j) == (10, 9) || (i, j) == (0, 10))) {
                                continue;
                            }
                            let mut pd = pd0.clone();
                            pd.comms[i] = G1Affine::from(G1Projective::from(pd.comms[i]) + t);
                            pd.comms[j] = G1Affine::from(G1Projective::from(pd.comms[j]) - t);
                            out.push(Triple { m: Mutn::Whole(m2::proof_to_bytes(&pd)), pis: Some(hb.pis.clone()), class: "torsion-pair".into(), what: format!("{}+T,{}-T", m2::COMM_NAMES[i], m2::COMM_NAMES[j]), ..t0.clone() });
                        }
                    }
                }
                for (nm, pd, pis) in targets {
                    let ch = m2::challenges_u_before_openings(&circs[ci].vd, &pd, &pis, ver);
                    if let Some(f) = m2::forge_openings(&circs[ci].vd, &pd, &pis, ver, ch) {
                        out.push(Triple { m: Mutn::Whole(m2::proof_to_bytes(&f)), pis: Some(pis), class: "adaptive-openings".into(), what: nm.into(), ..t0.clone() });
                    }
                }
            }
        }
    }
    out
}

// ---------------------------------------------------------------------------
// Driver
// ---------------------------------------------------------------------------

pub fn build(names: &[&str], label: &[u8]) -> Result<(Vec<Circ>, Vec<Honest>, Vec<String>), String> {
    let progs = circuit_progs();
    let mut circs = Vec::new();
    for n in names {
        let (_, p) = progs.iter().find(|(k, _)| k == n).ok_or(format!("unknown circuit {}", n))?;
        circs.push(compile(n, p, label)?);
    }
    let mut honest = Vec::new();
    let mut notes = Vec::new();
    for (i, c) in circs.iter().enumerate() {
        honest.extend(honest_proofs(i, c, &mut notes)?);
    }
    Ok((circs, honest, notes))
}

pub fn main(tier: Tier, replay: Option<Value>) -> i32 {
    let mut run = Run::new("C03", tier, "model_checking");
    run.rule = "triples = (verifier of circuit c, version, proof bytes, public inputs): honest proofs (two RNG scripts; V1 proofs derived from V2 proofs by removing the selector openings from W_z), every single-bit flip of the 1008 proof bytes (quick tier: all 8064 flips for the pairs listed in bounds.all_8064_flips_for, one bit in every byte for the other pairs), every proof field replaced by every other field of its kind / the same field of a second proof / generator, identity / 0, value+-1, every other circuit's proof, the proofs of the other versions, public-input edits; each triple is decided by the real verifier (Proof::from_bytes + verify_with_version) and by the reference verifier M2 (bytes in, two pairings out); non-trivial = distinct triples on which both sides decoded the proof and ran their full decision".into();
    if let Err(e) = m2::selfcheck() {
        run.machinery(format!("M2 self-check: {}", e));
        return run.finish();
    }
    let names: Vec<&str> = if replay.is_some() { circuit_names(Tier::Thorough) } else { circuit_names(tier) };
    let (circs, honest, notes) = match build(&names, b"c03") {
        Ok(x) => x,
        Err(e) => {
            run.machinery(e);
            return run.finish();
        }
    };

    if let Some(r) = replay {
        run.set_replay_mode();
        let case = &r["case"];
        let cname = case["circuit"].as_str().unwrap_or("");
        let Some(c) = circs.iter().find(|c| c.name == cname) else {
            run.machinery(format!("replay: unknown circuit {}", cname));
            return run.finish();
        };
        let ver = match case["version"].as_str().unwrap_or("") {
            "V1" => Version::V1,
            "V2" => Version::V2,
            _ => Version::V3,
        };
        let bytes = from_hex_bytes(case["proof_hex"].as_str().unwrap_or(""));
        let pis: Vec<Fe> = case["pis"].as_array().map(|a| a.iter().map(|x| from_hex(x.as_str().unwrap_or("0"))).collect()).unwrap_or_default();
        let (r1, m1) = (real_side(&c.verifier, &bytes, &pis, ver), m2_side(&c.vd, &bytes, &pis, ver));
        let (r2, m2b) = (real_side(&c.verifier, &bytes, &pis, ver), m2_side(&c.vd, &bytes, &pis, ver));
        if r1 != r2 || m1 != m2b {
            run.machinery("replay diverged between two executions".into());
        }
        println!("replay {} {}: real={:?} m2={:?}", cname, ver.name(), r1, m1);
        if r1.accepts() != m1.accepts() || r1.decoded() != m1.decoded() || matches!(r1, Side::Panic(_)) {
            run.violation("replay", "real verifier and M2 still disagree", case.clone());
        }
        return run.finish();
    }

    let triples = enumerate(tier, &circs, &honest);
    run.bound("circuits", json!(circs.iter().map(|c| json!({"name": c.name, "constraints": c.vd.constraints, "domain": m2::domain_size(c.vd.n), "public_inputs": c.vd.pi_rows.len()})).collect::<Vec<_>>()));
    run.bound("versions", json!(["V3", "V2", "V1"]));
    run.bound("triples", json!(triples.len()));
    run.bound("bit_flips_per_proof", json!(m2::PROOF_SIZE * 8));
    run.bound(
        "all_8064_flips_for",
        json!((0..circs.len()).flat_map(|ci| VERSIONS.iter().filter(move |v| all_flips(tier, ci, **v)).map(move |v| (ci, *v))).map(|(ci, v)| format!("{}/{}", circs[ci].name, v.name())).collect::<Vec<_>>()),
    );
    run.states = (circs.len() * VERSIONS.len()) as u64;

    let outs = crate::par::par_map(&triples, |t| evaluate(t, &circs, &honest));

    let mut accepts = std::collections::BTreeMap::<(usize, &'static str), u64>::new();
    let mut decodable_rejected_flip = [0u64; m2::N_FIELDS];
    let mut class_hist = std::collections::BTreeMap::<String, [u64; 3]>::new();
    for (t, o) in triples.iter().zip(outs) {
        run.transitions += 1;
        run.evaluations += 1;
        let o = match o {
            Ok(o) => o,
            Err(p) => {
                run.machinery(format!("harness panic on {}/{}: {}", t.class, t.what, p));
                continue;
            }
        };
        run.traces_validated += 1;
        run.outcome(&format!("real:{}", o.real.name()));
        run.outcome(&format!("m2:{}", o.m2.name()));
        let e = class_hist.entry(t.class.clone()).or_insert([0; 3]);
        e[match o.real {
            Side::Accept => 0,
            Side::Reject => 1,
            _ => 2,
        }] += 1;
        if o.real.decoded() && o.m2.decoded() {
            run.nontrivial(o.hash);
        }
        // non-vacuity of the accept side: either verifier accepting counts (a
        // disagreement is reported as a violation below, not as a tripped gate)
        if (o.real.accepts() || o.m2.accepts()) && t.class == "honest" {
            *accepts.entry((t.vcirc, t.ver.name())).or_insert(0) += 1;
        }
        if let Mutn::Flip(bit) = t.m {
            if o.real == Side::Reject && o.m2 == Side::Reject {
                decodable_rejected_flip[m2::field_of_byte(bit / 8)] += 1;
            }
        }
        if run.transitions % 9973 == 1 {
            run.sample(json!({"circuit": circs[t.vcirc].name, "version": t.ver.name(), "class": t.class, "what": t.what, "real": o.real.name(), "m2": o.m2.name()}));
        }
        let tag = if t.class == "honest" || t.class == "matrix" || t.class == "xver" { format!("{}={}", if t.class == "honest" { "circuit" } else { "what" }, t.what) } else { format!("field={}", t.what) };
        if let Side::Panic(msg) = &o.real {
            run.violation(
                &format!("panic/{}/{}/ver={}", t.class, tag, t.ver.name()),
                &format!("real verifier panicked: {}", msg),
                case_json(t, &circs, &honest),
            );
            continue;
        }
        if o.real.decoded() != o.m2.decoded() {
            run.violation(
                &format!("decode/{}/{}/real={}/m2={}", t.class, tag, if o.real.decoded() { "decodes" } else { "refuses" }, if o.m2.decoded() { "decodes" } else { "refuses" }),
                "Proof::from_bytes and the reference decoder disagree on these proof bytes",
                case_json(t, &circs, &honest),
            );
        }
        if o.real.accepts() != o.m2.accepts() {
            run.violation(
                &format!("{}/{}/real={}/m2={}/ver={}", t.class, tag, o.real.name(), o.m2.name(), t.ver.name()),
                &format!("circuit {}: real verifier says {} but the reference verifier says {}", circs[t.vcirc].name, o.real.name(), o.m2.name()),
                case_json(t, &circs, &honest),
            );
        }
    }
    // A failed V1 derivation means M2's transcript is not the prover's; that must
    // already have shown up as a disagreement on the V2/V3 proofs.
    if !notes.is_empty() {
        run.extra.insert("v1_derivation_failures".into(), json!(notes));
        if run.violations + run.known == 0 {
            run.machinery(format!("V1 proof derivation failed without any reported disagreement: {}", notes[0]));
        }
    }
    for ci in 0..circs.len() {
        for ver in VERSIONS {
            if !honest[find(&honest, ci, ver, 0)].ok {
                continue;
            }
            let n = accepts.get(&(ci, ver.name())).copied().unwrap_or(0);
            run.gate(&format!(">=1 honest proof of {} accepted under {}", circs[ci].name, ver.name()), n > 0);
        }
    }
    for f in 0..m2::N_FIELDS {
        run.gate(&format!(">=1 decodable-but-rejected bit flip in field {}", m2::field_name(f)), decodable_rejected_flip[f] > 0);
    }
    run.extra.insert("decodable_rejected_flips_per_field".into(), json!((0..m2::N_FIELDS).map(|f| (m2::field_name(f).to_string(), decodable_rejected_flip[f])).collect::<std::collections::BTreeMap<_, _>>()));
    run.extra.insert("real_accept_reject_undecodable_per_class".into(), json!(class_hist));
    run.assumptions = vec![
        "M2 (Appendix A.2/A.3) is the statement of the protocol; its trusted base is dusk-bls12_381 arithmetic/pairing/point decoding and merlin".into(),
        "a challenge z landing in the evaluation domain (prob ~2^-246) does not occur: M2 rejects every domain point, the code only z=1 and rows carrying a non-zero public input".into(),
        "V1 honest proofs are derived from V2 proofs by the harness (the crate cannot prove under V1)".into(),
    ];
    run.finish()
}
