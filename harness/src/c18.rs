//! C18 — compilation and proving are deterministic and schedule-independent.
//!
//! Parts: (a) schedule exploration under the rayon / hashbrown shims (separate
//! workspace /verif/harness-sched, run as a sub-process and merged); (b) fresh
//! processes of the normal build (OS-random hash seeds); (c) real rayon pools
//! of 1..=17 threads; (d) std vs alloc-only build; (e) E6: controlled thread
//! scheduler over the process-wide transcript label cache; (f) free-running
//! 16-thread pass on shared keys; (g) reference prover M3 for n <= 64.

use std::collections::HashMap;
use std::process::Command;
use std::sync::{Arc, Condvar, Mutex};

use dusk_bytes::Serializable;
use dusk_plonk::prelude::*;
use serde_json::{json, Value};

use crate::ev::{Run, Tier};
use crate::fe::*;
use crate::plain_subjects as plain;
use crate::subjects::{self, Artefacts};

fn diff_parts(a: &Artefacts, b: &Artefacts) -> Vec<&'static str> {
    a.parts().iter().zip(b.parts().iter()).filter(|(x, y)| x.1 != y.1).map(|(x, _)| x.0).collect()
}

fn exec_subject(id: &str) -> Result<Artefacts, String> {
    let s = subjects::subject(id);
    let pp = subjects::pp_for(&s);
    let mut noop = |_: &'static str| {};
    match std::panic::catch_unwind(std::panic::AssertUnwindSafe(|| subjects::execute(&s, &pp, &mut noop))) {
        Ok(r) => r,
        Err(e) => Err(format!("panic: {}", crate::par::panic_msg(e))),
    }
}

/// Child mode: print the hash lines of the requested subjects (fresh process).
fn child_hashes() -> i32 {
    let ids = std::env::var("VP_C18_CHILD").unwrap_or_default();
    for id in ids.split(',').filter(|s| !s.is_empty()) {
        if let Some(p) = id.strip_prefix("plain:") {
            println!("{}", plain::hash_line(p));
        } else {
            match exec_subject(id) {
                Ok(a) => println!("{} verified={}", a.hash_line(id), a.verified),
                Err(e) => println!("child-error circuit={} {}", id, e),
            }
        }
    }
    0
}

fn spawn_self(ids: &str, threads: Option<usize>) -> Result<Vec<String>, String> {
    let exe = std::env::current_exe().map_err(|e| e.to_string())?;
    let mut cmd = Command::new(exe);
    cmd.args(["C18", "quick"]).env("VP_C18_CHILD", ids);
    if let Some(t) = threads {
        cmd.env("RAYON_NUM_THREADS", t.to_string());
    }
    let out = cmd.output().map_err(|e| e.to_string())?;
    if !out.status.success() {
        return Err(format!("child exited with {:?}: {}", out.status.code(), String::from_utf8_lossy(&out.stderr)));
    }
    Ok(String::from_utf8_lossy(&out.stdout).lines().map(|l| l.to_string()).collect())
}

// ------------------------------------------------------------------ (a)
fn part_sched(run: &mut Run, tier: Tier) {
    let dir = "/verif/harness-sched";
    let build = Command::new("cargo").args(["build", "--offline", "--profile", "verif"]).current_dir(dir).env("CARGO_NET_OFFLINE", "true").output();
    match build {
        Ok(o) if o.status.success() => {}
        Ok(o) => {
            run.machinery(format!("harness-sched build failed: {}", String::from_utf8_lossy(&o.stderr).lines().rev().take(12).collect::<Vec<_>>().join(" | ")));
            return;
        }
        Err(e) => {
            run.machinery(format!("cannot run cargo for harness-sched: {}", e));
            return;
        }
    }
    let out = Command::new("/verif/target-sched/verif/vp-sched").args(["C18", tier.name()]).current_dir(dir).output();
    let out = match out {
        Ok(o) => o,
        Err(e) => {
            run.machinery(format!("cannot run vp-sched: {}", e));
            return;
        }
    };
    let stdout = String::from_utf8_lossy(&out.stdout).to_string();
    let code = out.status.code().unwrap_or(-1);
    // re-emit violation lines of the explorer under this check
    for l in stdout.lines() {
        if l.starts_with("VIOLATION property=C18") {
            let path = l.split("replay=").nth(1).unwrap_or("").to_string();
            let sig = std::path::Path::new(&path).file_stem().map(|s| s.to_string_lossy().to_string()).unwrap_or_else(|| "sched".into());
            run.violation(&format!("sched/{}", sig), "schedule explorer (rayon / hashbrown shims) found a schedule-dependent result", json!({"name": "sched", "explorer_replay": path}));
        }
    }
    if code >= 2 || code < 0 {
        run.machinery(format!("vp-sched exited with {} : {}", code, String::from_utf8_lossy(&out.stderr).lines().rev().take(6).collect::<Vec<_>>().join(" | ")));
    }
    if code == 1 && run.violations == 0 {
        run.machinery("vp-sched reported exit 1 without a VIOLATION line".into());
    }
    // merge its evidence
    let evp = format!("{}/evidence/C18-sched.json", crate::ev::verif_dir());
    match std::fs::read_to_string(&evp).ok().and_then(|s| serde_json::from_str::<Value>(&s).ok()) {
        None => run.machinery("C18-sched.json missing after the explorer run".into()),
        Some(v) => {
            let c = &v["coverage"];
            run.states += c["states"].as_u64().unwrap_or(0);
            run.transitions += c["transitions"].as_u64().unwrap_or(0);
            run.traces_validated += c["traces_validated_against_impl"].as_u64().unwrap_or(0);
            run.evaluations += c["evaluations"].as_u64().unwrap_or(0);
            run.outcome_n("sched:schedules", c["states"].as_u64().unwrap_or(0));
            run.outcome_n("sched:schedules-with-a-real-permutation", c["distinct_nontrivial"].as_u64().unwrap_or(0));
            for i in 0..c["distinct_nontrivial"].as_u64().unwrap_or(0) {
                run.nontrivial(fnv(format!("sched-{}", i).as_bytes()));
            }
            if !c["exhaustive"].as_bool().unwrap_or(false) {
                run.exhaustive = false;
            }
            run.extra.insert("sched_explorer".into(), json!({"bounds": c["bounds"], "outcomes": c["outcomes"], "exhaustive": c["exhaustive"], "capped": c["capped"], "rule": c["rule"], "assumptions": v["assumptions"]}));
            if let Some(s) = c["samples"].as_array().and_then(|a| a.first()) {
                run.sample(json!({"part": "sched", "sample": s}));
            }
        }
    }
    // cross-build conformance: the shim build's reference bytes equal the real build's
    let mut shim: HashMap<String, String> = HashMap::new();
    for l in stdout.lines() {
        if let Some(rest) = l.strip_prefix("key-hash circuit=") {
            let id = rest.split(' ').next().unwrap_or("").to_string();
            shim.insert(id, l.to_string());
        }
    }
    run.gate("shim build printed reference hashes", !shim.is_empty());
    for (id, line) in shim {
        match exec_subject(&id) {
            Err(e) => run.violation(&format!("conformance/{}/real-build-failed", id), &e, json!({"name": "conformance", "circuit": id})),
            Ok(a) => {
                run.transitions += 1;
                run.traces_validated += 1;
                if a.hash_line(&id) != line {
                    run.violation(&format!("conformance/{}/shim-vs-real-bytes-differ", id), &format!("reference bytes under the shims differ from the real rayon/hashbrown build:\n  shim: {}\n  real: {}", line, a.hash_line(&id)), json!({"name": "conformance", "circuit": id}));
                } else {
                    run.outcome("conformance:shim-build-equals-real-build");
                }
            }
        }
    }
}

// ------------------------------------------------------------------ (b)(c)(d)
fn part_processes_pools_builds(run: &mut Run, tier: Tier) -> HashMap<String, Artefacts> {
    let ids: Vec<&str> = tier.pick(subjects::POOLS_QUICK.to_vec(), subjects::POOLS_THOROUGH.to_vec());
    let mut refs: HashMap<String, Artefacts> = HashMap::new();
    for id in &ids {
        match exec_subject(id) {
            Err(e) => run.violation(&format!("reference/{}/failed", id), &e, json!({"name": "reference", "circuit": id})),
            Ok(a) => {
                if !a.verified {
                    run.violation(&format!("reference/{}/not-verified", id), "reference proof does not verify", json!({"name": "reference", "circuit": id}));
                }
                if id.starts_with('f') {
                    let log_n: u32 = id[1..].parse().unwrap_or(0);
                    run.gate(&format!("subject {} fills its domain exactly ({} constraints)", id, a.constraints), a.constraints == 1usize << log_n);
                }
                // repeated run in the same process
                match exec_subject(id) {
                    Ok(b) if b == a => run.outcome("repeat:identical"),
                    Ok(b) => run.violation(&format!("repeat/{}/differs", id), &format!("second run in the same process differs in {:?}", diff_parts(&a, &b)), json!({"name": "repeat", "circuit": id})),
                    Err(e) => run.violation(&format!("repeat/{}/failed", id), &e, json!({"name": "repeat", "circuit": id})),
                }
                run.transitions += 2;
                run.traces_validated += 2;
                run.nontrivial(fnv(a.hash_line(id).as_bytes()));
                run.sample(json!({"part": "reference", "line": a.hash_line(id), "constraints": a.constraints}));
                refs.insert(id.to_string(), a);
            }
        }
    }
    // (c) explicit rayon pools
    let threads: Vec<usize> = tier.pick(vec![1, 2, 3, 4, 5, 6, 7, 17], (1..=17).chain([24, 32]).collect());
    for id in &ids {
        let Some(r) = refs.get(*id) else { continue };
        for t in &threads {
            let pool = rayon::ThreadPoolBuilder::new().num_threads(*t).build().expect("pool");
            let a = pool.install(|| exec_subject(id));
            run.transitions += 1;
            run.traces_validated += 1;
            run.nontrivial(fnv(format!("pool{}{}", id, t).as_bytes()));
            match a {
                Ok(a) if a == *r => run.outcome("pool:identical"),
                Ok(a) => run.violation(&format!("pool/{}/threads-dependent", id), &format!("with a pool of {} threads {:?} differ from the reference", t, diff_parts(r, &a)), json!({"name": "pool", "circuit": id, "threads": t})),
                Err(e) => run.violation(&format!("pool/{}/failed", id), &format!("{} threads: {}", t, e), json!({"name": "pool", "circuit": id, "threads": t})),
            }
        }
    }
    // (b) fresh processes (per-process random hash seeds), also with RAYON_NUM_THREADS
    let plain_ids: Vec<&str> = tier.pick(vec!["p5", "p9"], vec!["p5", "p9", "p10", "p12"]);
    let all: String = ids.iter().map(|s| s.to_string()).chain(plain_ids.iter().map(|p| format!("plain:{}", p))).collect::<Vec<_>>().join(",");
    let mut plain_ref: HashMap<String, String> = HashMap::new();
    for (k, thr) in [(0, None), (1, None), (2, Some(3usize)), (3, Some(7usize))].iter().take(tier.pick(3, 4)) {
        match spawn_self(&all, *thr) {
            Err(e) => run.machinery(format!("fresh process {} failed: {}", k, e)),
            Ok(lines) => {
                for l in lines {
                    run.transitions += 1;
                    run.traces_validated += 1;
                    if let Some(rest) = l.strip_prefix("key-hash circuit=") {
                        let id = rest.split(' ').next().unwrap_or("");
                        if let Some(r) = refs.get(id) {
                            let want = format!("{} verified={}", r.hash_line(id), r.verified);
                            if l != want {
                                run.violation(&format!("fresh-process/{}/differs", id), &format!("fresh process {} (RAYON_NUM_THREADS={:?}) produced different bytes:\n  got:  {}\n  want: {}", k, thr, l, want), json!({"name": "fresh-process", "circuit": id}));
                            } else {
                                run.outcome("fresh-process:identical");
                            }
                        }
                    } else if let Some(rest) = l.strip_prefix("plain-hash circuit=") {
                        let id = rest.split(' ').next().unwrap_or("").to_string();
                        match plain_ref.get(&id) {
                            None => {
                                plain_ref.insert(id, l);
                            }
                            Some(w) if *w == l => run.outcome("fresh-process:identical"),
                            Some(w) => run.violation(&format!("fresh-process/plain-{}/differs", id), &format!("got {} want {}", l, w), json!({"name": "fresh-process", "circuit": id})),
                        }
                    } else if l.starts_with("child-error") {
                        run.violation("fresh-process/child-error", &l, json!({"name": "fresh-process"}));
                    }
                }
            }
        }
    }
    // (d) alloc-only build
    let dir = "/verif/harness-nostd";
    let build = Command::new("cargo").args(["build", "--offline", "--profile", "verif"]).current_dir(dir).env("CARGO_NET_OFFLINE", "true").output();
    match build {
        Ok(o) if o.status.success() => {
            let out = Command::new("/verif/target-nostd/verif/vp-alloc").args(&plain_ids).output();
            match out {
                Ok(o) if o.status.success() => {
                    for l in String::from_utf8_lossy(&o.stdout).lines() {
                        if let Some(rest) = l.strip_prefix("plain-hash circuit=") {
                            let id = rest.split(' ').next().unwrap_or("").to_string();
                            run.transitions += 1;
                            run.traces_validated += 1;
                            run.nontrivial(fnv(l.as_bytes()));
                            // std build, in process
                            let std_line = plain::hash_line(&id);
                            if std_line != l {
                                run.violation(&format!("alloc-only/{}/differs-from-std", id), &format!("alloc-only build: {}\n  std build:        {}", l, std_line), json!({"name": "alloc-only", "circuit": id}));
                            } else {
                                run.outcome("alloc-only:identical-to-std");
                            }
                            if let Some(w) = plain_ref.get(&id) {
                                if w != l {
                                    run.violation(&format!("alloc-only/{}/differs-from-fresh-process", id), &format!("{} vs {}", l, w), json!({"name": "alloc-only", "circuit": id}));
                                }
                            }
                        }
                    }
                }
                Ok(o) => run.violation("alloc-only/run-failed", &format!("vp-alloc exited with {:?}: {}", o.status.code(), String::from_utf8_lossy(&o.stderr)), json!({"name": "alloc-only"})),
                Err(e) => run.machinery(format!("cannot run vp-alloc: {}", e)),
            }
        }
        Ok(o) => run.machinery(format!("alloc-only workspace build failed: {}", String::from_utf8_lossy(&o.stderr).lines().rev().take(10).collect::<Vec<_>>().join(" | "))),
        Err(e) => run.machinery(format!("cannot run cargo for harness-nostd: {}", e)),
    }
    refs
}

// ------------------------------------------------------------------ (g)
fn part_m3(run: &mut Run) {
    // the 2^5 subject has n = 32 <= 64: equal to the reference prover M3
    let s = subjects::subject("g5");
    let pp = subjects::pp_for(&s);
    let Ok((prover, _)) = subjects::phase_compile(&s, &pp) else { return };
    let mut rng = subjects::rng(&s);
    let draws: Vec<Fe> = rng.draws.clone();
    let Ok((proof, _)) = prover.prove(&mut rng, &s.prog) else { return };
    let Some(snap) = s.prog.last_snapshot() else { return };
    run.transitions += 1;
    let pd = match crate::m3::parse_prover(&prover.to_bytes()) {
        Ok(p) => p,
        Err(e) => {
            run.machinery(format!("m3 parse_prover: {}", e));
            return;
        }
    };
    let inst = crate::m3::Instance::from_snapshot(&snap);
    let mut d14 = [zero(); 14];
    d14.copy_from_slice(&draws[..14]);
    match crate::m3::prove(&pd, &inst, &d14, crate::m3::Version::V3, &crate::m3::Adversary::default()) {
        Ok((bytes, _)) => {
            run.traces_validated += 1;
            if bytes != proof.to_bytes().to_vec() {
                run.violation("m3/g5/proof-differs-from-reference-prover", "real proof of the 2^5 subject differs from the naive reference prover M3", json!({"name": "m3"}));
            } else {
                run.outcome("m3:identical");
            }
        }
        Err(e) => run.machinery(format!("m3 prove failed: {}", e)),
    }
}

// ------------------------------------------------------------------ (e) E6
/// Controlled scheduler: worker threads park at scheduling points (operation
/// boundaries and the label-cache lock region, reported by the hook in
/// transcript.rs); the controller runs exactly one thread at a time and
/// explores every choice sequence up to a preemption bound.
struct Ctl {
    m: Mutex<CtlState>,
    cv: Condvar,
}
struct CtlState {
    /// per thread: parked at a point (Some(desc)) / running (None)
    parked: Vec<Option<String>>,
    done: Vec<bool>,
    granted: Option<usize>,
}

thread_local! {
    static TID: std::cell::Cell<Option<usize>> = const { std::cell::Cell::new(None) };
    static CTL: std::cell::RefCell<Option<Arc<Ctl>>> = const { std::cell::RefCell::new(None) };
}

fn point(desc: &str) {
    let tid = TID.with(|t| t.get());
    let ctl = CTL.with(|c| c.borrow().clone());
    let (Some(tid), Some(ctl)) = (tid, ctl) else { return };
    let mut g = ctl.m.lock().unwrap();
    g.parked[tid] = Some(desc.to_string());
    ctl.cv.notify_all();
    while g.granted != Some(tid) {
        g = ctl.cv.wait(g).unwrap();
    }
    g.granted = None;
    g.parked[tid] = None;
}

#[derive(Clone)]
enum Op {
    ProveV3 { key: usize, stream: u64 },
    Verify { key: usize },
    /// compile under a label first seen inside the execution
    Compile,
}

struct Shared {
    provers: Vec<Prover>,
    verifiers: Vec<Verifier>,
    progs: Vec<crate::prog::Prog>,
    proofs: Vec<(Proof, Vec<Fe>)>,
    pp: Arc<PublicParameters>,
    fresh_label: Vec<u8>,
}

fn run_op(sh: &Shared, op: &Op) -> Vec<u8> {
    match op {
        Op::ProveV3 { key, stream } => {
            let mut rng = crate::rng::ScriptedRng::base(seed(), *stream);
            let p = sh.progs[*key].with_overrides(vec![]);
            match sh.provers[*key].prove(&mut rng, &p) {
                Ok((proof, pis)) => {
                    let mut v = proof.to_bytes().to_vec();
                    for x in pis {
                        v.extend_from_slice(&x.to_bytes());
                    }
                    v
                }
                Err(e) => format!("ERR {:?}", e).into_bytes(),
            }
        }
        Op::Verify { key } => {
            let (proof, pis) = &sh.proofs[*key];
            vec![sh.verifiers[*key].verify(proof, pis).is_ok() as u8]
        }
        Op::Compile => {
            let p = sh.progs[0].with_overrides(vec![]);
            match Compiler::compile_with_circuit(&sh.pp, &sh.fresh_label, &p) {
                Ok((pr, ve)) => {
                    let mut v = pr.to_bytes();
                    v.extend(ve.to_bytes());
                    v
                }
                Err(e) => format!("ERR {:?}", e).into_bytes(),
            }
        }
    }
}

/// One controlled execution following `prefix`, default = keep running the
/// current thread. Returns (choices taken, enabled counts, results, preemptions per step).
fn controlled_run(sh: &Arc<Shared>, threads: &[Vec<Op>], prefix: &[usize]) -> Result<(Vec<usize>, Vec<Vec<usize>>, Vec<Vec<Vec<u8>>>), String> {
    let n = threads.len();
    let ctl = Arc::new(Ctl { m: Mutex::new(CtlState { parked: vec![None; n], done: vec![false; n], granted: None }), cv: Condvar::new() });
    let results: Arc<Mutex<Vec<Vec<Vec<u8>>>>> = Arc::new(Mutex::new(vec![vec![]; n]));
    let mut handles = vec![];
    for (tid, ops) in threads.iter().enumerate() {
        let (ctl2, sh2, res2, ops) = (ctl.clone(), sh.clone(), results.clone(), ops.clone());
        handles.push(std::thread::spawn(move || {
            TID.with(|t| t.set(Some(tid)));
            CTL.with(|c| *c.borrow_mut() = Some(ctl2.clone()));
            for (k, op) in ops.iter().enumerate() {
                point(&format!("op{}", k));
                let r = std::panic::catch_unwind(std::panic::AssertUnwindSafe(|| run_op(&sh2, op))).unwrap_or_else(|e| format!("PANIC {}", crate::par::panic_msg(e)).into_bytes());
                res2.lock().unwrap()[tid].push(r);
            }
            let mut g = ctl2.m.lock().unwrap();
            g.done[tid] = true;
            ctl2.cv.notify_all();
        }));
    }
    let mut choices = vec![];
    let mut enabled_log = vec![];
    let mut last: Option<usize> = None;
    let deadline = std::time::Instant::now() + std::time::Duration::from_secs(120);
    loop {
        // wait until every live thread is parked
        let mut g = ctl.m.lock().unwrap();
        loop {
            let all_parked = (0..n).all(|t| g.done[t] || g.parked[t].is_some());
            if all_parked && g.granted.is_none() {
                break;
            }
            let (g2, to) = ctl.cv.wait_timeout(g, std::time::Duration::from_millis(200)).unwrap();
            g = g2;
            if to.timed_out() && std::time::Instant::now() > deadline {
                return Err("controlled run timed out (deadlock?)".into());
            }
        }
        let enabled: Vec<usize> = (0..n).filter(|t| !g.done[*t]).collect();
        if enabled.is_empty() {
            break;
        }
        let step = choices.len();
        // canonical order: the last running thread first, then ascending ids
        let mut order = enabled.clone();
        if let Some(l) = last {
            if let Some(pos) = order.iter().position(|t| *t == l) {
                order.remove(pos);
                order.insert(0, l);
            }
        }
        let pick = if step < prefix.len() {
            if prefix[step] >= order.len() {
                return Err(format!("replay divergence at step {}: choice {} of {}", step, prefix[step], order.len()));
            }
            prefix[step]
        } else {
            0
        };
        let t = order[pick];
        choices.push(pick);
        enabled_log.push(order.clone());
        last = Some(t);
        g.granted = Some(t);
        ctl.cv.notify_all();
        drop(g);
    }
    for h in handles {
        let _ = h.join();
    }
    let res = results.lock().unwrap().clone();
    Ok((choices, enabled_log, res))
}

fn part_e6(run: &mut Run, tier: Tier) {
    // two circuits under two labels that are first used inside the exploration
    let pp = crate::setup::pp(64);
    let mk = |salt: u64| crate::prog::Prog::new(move |c| {
        let a = c.append_witness(fe(3 + salt));
        let b = c.append_witness(fe(5));
        let o = c.gate_mul(Constraint::new().mult(1).a(a).b(b));
        c.append_public(fe(15 + 5 * salt));
        let p = c.append_witness(fe(15 + 5 * salt));
        c.assert_equal(o, p);
        Ok(())
    });
    let round = std::sync::atomic::AtomicU64::new(0);
    let build_shared = |tag: u64| -> Arc<Shared> {
        // fresh labels per execution so that first insertions happen inside it
        let l1 = format!("e6-{}-{}-A", std::process::id(), tag).into_bytes();
        let l2 = format!("e6-{}-{}-B", std::process::id(), tag).into_bytes();
        let progs = vec![mk(0), mk(1)];
        let (p1, v1) = Compiler::compile_with_circuit(&pp, &l1, &progs[0]).expect("compile");
        let (p2, v2) = Compiler::compile_with_circuit(&pp, &l2, &progs[1]).expect("compile");
        let mut proofs = vec![];
        for (p, pr) in [(&p1, &progs[0]), (&p2, &progs[1])] {
            let mut rng = crate::rng::ScriptedRng::base(seed(), 600);
            proofs.push(p.prove(&mut rng, pr).expect("prove"));
        }
        Arc::new(Shared { provers: vec![p1, p2], verifiers: vec![v1, v2], progs, proofs, pp: pp.clone(), fresh_label: format!("e6-{}-{}-C", std::process::id(), tag).into_bytes() })
    };
    let callback: dusk_plonk::verif::sched::Callback = Arc::new(|region: &'static str, released: bool| {
        point(&format!("{}:{}", region, if released { "released" } else { "acquire" }));
    });
    dusk_plonk::verif::sched::set_callback(Some(callback));
    let scenarios: Vec<(&str, Vec<Vec<Op>>)> = vec![
        ("prove|verify", vec![vec![Op::ProveV3 { key: 0, stream: 601 }, Op::Verify { key: 1 }], vec![Op::Verify { key: 0 }, Op::ProveV3 { key: 1, stream: 602 }]]),
        ("prove|prove-same-key", vec![vec![Op::ProveV3 { key: 0, stream: 603 }], vec![Op::ProveV3 { key: 0, stream: 604 }], vec![Op::Verify { key: 0 }]]),
        ("compile|prove", vec![vec![Op::Compile], vec![Op::ProveV3 { key: 1, stream: 605 }, Op::Verify { key: 1 }]]),
    ];
    let bound = tier.pick(2usize, 3usize);
    let cap = tier.pick(400u64, 4000u64);
    let mut total = 0u64;
    let mut points_seen = 0u64;
    for (sname, threads) in &scenarios {
        // sequential reference: every op alone on the same keys (labels are
        // fresh per execution so that first cache insertions happen inside it;
        // the reference is therefore computed after the controlled run)
        let sequential = |sh: &Shared| -> Vec<Vec<Vec<u8>>> { threads.iter().map(|ops| ops.iter().map(|op| run_op(sh, op)).collect()).collect() };
        let mut stack: Vec<Vec<usize>> = vec![vec![]];
        let mut executed = 0u64;
        let mut distinct = std::collections::HashSet::new();
        while let Some(prefix) = stack.pop() {
            if executed >= cap {
                run.capped = Some(format!("E6 scenario {} stopped at {} schedules", sname, cap));
                break;
            }
            let sh = build_shared(round.fetch_add(1, std::sync::atomic::Ordering::SeqCst));
            let (choices, enabled, res) = match controlled_run(&sh, threads, &prefix) {
                Ok(x) => x,
                Err(e) => {
                    run.machinery(format!("E6 {}: {}", sname, e));
                    break;
                }
            };
            executed += 1;
            total += 1;
            points_seen += choices.len() as u64;
            distinct.insert(choices.clone());
            run.nontrivial(fnv(format!("{}{:?}", sname, choices).as_bytes()));
            let reference = sequential(&sh);
            if res != reference {
                run.violation(&format!("e6/{}/differs-from-sequential", sname), &format!("schedule {:?} of scenario {} returned results that differ from the sequential calls", choices, sname), json!({"name": "e6", "scenario": sname, "schedule": choices}));
            }
            // replay determinism of the first schedule
            if prefix.is_empty() {
                let sh = build_shared(round.fetch_add(1, std::sync::atomic::Ordering::SeqCst));
                match controlled_run(&sh, threads, &choices) {
                    Ok((c2, _, r2)) => {
                        // labels differ between executions, so compare with that run's own sequential results
                        if c2 != choices || r2 != sequential(&sh) {
                            run.machinery(format!("E6 {}: replaying the recorded schedule diverged", sname));
                        }
                    }
                    Err(e) => run.machinery(format!("E6 {} replay: {}", sname, e)),
                }
            }
            // expand alternatives after the prefix, within the preemption bound
            for i in prefix.len()..choices.len() {
                let preemptions: usize = choices[..i].iter().zip(enabled[..i].iter()).filter(|(c, _)| **c > 0).count();
                // choosing another thread while the current one is enabled is a preemption
                if preemptions + 1 > bound {
                    continue;
                }
                for alt in 1..enabled[i].len() {
                    let mut p = choices[..i].to_vec();
                    p.push(alt);
                    stack.push(p);
                }
            }
        }
        run.outcome_n(&format!("e6:{}:schedules", sname), executed);
        run.sample(json!({"part": "e6", "scenario": sname, "schedules": executed, "distinct": distinct.len(), "preemption_bound": bound}));
    }
    dusk_plonk::verif::sched::set_callback(None);
    run.states += total;
    run.transitions += points_seen;
    run.traces_validated += total;
    run.bound("e6_preemption_bound", json!(bound));
    run.gate("E6 explored more than one schedule per scenario", total > scenarios.len() as u64 * 3);
    run.gate("E6 saw lock-region scheduling points", points_seen > total * 3);
}

// ------------------------------------------------------------------ (f)
fn part_free_running(run: &mut Run, refs: &HashMap<String, Artefacts>) {
    let id = "g9";
    let Some(r) = refs.get(id) else { return };
    let s = subjects::subject(id);
    let pp = subjects::pp_for(&s);
    let Ok((prover, verifier)) = subjects::phase_compile(&s, &pp) else { return };
    let prover = Arc::new(prover);
    let verifier = Arc::new(verifier);
    let want_proof = r.proof.clone();
    let results: Vec<Result<(bool, bool), String>> = std::thread::scope(|sc| {
        let hs: Vec<_> = (0..16)
            .map(|i| {
                let (prover, verifier) = (prover.clone(), verifier.clone());
                let want = want_proof.clone();
                sc.spawn(move || {
                    let s = subjects::subject(id);
                    let mut out = (true, true);
                    for _ in 0..(1 + i % 2) {
                        let (proof, pis, _) = subjects::phase_prove(&s, &prover)?;
                        out.0 &= proof.to_bytes().to_vec() == want;
                        out.1 &= subjects::phase_verify(&verifier, &proof, &pis);
                    }
                    Ok::<_, String>(out)
                })
            })
            .collect();
        hs.into_iter().map(|h| h.join().unwrap_or_else(|_| Err("panic".into()))).collect()
    });
    for (i, r) in results.into_iter().enumerate() {
        run.transitions += 1;
        run.traces_validated += 1;
        match r {
            Ok((true, true)) => run.outcome("free-running:identical"),
            Ok((same, ok)) => run.violation("free-running/g9/differs", &format!("thread {}: proof identical = {}, verified = {}", i, same, ok), json!({"name": "free-running", "thread": i})),
            Err(e) => run.violation("free-running/g9/failed", &format!("thread {}: {}", i, e), json!({"name": "free-running", "thread": i})),
        }
    }
}

// ------------------------------------------------------------------ (h)
/// History independence: every sequence of compile / prove calls (circuits of
/// different, non-power-of-two sizes) up to a depth, each sequence on its own
/// fresh OS thread; every call must return what it returns alone on a fresh
/// thread (no state may leak from earlier calls through thread-locals, caches
/// or reused buffers).
fn part_history(run: &mut Run, tier: Tier) {
    use crate::c01::{sized, Shape};
    let pp = crate::setup::pp(128);
    let sizes = [12usize, 24, 40];
    let progs: Vec<crate::prog::Prog> = sizes.iter().map(|c| sized(*c, &Shape::Pi(vec![4, -1]))).collect();
    let keys: Vec<(Prover, Verifier)> = progs.iter().enumerate().map(|(i, p)| Compiler::compile_with_circuit(&pp, format!("hist-{}", i).as_bytes(), p).expect("compile")).collect();
    // ops: 0..3 = prove circuit i with its keys; 3..6 = compile circuit i
    let n_ops = 6usize;
    let do_op = |op: usize| -> Vec<u8> {
        if op < 3 {
            let mut rng = crate::rng::ScriptedRng::base(seed(), 900 + op as u64);
            let p = progs[op].with_overrides(vec![]);
            match keys[op].0.prove(&mut rng, &p) {
                Ok((proof, pis)) => {
                    let ok = keys[op].1.verify(&proof, &pis).is_ok();
                    let mut v = proof.to_bytes().to_vec();
                    for x in pis {
                        v.extend_from_slice(&x.to_bytes());
                    }
                    v.push(ok as u8);
                    v
                }
                Err(e) => format!("ERR {:?}", e).into_bytes(),
            }
        } else {
            let i = op - 3;
            let p = progs[i].with_overrides(vec![]);
            match Compiler::compile_with_circuit(&pp, format!("hist-{}", i).as_bytes(), &p) {
                Ok((pr, ve)) => {
                    let mut v = pr.to_bytes();
                    v.extend(ve.to_bytes());
                    v
                }
                Err(e) => format!("ERR {:?}", e).into_bytes(),
            }
        }
    };
    let op_name = |op: usize| -> String { if op < 3 { format!("prove(c={})", sizes[op]) } else { format!("compile(c={})", sizes[op - 3]) } };
    // references: each op alone on a fresh thread
    let reference: Vec<Vec<u8>> = (0..n_ops).map(|op| std::thread::scope(|s| s.spawn(|| do_op(op)).join().expect("reference op"))).collect();
    let depth = tier.pick(2usize, 3usize);
    let mut seqs: Vec<Vec<usize>> = vec![vec![]];
    for _ in 0..depth {
        let mut next = vec![];
        for s in &seqs {
            for op in 0..n_ops {
                let mut t = s.clone();
                t.push(op);
                next.push(t);
            }
        }
        seqs.extend(next.clone());
        seqs.retain(|s| !s.is_empty());
        seqs.sort();
        seqs.dedup();
    }
    let results: Vec<(Vec<usize>, Vec<Vec<u8>>)> = std::thread::scope(|sc| {
        let hs: Vec<_> = seqs.iter().map(|sq| { let sq = sq.clone(); let f = &do_op; sc.spawn(move || { let r: Vec<Vec<u8>> = sq.iter().map(|op| f(*op)).collect(); (sq, r) }) }).collect();
        hs.into_iter().filter_map(|h| h.join().ok()).collect()
    });
    run.gate("history sequences all ran", results.len() == seqs.len());
    for (sq, res) in results {
        run.states += 1;
        run.traces_validated += 1;
        run.transitions += sq.len() as u64;
        run.nontrivial(fnv(format!("hist{:?}", sq).as_bytes()));
        for (k, (op, r)) in sq.iter().zip(res.iter()).enumerate() {
            if *r != reference[*op] {
                let names: Vec<String> = sq.iter().map(|o| op_name(*o)).collect();
                run.violation(
                    &format!("history/{}-depends-on-earlier-calls", if *op < 3 { "prove" } else { "compile" }),
                    &format!("on one thread, call #{} of the sequence {:?} returned bytes that differ from the same call on a fresh thread", k + 1, names),
                    json!({"name": "history", "sequence": names, "position": k}),
                );
                break;
            }
        }
    }
    run.outcome_n("history:sequences", seqs.len() as u64);
    run.sample(json!({"part": "history", "depth": depth, "sequences": seqs.len(), "ops": (0..n_ops).map(op_name).collect::<Vec<_>>()}));
}

pub fn main(tier: Tier, _replay: Option<serde_json::Value>) -> i32 {
    if std::env::var("VP_C18_CHILD").is_ok() {
        return child_hashes();
    }
    let mut run = Run::new("C18", tier, "model_checking");
    run.rule = "(a) deviation-bounded exploration of every parallel region (rayon shim: task orders, join orders, reduction shapes, thread counts) and hash-map iteration site (hashbrown shim) of compile / prove / verify / compress, real dusk-plonk code, byte-identity with the canonical schedule [sub-process, merged]; shim build = real build on reference bytes; (b) fresh processes (OS-random hash seeds, RAYON_NUM_THREADS); (c) explicit real pools of 1..=17 threads; (d) alloc-only build vs std build; (e) E6: exhaustive controlled-scheduler exploration (preemption-bounded DFS, scheduling points at operation boundaries and the label-cache lock region) of concurrent prove / verify / compile calls vs their sequential results; (f) 16 free-running threads on shared keys; (g) equality with the reference prover M3 for n = 32; (h) history independence: every sequence of compile / prove calls over circuits of three different sizes up to depth 2 (thorough 3), each on a fresh thread, returns per call what the call returns alone; non-trivial = schedules with a real permutation + distinct E6 schedules + distinct configurations compared".into();
    // the schedule explorer is a separate process tree: let it run while the
    // latency-bound parts (E6, fresh processes) proceed, then merge it
    let sched = std::thread::spawn(move || {
        let mut sub = Run::new("C18", tier, "model_checking");
        part_sched(&mut sub, tier);
        sub
    });
    let procs = std::thread::spawn(move || {
        let mut sub = Run::new("C18", tier, "model_checking");
        let refs = part_processes_pools_builds(&mut sub, tier);
        part_free_running(&mut sub, &refs);
        sub
    });
    part_e6(&mut run, tier);
    part_m3(&mut run);
    part_history(&mut run, tier);
    let sub = sched.join().expect("sched thread");
    run.merge(sub);
    let sub = procs.join().expect("process thread");
    run.merge(sub);
    run.gate("pools compared", run.count("pool:identical") > 0);
    run.gate("fresh processes compared", run.count("fresh-process:identical") > 0);
    run.gate("alloc-only build compared", run.count("alloc-only:identical-to-std") > 0);
    run.assumptions = vec![
        "parallel tasks are atomic for the schedule explorer (safe Rust, Send/Sync closures); real-thread interleavings inside a task are not explored".into(),
        "(b),(c),(f) observe OS schedules (conformance passes), the deciding exploration is (a) and (e)".into(),
        "E6: the label-cache critical section contains no scheduling point (whole-section atomicity follows from the mutex)".into(),
    ];
    run.finish()
}
