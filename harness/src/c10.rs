//! C10 — bitwise AND / XOR components return exactly the truncated result.

use std::sync::Arc;

use serde_json::json;

use crate::dispatch;
use crate::e2::{self, Dev, Gadget, Honest};
use crate::ev::{Run, Tier};
use crate::fe::*;
use crate::gadget::*;
use crate::m5;

fn pair_counts(tier: Tier) -> Vec<usize> {
    match tier {
        Tier::Quick => vec![0, 1, 2, 3, 31, 32, 64, 127],
        Tier::Thorough => (0..=127).collect(),
    }
}

fn input_pairs(p: usize, seed: u64, full: bool) -> Vec<(Fe, Fe)> {
    let w = 2 * p;
    let mut rho = Rho::new(seed, 1300 + p as u64);
    let (r1, r2, r3) = (rho.next_fe(), rho.next_fe(), rho.next_fe());
    let ones = pow2(w) - one();
    // small x so that the alias x + r still fits 255 bits
    let gap = U320::pow2(255).sub(&U320::modulus());
    let small = gap.sub(&U320::from_u64(12345)).to_fe();
    let mut v = vec![
        (zero(), zero()),
        (ones, ones),
        (neg1(), r1),
        (m5::low_bits(&r2, w.min(250)), m5::low_bits(&r2, w.min(250)) + pow2(w)),
        (small, fe(0x5555_5555_5555_5555)),
    ];
    if full {
        v.push((r2, r3));
        v.push((ones, pow2(w)));
    }
    v
}

fn gadget(xor: bool, p: usize, a: Fe, b: Fe) -> Gadget {
    Gadget::new(&format!("logic/{}/p{}", if xor { "xor" } else { "and" }, p), vec![a, b], move |c, ins| {
        let o = if xor { dispatch::logic_xor(c, ins[0], ins[1], p) } else { dispatch::logic_and(c, ins[0], ins[1], p) };
        Ok(vec![o])
    })
}

/// The alias adversary for one operand: accumulators, products and outputs as
/// if the operand were the integer x + r, plus the matching `high` part.
fn alias_devs(xor: bool, p: usize, a: Fe, b: Fe, h: &Honest) -> Vec<Dev> {
    let mut devs = vec![];
    if p == 0 {
        return devs;
    }
    let w = 2 * p;
    let lo = h.meta.lo;
    let loop_allocs = 4 * p;
    let after = h.meta.hi - lo - loop_allocs;
    if after % 2 != 0 {
        return devs;
    }
    let k = after / 2;
    for (which, x) in [(0usize, a), (1usize, b)] {
        let alias = U320::from_fe(&x).add(&U320::modulus());
        if !alias.lt(&U320::pow2(255)) {
            continue;
        }
        let low_a = alias.low(w).to_fe();
        let high_a = alias.shr(w).to_fe();
        // honest loop allocations for the operand replaced by a value whose low
        // bits are those of x + r
        let (ya, yb) = if which == 0 { (low_a, b) } else { (a, low_a) };
        let g2 = gadget(xor, p, ya, yb);
        let Ok(h2) = e2::honest(&g2) else { continue };
        let mut script: Vec<(usize, Fe)> = (0..loop_allocs).map(|i| (lo + i, h2.snap.witnesses[h2.meta.lo + i])).collect();
        let high_ord = lo + loop_allocs + which * k;
        script.push((high_ord, high_a));
        devs.push(Dev { script, tag: format!("alias-operand{}=x+r", which), must_confirm: true });
    }
    devs
}

/// Forged product wire: in the last quad round the output quad is wrong and
/// the product wire `w` is a root of (w - A B) + op(A, B, w, E', q_c) = 0, so
/// that the product residual and the op residual cancel (they are the two
/// identity components a shared separation weight would merge). The row model
/// rejects it; it is always replayed on the real prover.
fn forged_product_devs(xor: bool, p: usize, h: &Honest) -> Vec<Dev> {
    let mut devs = vec![];
    if p == 0 {
        return devs;
    }
    let lo = h.meta.lo;
    let w = &h.snap.witnesses;
    let i = p - 1;
    let prev = |k: usize| if i == 0 { zero() } else { w[lo + 4 * (i - 1) + k] };
    let four = fe(4);
    let aa = w[lo + 4 * i] - four * prev(0);
    let bb = w[lo + 4 * i + 1] - four * prev(1);
    let ee = w[lo + 4 * i + 3] - four * prev(3);
    let qc = if xor { neg1() } else { one() };
    let s = aa + bb;
    for e2 in 0..4u64 {
        let e2f = fe(e2);
        if e2f == ee {
            continue;
        }
        // (w - AB) + q_c(9E' - 3S) + 3(S + E') - 2(4w^3 + (81 - 18S)w^2 + (18(A^2+B^2) - 81S + 83)w) = 0
        let c3 = -fe(8);
        let c2 = -fe(2) * (fe(81) - fe(18) * s);
        let c1 = one() - fe(2) * (fe(18) * (aa * aa + bb * bb) - fe(81) * s + fe(83));
        let c0 = -(aa * bb) + qc * (fe(9) * e2f - fe(3) * s) + fe(3) * (s + e2f);
        for root in m5::cubic_roots([c0, c1, c2, c3]) {
            if root == aa * bb {
                continue;
            }
            let out_acc = w[lo + 4 * i + 3] + (e2f - ee);
            devs.push(Dev { script: vec![(lo + 4 * i + 2, root), (lo + 4 * i + 3, out_acc)], tag: format!("forged-product(out-quad {}->{})", hex(&ee), e2), must_confirm: true });
        }
    }
    devs
}

fn gadget_same(xor: bool, p: usize, x: Fe) -> Gadget {
    Gadget::new(&format!("logic/{}/same-witness/p{}", if xor { "xor" } else { "and" }, p), vec![x], move |c, ins| {
        let o = if xor { dispatch::logic_xor(c, ins[0], ins[0], p) } else { dispatch::logic_and(c, ins[0], ins[0], p) };
        Ok(vec![o])
    })
}

/// Both operands are the SAME witness: the adversary fills the loop (right
/// accumulators, products, outputs) with the values of an unrelated operand y.
fn foreign_operand_devs(xor: bool, p: usize, x: Fe, h: &Honest) -> Vec<Dev> {
    let mut devs = vec![];
    if p == 0 {
        return devs;
    }
    for y in [x + one(), zero(), neg1()] {
        if m5::low_bits(&y, 2 * p) == m5::low_bits(&x, 2 * p) {
            continue;
        }
        let Ok(h2) = e2::honest(&gadget(xor, p, x, y)) else { continue };
        let script: Vec<(usize, Fe)> = (0..4 * p).map(|i| (h.meta.lo + i, h2.snap.witnesses[h2.meta.lo + i])).collect();
        devs.push(Dev { script, tag: format!("foreign-right-operand({})", hex(&y)), must_confirm: true });
    }
    devs
}

pub fn cases(tier: Tier) -> Vec<GCase> {
    let seed = seed();
    let mut out = vec![];
    let mut tail: Vec<GCase> = vec![];
    // the composer's constant witnesses as operands (`xor(x, ZERO)` is the documented truncation idiom)
    for p in pair_counts(tier) {
        for (a, b) in [(neg1(), zero()), (zero(), fe(0xb5)), (one(), fe(0xb5)), (zero(), zero()), (one(), one())] {
            for xor in [false, true] {
                let spec = m5::logic(&a, &b, 2 * p, xor);
                let mut c = GCase::new(gadget(xor, p, a, b).with_const_handles(), Expect::Sat(vec![spec]), &format!("logic/{}/const-handles", if xor { "xor" } else { "and" }));
                c.dev_stride = if p <= 3 { 1 } else { 0 };
                c.rewire = p <= 1;
                c.confirm = p <= 3 || p == 127;
                tail.push(c);
            }
        }
    }
    // non-initial states: an operand was range-checked before (to a width that holds or
    // not), or the component was already applied to the same witnesses
    for p in pair_counts(tier) {
        for (a, b) in [(fe(0xb5), fe(0x1f3)), (neg1(), fe(0xb5))] {
            for xor in [false, true] {
                let spec = m5::logic(&a, &b, 2 * p, xor);
                for w in [8usize, 2 * p, 252] {
                    let e = if m5::in_range(&a, w) { Expect::Sat(vec![spec]) } else { Expect::Unsat };
                    let mut c = GCase::new(gadget(xor, p, a, b).with_prelude(&format!("range{}(a)", w), move |c, ins| { dispatch::range_bits(c, ins[0], w); Ok(()) }), e, &format!("logic/{}/with-history", if xor { "xor" } else { "and" }));
                    c.dev_stride = if p <= 2 { 1 } else { 0 };
                    c.confirm = p <= 3 || p == 127;
                    out.push(c);
                }
                let base = GCase::new(gadget(xor, p, a, b), Expect::Sat(vec![spec]), &format!("logic/{}", if xor { "xor" } else { "and" }));
                let mut c = base.after_self_call();
                c.confirm = p <= 3 || p == 127;
                out.push(c);
            }
        }
    }
    // aliased operands: op(x, x)
    for p in pair_counts(tier) {
        for x in [fe(0xb5), neg1(), Rho::new(seed, 1399 + p as u64).next_fe()] {
            for xor in [false, true] {
                let spec = m5::logic(&x, &x, 2 * p, xor);
                let mut c = GCase::new(gadget_same(xor, p, x), Expect::Sat(vec![spec]), &format!("logic/{}/same-witness", if xor { "xor" } else { "and" }));
                c.named = Some(Arc::new(move |h: &Honest| foreign_operand_devs(xor, p, x, h)));
                c.dev_stride = if p <= 3 { 1 } else { 0 };
                c.confirm = p <= 3 || p == 127;
                out.push(c);
            }
        }
    }
    for p in pair_counts(tier) {
        for (a, b) in input_pairs(p, seed, tier == Tier::Thorough) {
            for xor in [false, true] {
                let g = gadget(xor, p, a, b);
                let spec = m5::logic(&a, &b, 2 * p, xor);
                let mut c = GCase::new(g, Expect::Sat(vec![spec]), &format!("logic/{}", if xor { "xor" } else { "and" }));
                c.named = Some(Arc::new(move |h: &Honest| {
                    let mut d = alias_devs(xor, p, a, b, h);
                    d.extend(forged_product_devs(xor, p, h));
                    d
                }));
                c.extra = Some(Arc::new(move |_k, v| vec![("+2".into(), v + fe(2)), ("+3".into(), v + fe(3)), ("^1".into(), if v == zero() { one() } else { zero() })]));
                c.confirm = tier == Tier::Thorough || p <= 4 || p % 32 == 0 || p == 127;
                c.rewire = p <= 1 || ((p == 3 || (tier == Tier::Thorough && p % 16 == 0)) && a == zero());
                out.push(c);
            }
        }
    }
    out.extend(tail);
    out
}

pub fn main(tier: Tier, replay: Option<serde_json::Value>) -> i32 {
    let mut run = Run::new("C10", tier, "model_checking");
    run.rule = "cases = (AND|XOR, pair count, input pair); honest assignment + every bound-1 deviation of the gadget's allocations + the alias adversary per operand (all accumulators, products and outputs recomputed for the integer x + r together with the matching high part) re-run through the real generator and decided by M1; predicate: always satisfiable, every satisfying assignment returns AND/XOR of the low 2p bits of the canonical inputs; also forged product wires, op(x, x) with a foreign right operand, constant witnesses ZERO / ONE as operands, operands range-checked beforehand, a second application to the same witnesses".into();
    let mut cs = cases(tier);
    if let Ok(f) = std::env::var("VERIF_ONLY") {
        cs.retain(|c| c.g.name.contains(&f));
    }
    let cache = ConfirmCache::new(crate::setup::pp(1 << 10));
    if let Some(r) = replay {
        return crate::gadget::replay(run, &cs, &cache, &r);
    }
    run.bound("pair_counts", json!(pair_counts(tier)));
    let names: Vec<String> = cs.iter().map(|c| c.g.name.clone()).collect();
    let reps = crate::par::par_map(&cs, |c| run_case(c, &cache));
    absorb(&mut run, reps, &names);
    run.gate("honest satisfiable cases", run.count("honest:sat") > 0);
    run.gate("deviations explored", run.count("deviations") > 1000);
    run.assumptions = vec![
        "M1 row model (bound to the prover by C05) decides satisfiability".into(),
        "values from the boundary alphabet; adversary: bound-1 deviations plus the per-operand alias assignment".into(),
    ];
    run.finish()
}
