//! M4 — naive reference kernels (DESIGN §3).
//!
//! Deliberately boring code. Uses only `dusk_bls12_381` field / group /
//! pairing primitives and shares no code with dusk-plonk.
//!
//! Conventions: a polynomial is a coefficient vector, lowest degree first;
//! "the domain of size n" is {ω^0..ω^{n-1}} with ω the n-th root of unity
//! obtained by squaring `ROOT_OF_UNITY` (a 2^32-th root) down; the coset is
//! g·ω^i with g = `GENERATOR`.

use dusk_bls12_381::{
    pairing, BlsScalar, G1Affine, G1Projective, G2Affine, G2Projective, GENERATOR, ROOT_OF_UNITY, TWO_ADACITY,
};
use dusk_bytes::DeserializableSlice;

pub type Fe = BlsScalar;

fn zero() -> Fe {
    BlsScalar::zero()
}
fn one() -> Fe {
    BlsScalar::one()
}

// ---------------------------------------------------------------------------
// field helpers
// ---------------------------------------------------------------------------

/// `b^e` by square-and-multiply over the bits of `e` (own code).
pub fn pow_u64(b: Fe, e: u64) -> Fe {
    let mut acc = one();
    for i in (0..64).rev() {
        acc = acc * acc;
        if (e >> i) & 1 == 1 {
            acc = acc * b;
        }
    }
    acc
}

pub fn inv(x: Fe) -> Fe {
    x.invert().expect("m4: inverse of zero")
}

pub fn is_pow2(n: usize) -> bool {
    n != 0 && (n & (n - 1)) == 0
}

pub fn log2(n: usize) -> u32 {
    assert!(is_pow2(n), "m4: domain size must be a power of two");
    n.trailing_zeros()
}

/// Primitive n-th root of unity, n = 2^k ≤ 2^32.
pub fn root_of_unity(n: usize) -> Fe {
    let k = log2(n);
    assert!(k <= TWO_ADACITY);
    let mut w = ROOT_OF_UNITY;
    for _ in k..TWO_ADACITY {
        w = w * w;
    }
    w
}

/// Coset generator g.
pub fn coset_gen() -> Fe {
    GENERATOR
}

/// The domain elements ω^0..ω^{n-1} by repeated multiplication.
pub fn domain_elements(n: usize) -> Vec<Fe> {
    let w = root_of_unity(n);
    let mut out = Vec::with_capacity(n);
    let mut x = one();
    for _ in 0..n {
        out.push(x);
        x = x * w;
    }
    out
}

// ---------------------------------------------------------------------------
// polynomials (schoolbook)
// ---------------------------------------------------------------------------

/// Drop trailing (highest-degree) zero coefficients.
pub fn trim(v: &[Fe]) -> Vec<Fe> {
    let mut v = v.to_vec();
    while v.last().map_or(false, |c| *c == zero()) {
        v.pop();
    }
    v
}

/// Equality as polynomials.
pub fn poly_eq(a: &[Fe], b: &[Fe]) -> bool {
    trim(a) == trim(b)
}

/// Horner evaluation.
pub fn horner(c: &[Fe], x: Fe) -> Fe {
    let mut acc = zero();
    for k in c.iter().rev() {
        acc = acc * x + *k;
    }
    acc
}

pub fn poly_add(a: &[Fe], b: &[Fe]) -> Vec<Fe> {
    let n = a.len().max(b.len());
    let mut out = vec![zero(); n];
    for i in 0..n {
        if i < a.len() {
            out[i] = out[i] + a[i];
        }
        if i < b.len() {
            out[i] = out[i] + b[i];
        }
    }
    out
}

pub fn poly_neg(a: &[Fe]) -> Vec<Fe> {
    a.iter().map(|c| -*c).collect()
}

pub fn poly_sub(a: &[Fe], b: &[Fe]) -> Vec<Fe> {
    poly_add(a, &poly_neg(b))
}

pub fn poly_scale(a: &[Fe], s: Fe) -> Vec<Fe> {
    a.iter().map(|c| *c * s).collect()
}

pub fn poly_mul(a: &[Fe], b: &[Fe]) -> Vec<Fe> {
    if a.is_empty() || b.is_empty() {
        return vec![];
    }
    let mut out = vec![zero(); a.len() + b.len() - 1];
    for (i, x) in a.iter().enumerate() {
        for (j, y) in b.iter().enumerate() {
            out[i + j] = out[i + j] + *x * *y;
        }
    }
    out
}

/// `a + s` (constant term).
pub fn poly_add_scalar(a: &[Fe], s: Fe) -> Vec<Fe> {
    poly_add(a, &[s])
}

/// Synthetic division of `a` by `(X - z)`: `(quotient, remainder)` with
/// `a = quotient·(X − z) + remainder`. The result is checked by
/// re-multiplication before it is returned.
pub fn div_linear(a: &[Fe], z: Fe) -> (Vec<Fe>, Fe) {
    if a.is_empty() {
        return (vec![], zero());
    }
    let d = a.len() - 1; // formal degree
    let mut q = vec![zero(); d];
    // q_{d-1} = a_d ; q_{k-1} = a_k + z q_k
    let mut carry = zero();
    for k in (1..=d).rev() {
        let t = a[k] + carry;
        q[k - 1] = t;
        carry = z * t;
    }
    let r = a[0] + carry;
    // re-multiplication check
    let back = poly_add(&poly_mul(&q, &[-z, one()]), &[r]);
    assert!(poly_eq(&back, a), "m4: synthetic division self-check failed");
    (q, r)
}

// ---------------------------------------------------------------------------
// DFT by definition
// ---------------------------------------------------------------------------

/// Evaluation of the FULL polynomial `c` at ω^i for every i < n.
pub fn dft(c: &[Fe], n: usize) -> Vec<Fe> {
    let xs = domain_elements(n);
    xs.iter().map(|x| horner(c, *x)).collect()
}

/// Evaluation of the full polynomial at ω^i for the listed indices.
pub fn dft_at(c: &[Fe], n: usize, idx: &[usize]) -> Vec<Fe> {
    let w = root_of_unity(n);
    idx.iter().map(|i| horner(c, pow_u64(w, *i as u64))).collect()
}

/// Evaluation of the full polynomial at g·ω^i for every i < n.
pub fn coset_dft(c: &[Fe], n: usize) -> Vec<Fe> {
    let g = coset_gen();
    domain_elements(n).iter().map(|x| horner(c, g * *x)).collect()
}

pub fn coset_dft_at(c: &[Fe], n: usize, idx: &[usize]) -> Vec<Fe> {
    let w = root_of_unity(n);
    let g = coset_gen();
    idx.iter().map(|i| horner(c, g * pow_u64(w, *i as u64))).collect()
}

/// Inverse DFT by the definition: c_i = (1/n) Σ_j e_j ω^{-ij}, the sum
/// running over every supplied evaluation (missing ones count as zero).
pub fn idft(e: &[Fe], n: usize) -> Vec<Fe> {
    let idx: Vec<usize> = (0..n).collect();
    idft_at(e, n, &idx)
}

pub fn idft_at(e: &[Fe], n: usize, idx: &[usize]) -> Vec<Fe> {
    let w_inv = inv(root_of_unity(n));
    let n_inv = inv(Fe::from(n as u64));
    idx.iter().map(|i| horner(e, pow_u64(w_inv, *i as u64)) * n_inv).collect()
}

/// Interpolation on the coset: coefficients c with c(g ω^j) = e_j, i.e.
/// c_i = g^{-i} · idft(e)_i.
pub fn coset_idft(e: &[Fe], n: usize) -> Vec<Fe> {
    let idx: Vec<usize> = (0..n).collect();
    coset_idft_at(e, n, &idx)
}

pub fn coset_idft_at(e: &[Fe], n: usize, idx: &[usize]) -> Vec<Fe> {
    let g_inv = inv(coset_gen());
    idft_at(e, n, idx).iter().zip(idx).map(|(c, i)| *c * pow_u64(g_inv, *i as u64)).collect()
}

// ---------------------------------------------------------------------------
// second, independent route for big sizes: recursive radix-2 (decimation in
// time, no bit reversal, no in-place butterflies)
// ---------------------------------------------------------------------------

/// out[k] = Σ_j a_j w^{jk}; `a.len()` a power of two and `w` a primitive
/// `a.len()`-th root of unity.
pub fn fft_rec(a: &[Fe], w: Fe) -> Vec<Fe> {
    let n = a.len();
    if n == 1 {
        return vec![a[0]];
    }
    let even: Vec<Fe> = a.iter().step_by(2).copied().collect();
    let odd: Vec<Fe> = a.iter().skip(1).step_by(2).copied().collect();
    let w2 = w * w;
    let e = fft_rec(&even, w2);
    let o = fft_rec(&odd, w2);
    let mut out = vec![zero(); n];
    let mut t = one();
    for k in 0..n / 2 {
        let x = t * o[k];
        out[k] = e[k] + x;
        out[k + n / 2] = e[k] - x;
        t = t * w;
    }
    out
}

/// Fold a coefficient vector modulo X^n − 1 (exact for evaluation on the
/// n-th roots of unity); shorter vectors are zero padded.
pub fn fold(c: &[Fe], n: usize) -> Vec<Fe> {
    let mut out = vec![zero(); n];
    for (i, x) in c.iter().enumerate() {
        out[i % n] = out[i % n] + *x;
    }
    out
}

/// c_j · s^j
pub fn scale_powers(c: &[Fe], s: Fe) -> Vec<Fe> {
    let mut p = one();
    c.iter()
        .map(|x| {
            let r = *x * p;
            p = p * s;
            r
        })
        .collect()
}

/// The four transforms through the recursive route. Semantics identical to
/// `dft` / `coset_dft` / `idft` / `coset_idft` (full-vector definitions).
pub fn fast_dft(c: &[Fe], n: usize) -> Vec<Fe> {
    fft_rec(&fold(c, n), root_of_unity(n))
}
pub fn fast_coset_dft(c: &[Fe], n: usize) -> Vec<Fe> {
    fft_rec(&fold(&scale_powers(c, coset_gen()), n), root_of_unity(n))
}
pub fn fast_idft(e: &[Fe], n: usize) -> Vec<Fe> {
    let n_inv = inv(Fe::from(n as u64));
    fft_rec(&fold(e, n), inv(root_of_unity(n))).iter().map(|x| *x * n_inv).collect()
}
pub fn fast_coset_idft(e: &[Fe], n: usize) -> Vec<Fe> {
    scale_powers(&fast_idft(e, n), inv(coset_gen()))
}

// ---------------------------------------------------------------------------
// inversion, vanishing, Lagrange, barycentric
// ---------------------------------------------------------------------------

/// Per-element inversion; zeros stay zero.
pub fn invert_each(v: &[Fe]) -> Vec<Fe> {
    v.iter().map(|x| if *x == zero() { zero() } else { inv(*x) }).collect()
}

/// Z_H(τ) = τ^n − 1.
pub fn vanishing(n: usize, tau: Fe) -> Fe {
    pow_u64(tau, n as u64) - one()
}

/// L_i(τ) by the product definition Π_{j≠i} (τ − ω^j)/(ω^i − ω^j).
pub fn lagrange_product(n: usize, i: usize, tau: Fe) -> Fe {
    let xs = domain_elements(n);
    let mut num = one();
    let mut den = one();
    for j in 0..n {
        if j != i {
            num = num * (tau - xs[j]);
            den = den * (xs[i] - xs[j]);
        }
    }
    num * inv(den)
}

/// L_i(τ) by the closed form Z_H(τ)·ω^i / (n (τ − ω^i)); on the domain the
/// indicator of τ = ω^i.
pub fn lagrange_closed(n: usize, i: usize, tau: Fe) -> Fe {
    let wi = pow_u64(root_of_unity(n), i as u64);
    if tau == wi {
        return one();
    }
    let zh = vanishing(n, tau);
    if zh == zero() {
        return zero();
    }
    zh * wi * inv(Fe::from(n as u64) * (tau - wi))
}

/// All L_i(τ), product definition.
pub fn lagrange_all(n: usize, tau: Fe) -> Vec<Fe> {
    (0..n).map(|i| lagrange_product(n, i, tau)).collect()
}

/// Σ v_i L_i(τ) with L_i by the product definition; `evals` shorter than n
/// are zero padded.
pub fn eval_from_evals(n: usize, evals: &[Fe], tau: Fe) -> Fe {
    assert!(evals.len() <= n);
    let mut acc = zero();
    for (i, v) in evals.iter().enumerate() {
        if *v != zero() {
            acc = acc + *v * lagrange_product(n, i, tau);
        }
    }
    acc
}

/// Sparse form: Σ_k v_k L_{rows[k]}(τ).
pub fn eval_sparse(n: usize, rows: &[usize], vals: &[Fe], tau: Fe) -> Fe {
    assert_eq!(rows.len(), vals.len());
    let mut acc = zero();
    for (r, v) in rows.iter().zip(vals) {
        acc = acc + *v * lagrange_product(n, *r, tau);
    }
    acc
}

// ---------------------------------------------------------------------------
// KZG
// ---------------------------------------------------------------------------

pub fn g1_from_bytes(b: &[u8]) -> Option<G1Affine> {
    if b.len() != 48 {
        return None;
    }
    G1Affine::from_slice(b).ok()
}

pub fn g2_from_bytes(b: &[u8]) -> Option<G2Affine> {
    if b.len() != 96 {
        return None;
    }
    G2Affine::from_slice(b).ok()
}

/// The SRS as `PublicParameters::to_var_bytes` states it.
pub struct Srs {
    pub g: G1Affine,
    pub h: G2Affine,
    pub x_h: G2Affine,
    pub powers: Vec<G1Affine>,
}

pub const OPENING_KEY_BYTES: usize = 48 + 96 + 96;

pub fn parse_opening_key(b: &[u8]) -> Option<(G1Affine, G2Affine, G2Affine)> {
    if b.len() < OPENING_KEY_BYTES {
        return None;
    }
    Some((g1_from_bytes(&b[..48])?, g2_from_bytes(&b[48..144])?, g2_from_bytes(&b[144..240])?))
}

pub fn parse_srs(b: &[u8]) -> Option<Srs> {
    let (g, h, x_h) = parse_opening_key(b)?;
    let rest = &b[OPENING_KEY_BYTES..];
    if rest.len() % 48 != 0 {
        return None;
    }
    let mut powers = Vec::with_capacity(rest.len() / 48);
    for c in rest.chunks(48) {
        powers.push(g1_from_bytes(c)?);
    }
    Some(Srs { g, h, x_h, powers })
}

/// Commitment as the explicit sum Σ c_i·P_i (one scalar multiplication and
/// one projective addition per coefficient). `None` when there are more
/// coefficients than points.
pub fn commit(points: &[G1Affine], coeffs: &[Fe]) -> Option<G1Projective> {
    if coeffs.len() > points.len() {
        return None;
    }
    let mut acc = G1Projective::identity();
    for (c, p) in coeffs.iter().zip(points) {
        acc = acc + G1Projective::from(*p) * *c;
    }
    Some(acc)
}

pub fn affine(p: G1Projective) -> G1Affine {
    G1Affine::from(p)
}

/// The opening equation e(C − v·G, H) = e(W, X_H − z·H), two pairings.
pub fn opening_holds(g: &G1Affine, h: &G2Affine, x_h: &G2Affine, c: &G1Affine, z: Fe, v: Fe, w: &G1Affine) -> bool {
    let lhs_g1 = G1Affine::from(G1Projective::from(*c) - G1Projective::from(*g) * v);
    let rhs_g2 = G2Affine::from(G2Projective::from(*x_h) - G2Projective::from(*h) * z);
    pairing(&lhs_g1, h) == pairing(w, &rhs_g2)
}

/// e(a, h) == e(b, x_h): `a` is the secret multiple of `b`.
pub fn is_next_power(a: &G1Affine, b: &G1Affine, h: &G2Affine, x_h: &G2Affine) -> bool {
    pairing(a, h) == pairing(b, x_h)
}

/// Σ s^i C_i and Σ s^i e_i.
pub fn flatten(parts: &[(Fe, G1Affine)], s: Fe) -> (G1Projective, Fe) {
    let mut c = G1Projective::identity();
    let mut e = zero();
    let mut p = one();
    for (ev, cm) in parts {
        c = c + G1Projective::from(*cm) * p;
        e = e + *ev * p;
        p = p * s;
    }
    (c, e)
}

/// Σ s^i p_i as a polynomial.
pub fn linear_combination(polys: &[Vec<Fe>], s: Fe) -> Vec<Fe> {
    let mut acc: Vec<Fe> = vec![];
    let mut p = one();
    for q in polys {
        acc = poly_add(&acc, &poly_scale(q, p));
        p = p * s;
    }
    acc
}
