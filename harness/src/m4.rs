//! m4 — reference model (to be written)
