//! Fault operators (E3) over the valid encodings: deterministic enumeration of
//! mutation recipes. Parent and children enumerate the same list.

use std::collections::BTreeMap;
use std::sync::Arc;

use super::fmt::{self, Class, Field, Kind};
use super::mp::{self, Announce, Desc};
use super::world::{Obj, World};
use crate::ev::Tier;

#[derive(Clone, Debug)]
pub enum Mut {
    None,
    Flip { off: usize, bit: u8 },
    Set { off: usize, data: Vec<u8> },
    Trunc(usize),
    Extend(Vec<u8>),
    Whole(Arc<Vec<u8>>),
    Seq(Vec<Mut>),
    /// generated lazily in the executing process: deflate stream of `n` zeros
    /// optionally preceded by the inner payload of the object
    Bomb { zeros: usize, keep_prefix: bool },
}

#[derive(Clone, Debug)]
pub struct Case {
    pub obj: usize,
    /// operator family: baseline, bitflip, lenfield, resize, truncext, splice, badelem, repack, bomb, depth2
    pub fam: &'static str,
    /// operator detail
    pub op: String,
    /// position class
    pub pos: String,
    pub section: &'static str,
    pub m: Mut,
}

pub fn apply(base: &[u8], m: &Mut) -> Vec<u8> {
    let mut v = base.to_vec();
    apply_in(&mut v, m);
    v
}
fn apply_in(v: &mut Vec<u8>, m: &Mut) {
    match m {
        Mut::None => {}
        Mut::Flip { off, bit } => v[*off] ^= 1 << bit,
        Mut::Set { off, data } => v[*off..*off + data.len()].copy_from_slice(data),
        Mut::Trunc(n) => v.truncate(*n),
        Mut::Extend(d) => v.extend_from_slice(d),
        Mut::Whole(w) => *v = w.as_ref().clone(),
        Mut::Seq(ms) => {
            for m in ms {
                apply_in(v, m)
            }
        }
        Mut::Bomb { zeros, keep_prefix } => {
            if *keep_prefix {
                // valid inner payload followed by zeros, deflated in one stream
                let mut inner = mp::inflate(v, 1 << 24).unwrap_or_default();
                inner.resize(inner.len() + *zeros, 0);
                *v = mp::deflate(&inner);
            } else {
                *v = mp::zero_bomb(*zeros);
            }
        }
    }
}

/// Statistics about what was fully enumerated.
#[derive(Default)]
pub struct Plan {
    pub cases: Vec<Case>,
    /// (object, family) -> "exhaustive" | description of the reduced set
    pub coverage: BTreeMap<String, String>,
}

struct Gen<'a> {
    w: &'a World,
    tier: Tier,
    plan: Plan,
}

fn field_at(fields: &[Field], off: usize) -> Option<&Field> {
    // fields are in offset order
    let i = fields.partition_point(|f| f.off + f.len <= off);
    fields.get(i).filter(|f| f.off <= off && off < f.off + f.len)
}

fn is_int(k: Kind) -> bool {
    matches!(k, Kind::U64Be | Kind::U64Le | Kind::U32Le)
}

fn enc_int(k: Kind, v: u64) -> Vec<u8> {
    match k {
        Kind::U64Be => v.to_be_bytes().to_vec(),
        Kind::U64Le => v.to_le_bytes().to_vec(),
        Kind::U32Le => (v as u32).to_le_bytes().to_vec(),
        _ => unreachable!(),
    }
}
fn dec_int(k: Kind, b: &[u8]) -> u64 {
    match k {
        Kind::U64Be => u64::from_be_bytes(b.try_into().unwrap()),
        Kind::U64Le => u64::from_le_bytes(b.try_into().unwrap()),
        Kind::U32Le => u32::from_le_bytes(b.try_into().unwrap()) as u64,
        _ => unreachable!(),
    }
}

/// Replacement values for a length / count / size field holding `v`.
fn int_values(k: Kind, v: u64, full: bool) -> Vec<(String, u64)> {
    let mut out: Vec<(String, u64)> = vec![("0".into(), 0), ("1".into(), 1), ("v-1".into(), v.wrapping_sub(1)), ("v+1".into(), v.wrapping_add(1))];
    if k == Kind::U32Le {
        out.push(("2^31".into(), 1 << 31));
        out.push(("2^32-1".into(), u32::MAX as u64));
        out.push(("32".into(), 32));
        out.push(("64".into(), 64));
    } else {
        out.push(("2^31".into(), 1 << 31));
        out.push(("2^32".into(), 1 << 32));
        out.push(("2^63".into(), 1 << 63));
        out.push(("2^64-1".into(), u64::MAX));
        if full {
            // values whose product with an element size overflows, or wraps to the true byte length
            for s in [8u64, 32, 48, 97] {
                out.push((format!("2^64/{}+1", s), u64::MAX / s + 1));
            }
            out.push(("v+2^61".into(), v.wrapping_add(1 << 61)));
            out.push(("v+2^59".into(), v.wrapping_add(1 << 59)));
            out.push(("2v".into(), v.wrapping_mul(2)));
            out.push(("v/2".into(), v / 2));
            out.push(("v+8".into(), v.wrapping_add(8)));
            out.push(("v-8".into(), v.wrapping_sub(8)));
        }
    }
    out.retain(|(_, x)| *x != v);
    out.dedup_by(|a, b| a.1 == b.1);
    out
}

impl<'a> Gen<'a> {
    fn push(&mut self, obj: usize, fam: &'static str, op: String, f: Option<&Field>, m: Mut) {
        let (pos, section) = match f {
            Some(f) => (f.pos.clone(), f.section),
            None => ("whole".to_string(), "whole"),
        };
        self.plan.cases.push(Case { obj, fam, op, pos, section, m });
    }
    fn push_at(&mut self, obj: usize, fam: &'static str, op: String, pos: &str, section: &'static str, m: Mut) {
        self.plan.cases.push(Case { obj, fam, op, pos: pos.to_string(), section, m });
    }
    fn cover(&mut self, o: &Obj, fam: &str, what: &str) {
        self.plan.coverage.insert(format!("{}/{}", o.name, fam), what.to_string());
    }

    // ------------------------------------------------------------ (1) bit flips
    fn bitflips(&mut self, oi: usize) {
        let w = self.w;
        let o = &w.objs[oi];
        let first_of_class = w.objs_of(o.class)[0] == oi;
        let small = o.bytes.len() <= 16 * 1024;
        let thorough = self.tier == Tier::Thorough;
        let all = if o.class == Class::Cc {
            true
        } else if thorough {
            small
        } else {
            small && first_of_class && o.class == Class::Pp
        };
        if all {
            for off in 0..o.bytes.len() {
                let f = field_at(&o.fields, off).cloned();
                for bit in 0..8u8 {
                    self.push(oi, "bitflip", "flip".into(), f.as_ref(), Mut::Flip { off, bit });
                }
            }
            self.cover(o, "bitflip", "exhaustive");
            return;
        }
        if small {
            // quick: primary small object = every bit of integer fields, points and first / last
            // scalars, the top byte of every scalar, one bit of every other byte;
            // secondary objects = every bit of integer fields, one bit of every other byte
            let nf = o.fields.len();
            for off in 0..o.bytes.len() {
                let f = field_at(&o.fields, off).cloned();
                let full = match &f {
                    Some(f) if is_int(f.kind) => true,
                    Some(f) if first_of_class => match f.kind {
                        Kind::G1c(_) | Kind::G2c(_) => true,
                        Kind::Scalar => {
                            let i = o.fields.iter().position(|g| g.off == f.off).unwrap();
                            let first_or_last = i == nf - 1 || !matches!(o.fields[i.saturating_sub(1)].kind, Kind::Scalar);
                            first_or_last || off == f.off + f.len - 1
                        }
                        Kind::Bytes => true,
                        _ => false,
                    },
                    _ => false,
                };
                for bit in 0..8u8 {
                    if full || bit == (off % 8) as u8 {
                        self.push(oi, "bitflip", "flip".into(), f.as_ref(), Mut::Flip { off, bit });
                    }
                }
            }
            self.cover(
                o,
                "bitflip",
                if first_of_class {
                    "every bit of integer fields, group elements, labels, first / last scalars and the top byte of every scalar; one bit of every other byte (padding, inner scalar bytes)"
                } else {
                    "every bit of integer fields, one bit of every other byte"
                },
            );
            return;
        }
        // large object: structural bytes + stride
        let primary = o.name == "prover:A" || (thorough && o.name != "prover:A2");
        let secondary_quick = !thorough && o.name == "prover:B";
        if !(primary || secondary_quick) {
            // donor-only object
            if thorough {
                self.stride(oi, 131);
                self.cover(o, "bitflip", "stride 131 bytes only (donor object)");
            }
            return;
        }
        // thorough: the primary prover gets every bit of every structural element and of one
        // complete polynomial block (q_m: all coefficients, all evaluations)
        let deep = thorough && o.name == "prover:A";
        let elem_bits: Vec<usize> = if deep { (0..256).collect() } else { vec![0, 7, 64, 128, 253, 254, 255] };
        let mut seen = std::collections::HashSet::new();
        let fields = o.fields.clone();
        for f in &fields {
            let mut sel: Vec<(usize, u8)> = vec![];
            let full_desc = thorough || f.path.starts_with("prover_key/q_m/") || f.path.starts_with("prover_key/v_h/") || f.path.starts_with("prover_key/linear/");
            match f.kind {
                Kind::U64Be | Kind::U64Le | Kind::U32Le => {
                    for b in 0..f.len * 8 {
                        sel.push((f.off + b / 8, (b % 8) as u8));
                    }
                }
                Kind::Scalar if f.path.contains("/domain/") => {
                    for b in 0..256 {
                        if full_desc || b % 8 == (b / 8) % 8 || b >= 248 {
                            sel.push((f.off + b / 8, (b % 8) as u8));
                        }
                    }
                }
                Kind::Scalar if f.structural || (deep && f.path.starts_with("prover_key/q_m/")) => {
                    for b in &elem_bits {
                        sel.push((f.off + b / 8, (b % 8) as u8));
                    }
                }
                Kind::G1raw => {
                    // flag byte: every bit, every point
                    for bit in 0..8u8 {
                        sel.push((f.off + 96, bit));
                    }
                    if f.structural {
                        for b in 0..96 * 8 {
                            if thorough || secondary_quick == false && (b % 8 == (b / 8) % 8 || b % 384 >= 376) {
                                sel.push((f.off + b / 8, (b % 8) as u8));
                            }
                        }
                    }
                }
                Kind::G1c(_) | Kind::G2c(_) => {
                    let fullc = thorough || f.path.ends_with("/q_m") || f.path.ends_with("/s_sigma_4");
                    for b in 0..f.len * 8 {
                        // flag bits always; rest fully or one bit per byte
                        if fullc || b < 8 || b % 8 == (b / 8) % 8 {
                            sel.push((f.off + b / 8, (b % 8) as u8));
                        }
                    }
                }
                Kind::Bytes => {
                    for b in 0..f.len * 8 {
                        if thorough || b % 8 == (b / 8) % 8 {
                            sel.push((f.off + b / 8, (b % 8) as u8));
                        }
                    }
                }
                _ => {}
            }
            if secondary_quick && !(is_int(f.kind) || f.kind == Kind::G1raw) {
                // quick secondary prover: integer fields and raw flags only (plus stride)
                continue;
            }
            for (off, bit) in sel {
                if seen.insert((off, bit)) {
                    self.push(oi, "bitflip", "flip".into(), Some(f), Mut::Flip { off, bit });
                }
            }
        }
        let stride = if thorough { 33 } else { 131 };
        self.stride(oi, stride);
        self.cover(
            o,
            "bitflip",
            &format!(
                "every bit of every integer field and raw flag byte; {} of domain descriptors, first/last array elements, verifier-key commitments; stride {} bytes over the bulk (all offset residues mod 32 and mod 97, all bit positions)",
                if deep { "every bit (plus every bit of the complete q_m block)" } else { "a bit subset" },
                stride
            ),
        );
    }

    fn stride(&mut self, oi: usize, stride: usize) {
        let o = &self.w.objs[oi];
        let mut k = 0usize;
        let mut off = 0usize;
        let fields = o.fields.clone();
        let n = o.bytes.len();
        while off < n {
            let bit = ((k / 32) % 8) as u8;
            let f = field_at(&fields, off);
            self.push(oi, "bitflip", "flip-stride".into(), f, Mut::Flip { off, bit });
            k += 1;
            off += stride;
        }
    }

    // ------------------------------------------------------------ (2) length / count fields
    fn lenfields(&mut self, oi: usize) {
        let o = &self.w.objs[oi];
        let fields: Vec<Field> = o.fields.iter().filter(|f| is_int(f.kind)).cloned().collect();
        for f in &fields {
            let v = dec_int(f.kind, &o.bytes[f.off..f.off + f.len]);
            for (name, x) in int_values(f.kind, v, true) {
                self.push(oi, "lenfield", format!("={}", name), Some(f), Mut::Set { off: f.off, data: enc_int(f.kind, x) });
            }
        }
        // boundary shifts between adjacent header length fields (sum preserved)
        let hdr: Vec<Field> = o.fields.iter().filter(|f| f.section == "header" && f.counts == 1).cloned().collect();
        for p in hdr.windows(2) {
            let (a, b) = (&p[0], &p[1]);
            let va = dec_int(a.kind, &o.bytes[a.off..a.off + 8]);
            let vb = dec_int(b.kind, &o.bytes[b.off..b.off + 8]);
            for d in [1i64, -1, 8, -8, 32, -32, 97, -97] {
                let na = va.wrapping_add(d as u64);
                let nb = vb.wrapping_sub(d as u64);
                self.push(
                    oi,
                    "lenfield",
                    format!("shift{:+}", d),
                    Some(a),
                    Mut::Seq(vec![Mut::Set { off: a.off, data: enc_int(a.kind, na) }, Mut::Set { off: b.off, data: enc_int(b.kind, nb) }]),
                );
            }
        }
        if !fields.is_empty() {
            self.cover(o, "lenfield", "exhaustive: every integer field x the value set {0,1,v-1,v+1,2^31,2^32,2^63,2^64-1,2^64/s+1 (s=8,32,48,97),v+2^61,v+2^59,2v,v/2,v+-8}; header boundary shifts");
        }
    }

    // ------------------------------------------------------------ (3) truncation / extension
    fn truncext(&mut self, oi: usize) {
        let o = &self.w.objs[oi];
        let n = o.bytes.len();
        let fields = o.fields.clone();
        if n <= 16 * 1024 {
            for k in 0..n {
                let f = field_at(&fields, k);
                self.push(oi, "truncext", "trunc".into(), f, Mut::Trunc(k));
            }
            self.cover(o, "truncext", "exhaustive: truncation at every byte boundary; extension by 1..8 bytes of 0x00 / 0xff");
        } else {
            let mut cuts = std::collections::BTreeSet::new();
            cuts.insert(0usize);
            for f in fields.iter().filter(|f| f.structural || f.kind == Kind::Pad || f.kind == Kind::Bytes) {
                for c in [f.off.wrapping_sub(1), f.off, f.off + 1, f.off + f.len - 1, f.off + f.len, f.off + f.len + 1] {
                    if c < n {
                        cuts.insert(c);
                    }
                }
            }
            for k in cuts {
                let f = field_at(&fields, k);
                self.push(oi, "truncext", "trunc".into(), f, Mut::Trunc(k));
            }
            self.cover(o, "truncext", "truncation at every structural field boundary and +-1; extension by 1..8 bytes of 0x00 / 0xff");
        }
        for k in 1..=8usize {
            for fill in [0u8, 0xff] {
                self.push_at(oi, "truncext", format!("extend{}x{:02x}", k, fill), "end", "trailing", Mut::Extend(vec![fill; k]));
            }
        }
    }

    // ------------------------------------------------------------ (5) invalid elements
    fn badelems(&mut self, oi: usize) {
        let w = self.w;
        let o = &w.objs[oi];
        let thorough = self.tier == Tier::Thorough;
        // one slot per position class (quick) / every structural slot + one mid per array (thorough)
        let mut seen = std::collections::HashSet::new();
        let mut slots: Vec<Field> = vec![];
        for f in &o.fields {
            if !matches!(f.kind, Kind::Scalar | Kind::G1c(_) | Kind::G2c(_) | Kind::G1raw) {
                continue;
            }
            // collapse the polynomial name for quick: position class per kind of slot
            let key = if thorough { f.pos.clone() } else { collapse(&f.pos) };
            if seen.insert(key) {
                slots.push(f.clone());
            }
        }
        for f in &slots {
            match f.kind {
                Kind::Scalar => {
                    for (nm, b) in fmt::scalar_bad() {
                        self.push(oi, "badelem", format!("scalar={}", nm), Some(f), Mut::Set { off: f.off, data: b.to_vec() });
                    }
                    // valid extremes
                    let mut rm1 = fmt::scalar_bad()[0].1;
                    rm1[0] -= 1;
                    self.push(oi, "badelem", "scalar=r-1(valid)".into(), Some(f), Mut::Set { off: f.off, data: rm1.to_vec() });
                    self.push(oi, "badelem", "scalar=0(valid)".into(), Some(f), Mut::Set { off: f.off, data: vec![0; 32] });
                }
                Kind::G1c(_) => {
                    for (nm, b) in &w.bp.g1c {
                        self.push(oi, "badelem", nm.to_string(), Some(f), Mut::Set { off: f.off, data: b.to_vec() });
                    }
                }
                Kind::G2c(_) => {
                    for (nm, b) in &w.bp.g2c {
                        self.push(oi, "badelem", nm.to_string(), Some(f), Mut::Set { off: f.off, data: b.to_vec() });
                    }
                }
                Kind::G1raw => {
                    for (nm, b) in fmt::raw_bad(&o.bytes[f.off..f.off + 97], &w.bp) {
                        self.push(oi, "badelem", nm.to_string(), Some(f), Mut::Set { off: f.off, data: b });
                    }
                }
                _ => {}
            }
        }
        // coordinated pair: two compressed G1 elements shifted by +T / -T with T in the
        // cofactor torsion (each is outside the subgroup, their sum is inside)
        if let Some(t) = crate::m2::cofactor_torsion_point() {
            use dusk_bls12_381::{G1Affine, G1Projective};
            let g1: Vec<&Field> = o.fields.iter().filter(|f| matches!(f.kind, Kind::G1c(_))).collect();
            let mut pairs: Vec<(usize, usize)> = (0..g1.len().saturating_sub(1)).map(|k| (k, k + 1)).collect();
            if !thorough && pairs.len() > 2 {
                pairs = vec![pairs[0], pairs[pairs.len() - 1]];
            }
            let dec = |f: &Field| -> Option<G1Affine> {
                let b: [u8; 48] = o.bytes.get(f.off..f.off + 48)?.try_into().ok()?;
                let p = G1Affine::from_compressed(&b);
                if bool::from(p.is_some()) {
                    Some(p.unwrap())
                } else {
                    None
                }
            };
            let mut n = 0;
            for (a, b) in pairs {
                if let (Some(pa), Some(pb)) = (dec(g1[a]), dec(g1[b])) {
                    let qa = G1Affine::from(G1Projective::from(pa) + t).to_compressed().to_vec();
                    let qb = G1Affine::from(G1Projective::from(pb) - t).to_compressed().to_vec();
                    self.push(oi, "badelem", "g1-pair(+T,-T)cofactor-torsion".into(), Some(g1[a]), Mut::Seq(vec![Mut::Set { off: g1[a].off, data: qa }, Mut::Set { off: g1[b].off, data: qb }]));
                    n += 1;
                }
            }
            if n > 0 {
                self.cover(o, "badelem", &format!("{} pairs of adjacent compressed G1 elements shifted by +T / -T (cofactor torsion)", n));
            }
        }
        if !slots.is_empty() {
            self.cover(o, "badelem", &format!("every hand-built invalid element at {} slots ({})", slots.len(), if thorough { "every position class" } else { "one slot per slot kind" }));
        }
    }

    // ------------------------------------------------------------ consistent resizes
    fn resizes(&mut self, oi: usize) {
        let o = &self.w.objs[oi];
        let b = &o.bytes;
        let fld = |p: &str| o.fields.iter().find(|f| f.path == p).cloned();
        let get = |f: &Field| dec_int(f.kind, &b[f.off..f.off + f.len]);
        match o.class {
            Class::Prover => {
                let h_pk = fld("header/prover_key_len").unwrap();
                let h_ck = fld("header/commit_key_len").unwrap();
                let h_ll = fld("header/label_len").unwrap();
                let h_vk = fld("header/verifier_key_len").unwrap();
                let ck_len = fld("commit_key/len").unwrap();
                let have = get(&ck_len) as usize;
                let ck_start = ck_len.off;
                // commit key with k points (prefix), header adjusted
                let mut ks = vec![1usize, 2, have / 2, have - 1];
                ks.dedup();
                for k in ks {
                    if k == 0 || k >= have {
                        continue;
                    }
                    let mut v = b[..ck_start].to_vec();
                    v.extend_from_slice(&(k as u64).to_le_bytes());
                    v.extend_from_slice(&b[ck_start + 8..ck_start + 8 + 97 * k]);
                    v.extend_from_slice(&b[ck_start + 8 + 97 * have..]);
                    v[h_ck.off..h_ck.off + 8].copy_from_slice(&((8 + 97 * k) as u64).to_be_bytes());
                    self.push(oi, "lenfield", format!("resize:commit-key-points={}", k), Some(&ck_len), Mut::Whole(Arc::new(v)));
                }
                // one more point (duplicate of the last)
                {
                    let mut v = b[..ck_start].to_vec();
                    v.extend_from_slice(&((have + 1) as u64).to_le_bytes());
                    v.extend_from_slice(&b[ck_start + 8..ck_start + 8 + 97 * have]);
                    v.extend_from_slice(&b[ck_start + 8 + 97 * (have - 1)..ck_start + 8 + 97 * have]);
                    v.extend_from_slice(&b[ck_start + 8 + 97 * have..]);
                    v[h_ck.off..h_ck.off + 8].copy_from_slice(&((8 + 97 * (have + 1)) as u64).to_be_bytes());
                    self.push(oi, "lenfield", "resize:commit-key-points=+1".into(), Some(&ck_len), Mut::Whole(Arc::new(v)));
                }
                // polynomial resizes: drop the top coefficient / all coefficients, prover_key_len adjusted
                for nm in ["q_m", "q_l", "q_arith", "s_sigma_1", "s_sigma_4"] {
                    let pl = fld(&format!("prover_key/{}/poly_len", nm)).unwrap();
                    let have = get(&pl) as usize;
                    for keep in [0usize, have.saturating_sub(1)] {
                        if keep >= have {
                            continue;
                        }
                        let mut v = b[..pl.off].to_vec();
                        v.extend_from_slice(&(keep as u64).to_le_bytes());
                        v.extend_from_slice(&b[pl.off + 8..pl.off + 8 + 32 * keep]);
                        v.extend_from_slice(&b[pl.off + 8 + 32 * have..]);
                        let newpk = get(&h_pk) - (32 * (have - keep)) as u64;
                        v[h_pk.off..h_pk.off + 8].copy_from_slice(&newpk.to_be_bytes());
                        self.push(oi, "lenfield", format!("resize:poly-coeffs={}", if keep == 0 { "0" } else { "len-1" }), Some(&pl), Mut::Whole(Arc::new(v)));
                    }
                    // zero the top coefficient in place (decoder trims it)
                    if have > 0 {
                        let off = pl.off + 8 + 32 * (have - 1);
                        self.push(oi, "lenfield", "resize:poly-top-coeff=0".into(), Some(&pl), Mut::Set { off, data: vec![0; 32] });
                    }
                }
                // label shorter / longer, header adjusted
                let ll = get(&h_ll) as usize;
                for nl in [0usize, ll.saturating_sub(1), ll + 1, ll + 64] {
                    if nl == ll {
                        continue;
                    }
                    let mut v = b[..48].to_vec();
                    let mut lab = b[48..48 + ll].to_vec();
                    lab.resize(nl, b'x');
                    v.extend_from_slice(&lab);
                    v.extend_from_slice(&b[48 + ll..]);
                    v[h_ll.off..h_ll.off + 8].copy_from_slice(&(nl as u64).to_be_bytes());
                    self.push(oi, "lenfield", format!("resize:label-len={}", nl), Some(&h_ll), Mut::Whole(Arc::new(v)));
                }
                // verifier key section longer (announced and present)
                for extra in [1usize, 8, 240] {
                    let mut v = b.clone();
                    v.extend(std::iter::repeat(0xa5).take(extra));
                    let nv = get(&h_vk) + extra as u64;
                    v[h_vk.off..h_vk.off + 8].copy_from_slice(&nv.to_be_bytes());
                    self.push(oi, "lenfield", format!("resize:verifier-key-len+{}", extra), Some(&h_vk), Mut::Whole(Arc::new(v)));
                }
            }
            Class::Verifier => {
                let h_pc = fld("header/pi_count").unwrap();
                let h_ll = fld("header/label_len").unwrap();
                let h_vk = fld("header/verifier_key_len").unwrap();
                let h_ok = fld("header/opening_key_len").unwrap();
                let pc = get(&h_pc) as usize;
                let n = u64::from_le_bytes(b[fld("verifier_key/n").unwrap().off..][..8].try_into().unwrap());
                for (nm, idx) in [("0", 0u64), ("n-1", n.wrapping_sub(1)), ("n", n), ("2^32", 1 << 32), ("2^64-1", u64::MAX)] {
                    let mut v = b.clone();
                    v.extend_from_slice(&idx.to_be_bytes());
                    v[h_pc.off..h_pc.off + 8].copy_from_slice(&((pc + 1) as u64).to_be_bytes());
                    self.push(oi, "lenfield", format!("resize:pi-indexes+1({})", nm), Some(&h_pc), Mut::Whole(Arc::new(v)));
                }
                if pc > 0 {
                    let mut v = b[..b.len() - 8].to_vec();
                    v[h_pc.off..h_pc.off + 8].copy_from_slice(&((pc - 1) as u64).to_be_bytes());
                    self.push(oi, "lenfield", "resize:pi-indexes-1".into(), Some(&h_pc), Mut::Whole(Arc::new(v)));
                    let mut v = b[..b.len() - 8 * pc].to_vec();
                    v[h_pc.off..h_pc.off + 8].copy_from_slice(&0u64.to_be_bytes());
                    self.push(oi, "lenfield", "resize:pi-indexes=0".into(), Some(&h_pc), Mut::Whole(Arc::new(v)));
                }
                let ll = get(&h_ll) as usize;
                for nl in [0usize, ll.saturating_sub(1), ll + 1, ll + 64] {
                    if nl == ll {
                        continue;
                    }
                    let mut v = b[..48].to_vec();
                    let mut lab = b[48..48 + ll].to_vec();
                    lab.resize(nl, b'x');
                    v.extend_from_slice(&lab);
                    v.extend_from_slice(&b[48 + ll..]);
                    v[h_ll.off..h_ll.off + 8].copy_from_slice(&(nl as u64).to_be_bytes());
                    self.push(oi, "lenfield", format!("resize:label-len={}", nl), Some(&h_ll), Mut::Whole(Arc::new(v)));
                }
                // sections longer / at their minimum
                let vk0 = 48 + ll;
                let vkl = get(&h_vk) as usize;
                let okl = get(&h_ok) as usize;
                for extra in [1usize, 8] {
                    let mut v = b[..vk0 + vkl].to_vec();
                    v.extend(std::iter::repeat(0x5a).take(extra));
                    v.extend_from_slice(&b[vk0 + vkl..]);
                    v[h_vk.off..h_vk.off + 8].copy_from_slice(&((vkl + extra) as u64).to_be_bytes());
                    self.push(oi, "lenfield", format!("resize:verifier-key-len+{}", extra), Some(&h_vk), Mut::Whole(Arc::new(v)));
                    let mut v = b[..vk0 + vkl + okl].to_vec();
                    v.extend(std::iter::repeat(0x5a).take(extra));
                    v.extend_from_slice(&b[vk0 + vkl + okl..]);
                    v[h_ok.off..h_ok.off + 8].copy_from_slice(&((okl + extra) as u64).to_be_bytes());
                    self.push(oi, "lenfield", format!("resize:opening-key-len+{}", extra), Some(&h_ok), Mut::Whole(Arc::new(v)));
                }
                // verifier key without its 240 padding bytes (announced 728)
                {
                    let mut v = b[..vk0 + 728].to_vec();
                    v.extend_from_slice(&b[vk0 + vkl..]);
                    v[h_vk.off..h_vk.off + 8].copy_from_slice(&728u64.to_be_bytes());
                    self.push(oi, "lenfield", "resize:verifier-key-len=728".into(), Some(&h_vk), Mut::Whole(Arc::new(v)));
                }
            }
            Class::Pp => {
                let pts = (b.len() - 240) / 48;
                let f = fld("commit_key/point[0]").unwrap();
                let mut ks = vec![1usize, 2, 7, pts - 1];
                ks.dedup();
                for k in ks {
                    if k >= pts {
                        continue;
                    }
                    self.push(oi, "truncext", format!("points={}", k), Some(&f), Mut::Trunc(240 + 48 * k));
                }
                let mut v = b.clone();
                v.extend_from_slice(&b[b.len() - 48..]);
                self.push(oi, "truncext", "points=+1(duplicate)".into(), Some(&f), Mut::Whole(Arc::new(v)));
            }
            _ => {}
        }
    }

    // ------------------------------------------------------------ (4) splices and swaps
    fn splices(&mut self, oi: usize) {
        let w = self.w;
        let o = &w.objs[oi];
        let b = &o.bytes;
        let donors: Vec<usize> = if self.tier == Tier::Quick { o.donors.iter().copied().take(2).collect() } else { o.donors.clone() };
        // section spans: consecutive fields with the same section
        fn spans(o: &Obj) -> Vec<(&'static str, usize, usize)> {
            let mut out: Vec<(&'static str, usize, usize)> = vec![];
            for f in &o.fields {
                match out.last_mut() {
                    Some(l) if l.0 == f.section => l.2 = f.off + f.len,
                    _ => out.push((f.section, f.off, f.off + f.len)),
                }
            }
            out
        }
        let my = spans(o);
        let hdr_field = |sec: &str| -> Option<Field> {
            let name = match sec {
                "label" => "header/label_len",
                "prover_key" => "header/prover_key_len",
                "commit_key" => "header/commit_key_len",
                "verifier_key" => "header/verifier_key_len",
                "opening_key" => "header/opening_key_len",
                _ => return None,
            };
            o.fields.iter().find(|f| f.path == name).cloned()
        };
        match o.class {
            Class::Prover | Class::Verifier => {
                for &di in &donors {
                    let d = &w.objs[di];
                    let ds = spans(d);
                    for (sec, s, e) in &my {
                        if *sec == "header" || *sec == "trailing" {
                            continue;
                        }
                        let Some((_, ds0, de0)) = ds.iter().find(|x| x.0 == *sec).copied() else { continue };
                        let f = o.fields.iter().find(|f| f.section == *sec).cloned();
                        let mut v = b[..*s].to_vec();
                        v.extend_from_slice(&d.bytes[ds0..de0]);
                        v.extend_from_slice(&b[*e..]);
                        // inconsistent: header untouched
                        if de0 - ds0 != e - s {
                            self.push(oi, "splice", format!("section<-{}(header-stale)", d.name), f.as_ref(), Mut::Whole(Arc::new(v.clone())));
                        }
                        // consistent: header length / count updated
                        if *sec == "pi_indexes" {
                            let h = o.fields.iter().find(|f| f.path == "header/pi_count").unwrap();
                            v[h.off..h.off + 8].copy_from_slice(&(((de0 - ds0) / 8) as u64).to_be_bytes());
                        } else if let Some(h) = hdr_field(sec) {
                            v[h.off..h.off + 8].copy_from_slice(&((de0 - ds0) as u64).to_be_bytes());
                        }
                        self.push(oi, "splice", format!("section<-{}", d.name), f.as_ref(), Mut::Whole(Arc::new(v)));
                    }
                    // header of the donor over own body
                    let mut v = b.clone();
                    v[..48].copy_from_slice(&d.bytes[..48]);
                    self.push_at(oi, "splice", format!("header<-{}", d.name), "header", "header", Mut::Whole(Arc::new(v)));
                    // element-wise: same path, same length
                    if d.bytes.len() == b.len() && d.fields.len() == o.fields.len() || o.class == Class::Verifier {
                        let dmap: std::collections::HashMap<&str, &Field> = d.fields.iter().map(|f| (f.path.as_str(), f)).collect();
                        let mut seenpos = std::collections::HashSet::new();
                        for f in &o.fields {
                            if !matches!(f.kind, Kind::Scalar | Kind::G1c(_) | Kind::G2c(_) | Kind::G1raw) {
                                continue;
                            }
                            if !(f.structural || self.tier == Tier::Thorough && seenpos.insert(f.pos.clone())) {
                                continue;
                            }
                            if self.tier == Tier::Quick && !seenpos.insert(collapse(&f.pos)) {
                                continue;
                            }
                            let Some(df) = dmap.get(f.path.as_str()) else { continue };
                            if df.len != f.len || d.bytes[df.off..df.off + df.len] == b[f.off..f.off + f.len] {
                                continue;
                            }
                            self.push(oi, "splice", format!("element<-{}", d.name), Some(f), Mut::Set { off: f.off, data: d.bytes[df.off..df.off + df.len].to_vec() });
                        }
                    }
                }
                // prover-key blocks: [poly_len | coeffs | evals] are self-delimiting: swap adjacent blocks
                if o.class == Class::Prover {
                    let mut blocks: Vec<(String, usize, usize)> = vec![];
                    for nm in fmt::POLYS.iter().copied().chain(["linear", "v_h"]) {
                        let pre = format!("prover_key/{}/", nm);
                        let fs: Vec<&Field> = o.fields.iter().filter(|f| f.path.starts_with(&pre)).collect();
                        blocks.push((nm.to_string(), fs[0].off, fs.last().unwrap().off + fs.last().unwrap().len));
                    }
                    for p in blocks.windows(2) {
                        let (a, bb) = (&p[0], &p[1]);
                        let mut v = b[..a.1].to_vec();
                        v.extend_from_slice(&b[bb.1..bb.2]);
                        v.extend_from_slice(&b[a.1..a.2]);
                        v.extend_from_slice(&b[bb.2..]);
                        let f = o.fields.iter().find(|f| f.off == a.1).cloned();
                        self.push(oi, "splice", format!("swap-blocks({},{})", a.0, bb.0), f.as_ref(), Mut::Whole(Arc::new(v)));
                    }
                    // block from a donor with the same n
                    for &di in &donors {
                        let d = &w.objs[di];
                        if d.bytes.len() != b.len() {
                            continue;
                        }
                        for (nm, s, e) in &blocks {
                            let pre = format!("prover_key/{}/", nm);
                            let dfs: Vec<&Field> = d.fields.iter().filter(|f| f.path.starts_with(&pre)).collect();
                            let (ds0, de0) = (dfs[0].off, dfs.last().unwrap().off + dfs.last().unwrap().len);
                            if de0 - ds0 != e - s {
                                continue;
                            }
                            let f = o.fields.iter().find(|f| f.off == *s).cloned();
                            let mut v = b.clone();
                            v[*s..*e].copy_from_slice(&d.bytes[ds0..de0]);
                            self.push(oi, "splice", format!("block({})<-{}", nm, d.name), f.as_ref(), Mut::Whole(Arc::new(v)));
                        }
                    }
                }
                // adjacent same-kind element swaps
                self.adjacent_swaps(oi);
            }
            Class::Proof | Class::Pp => {
                for &di in &donors {
                    let d = &w.objs[di];
                    for (i, f) in o.fields.iter().enumerate() {
                        let Some(df) = d.fields.get(i) else { continue };
                        if df.len != f.len || df.kind != f.kind {
                            continue;
                        }
                        if o.class == Class::Pp && !(f.structural) && self.tier == Tier::Quick {
                            continue;
                        }
                        self.push(oi, "splice", format!("element<-{}", d.name), Some(f), Mut::Set { off: f.off, data: d.bytes[df.off..df.off + df.len].to_vec() });
                        // misaligned window of the donor (starts 16 bytes into the same field)
                        if df.off + 16 + df.len <= d.bytes.len() && (f.structural || self.tier == Tier::Thorough) {
                            self.push(oi, "splice", format!("misaligned<-{}", d.name), Some(f), Mut::Set { off: f.off, data: d.bytes[df.off + 16..df.off + 16 + df.len].to_vec() });
                        }
                    }
                    if o.class == Class::Pp {
                        // whole opening key of the donor
                        let f = o.fields[0].clone();
                        self.push(oi, "splice", format!("opening-key<-{}", d.name), Some(&f), Mut::Set { off: 0, data: d.bytes[..240].to_vec() });
                        // commit key of the donor behind the own opening key
                        let mut v = b[..240].to_vec();
                        v.extend_from_slice(&d.bytes[240..]);
                        let f = o.fields[3].clone();
                        self.push(oi, "splice", format!("commit-key<-{}", d.name), Some(&f), Mut::Whole(Arc::new(v)));
                    }
                }
                self.adjacent_swaps(oi);
                if o.class == Class::Pp {
                    // g <-> first point, h <-> x_h already covered by adjacent swaps
                    let mut v = b.clone();
                    let (g, p0) = (b[..48].to_vec(), b[240..288].to_vec());
                    v[..48].copy_from_slice(&p0);
                    v[240..288].copy_from_slice(&g);
                    let f = o.fields[0].clone();
                    self.push(oi, "splice", "swap(g,point[0])".into(), Some(&f), Mut::Whole(Arc::new(v)));
                }
            }
            Class::Cc => {
                for &di in &donors {
                    let d = &w.objs[di];
                    let n = b.len().min(d.bytes.len());
                    for cut in [1usize, 2, 4, 8, 16, n / 4, n / 2, 3 * n / 4, n - 1] {
                        if cut == 0 || cut >= n {
                            continue;
                        }
                        let mut v = b[..cut].to_vec();
                        v.extend_from_slice(&d.bytes[cut..]);
                        self.push_at(oi, "splice", format!("prefix{}+suffix<-{}", cut, d.name), "stream", "stream", Mut::Whole(Arc::new(v)));
                    }
                    // concatenation of two complete streams
                    let mut v = b.clone();
                    v.extend_from_slice(&d.bytes);
                    self.push_at(oi, "splice", format!("concat<-{}", d.name), "stream", "stream", Mut::Whole(Arc::new(v)));
                }
            }
        }
        self.cover(o, "splice", "every section / same-path element of every donor (consistent and header-stale), adjacent block and element swaps");
    }

    fn adjacent_swaps(&mut self, oi: usize) {
        let o = &self.w.objs[oi];
        let b = &o.bytes;
        let fields = o.fields.clone();
        let mut seen = std::collections::HashSet::new();
        for p in fields.windows(2) {
            let (a, c) = (&p[0], &p[1]);
            if a.len != c.len || a.off + a.len != c.off {
                continue;
            }
            let same = match (a.kind, c.kind) {
                (Kind::Scalar, Kind::Scalar) | (Kind::G1c(_), Kind::G1c(_)) | (Kind::G2c(_), Kind::G2c(_)) | (Kind::G1raw, Kind::G1raw) | (Kind::U64Be, Kind::U64Be) => true,
                _ => false,
            };
            if !same || b[a.off..a.off + a.len] == b[c.off..c.off + c.len] {
                continue;
            }
            // arrays: first pair and last pair only (quick: once per collapsed class)
            if !(a.structural || c.structural) {
                continue;
            }
            let key = if self.tier == Tier::Quick { collapse(&a.pos) } else { a.pos.clone() };
            if !seen.insert(key) {
                continue;
            }
            let mut data = b[c.off..c.off + c.len].to_vec();
            data.extend_from_slice(&b[a.off..a.off + a.len]);
            self.push(oi, "splice", "swap-adjacent".into(), Some(a), Mut::Set { off: a.off, data });
        }
    }

    // ------------------------------------------------------------ (6) re-packed inner payloads
    fn repacks(&mut self, oi: usize) {
        let w = self.w;
        let o = &w.objs[oi];
        let inner = mp::inflate(&o.bytes, w.cc_limit).expect("valid stream inflates");
        let d = Desc::decode(&inner).expect("valid description decodes");
        let max = w.max_constraints as u64;
        let base_scalars: u64 = if d.hades { hades_base() } else { 3 };
        let scalar_count = base_scalars + d.scalars.len() as u64;
        let add = |g: &mut Gen, op: String, pos: &str, inner: Vec<u8>| {
            g.push_at(oi, "repack", op, pos, "inner", Mut::Whole(Arc::new(mp::deflate(&inner))));
        };
        // identity re-pack (valid; different outer bytes)
        add(self, "identity".into(), "whole", d.encode());
        // stored (level 0) deflate of the valid payload
        self.push_at(oi, "repack", "stored-deflate".into(), "whole", "inner", Mut::Whole(Arc::new(miniz_oxide::deflate::compress_to_vec(&inner, 0))));
        self.push_at(oi, "repack", "zlib-wrapped".into(), "whole", "inner", Mut::Whole(Arc::new(miniz_oxide::deflate::compress_to_vec_zlib(&inner, 6))));
        // trailing bytes
        for k in 1..=8usize {
            for fill in [0u8, 0xc0] {
                let mut v = inner.clone();
                v.extend(std::iter::repeat(fill).take(k));
                add(self, format!("trailing{}x{:02x}", k, fill), "end", v);
            }
        }
        // bool tag
        for t in [0xc1u8, 0x00, 0x01, 0xc0, 0x90] {
            let mut v = inner.clone();
            v[0] = t;
            add(self, format!("bool-tag={:02x}", t), "hades", v);
        }
        {
            let mut x = d.clone();
            x.hades = !x.hades;
            add(self, "hades-flipped".into(), "hades", x.encode());
        }
        // witnesses
        let need = d.cons.iter().flat_map(|c| c[1..].iter().copied()).max().map(|m| m + 1).unwrap_or(0);
        for (nm, v) in [("0", 0u64), ("need-1", need.saturating_sub(1)), ("need", need), ("need+1", need + 1), ("10^12", 1_000_000_000_000), ("2^32", 1 << 32), ("2^63", 1 << 63), ("2^64-1", u64::MAX)] {
            let mut x = d.clone();
            x.witnesses = v;
            add(self, format!("witnesses={}", nm), "witnesses", x.encode());
        }
        // announced array lengths
        let names = ["public_inputs", "scalars", "polynomials", "constraints"];
        let lens = [d.pis.len() as u64, d.scalars.len() as u64, d.polys.len() as u64, d.cons.len() as u64];
        for k in 0..4 {
            let limit = if k == 1 { max * 11 } else { max };
            for (nm, v) in [
                ("0", 0u64),
                ("len-1", lens[k].saturating_sub(1)),
                ("len+1", lens[k] + 1),
                ("limit", limit),
                ("limit+1", limit + 1),
                ("65535", 65535),
                ("65536", 65536),
                ("2^31", 1 << 31),
                ("2^32-1", u32::MAX as u64),
            ] {
                if v == lens[k] {
                    continue;
                }
                let mut a = Announce::default();
                a.lens[k] = Some(v);
                add(self, format!("announce={}", nm), names[k], d.encode_with(&a));
            }
            // wide (array32) header with the true length: non-minimal but well formed
            let mut a = Announce::default();
            a.wide = true;
            add(self, "announce-wide".into(), names[k], d.encode_with(&a));
        }
        // index fields at bound / bound+1 / huge
        let ncons = d.cons.len() as u64;
        if !d.pis.is_empty() {
            let last = d.pis.len() - 1;
            for (nm, v) in [("bound-1", ncons - 1), ("bound", ncons), ("bound+1", ncons + 1), ("2^64-1", u64::MAX)] {
                let mut x = d.clone();
                x.pis[last] = v;
                add(self, format!("index={}", nm), "public_inputs/index", x.encode());
            }
            let mut x = d.clone();
            x.pis.push(*x.pis.last().unwrap());
            add(self, "duplicate-last".into(), "public_inputs/index", x.encode());
            if d.pis.len() >= 2 {
                let mut x = d.clone();
                x.pis.swap(0, 1);
                add(self, "unsorted".into(), "public_inputs/index", x.encode());
            }
        }
        {
            // a public input on every row / first row / last row
            let mut x = d.clone();
            x.pis = (0..ncons).collect();
            add(self, "all-rows".into(), "public_inputs/index", x.encode());
            let mut x = d.clone();
            x.pis = vec![0];
            add(self, "first-row".into(), "public_inputs/index", x.encode());
            let mut x = d.clone();
            x.pis = vec![];
            add(self, "none".into(), "public_inputs/index", x.encode());
        }
        if !d.polys.is_empty() {
            for sel in 0..11usize {
                if self.tier == Tier::Quick && !(sel == 0 || sel == 5 || sel == 10) {
                    continue;
                }
                for (nm, v) in [("0", 0u64), ("bound-1", scalar_count - 1), ("bound", scalar_count), ("bound+1", scalar_count + 1), ("2^63", 1 << 63), ("2^64-1", u64::MAX)] {
                    let mut x = d.clone();
                    let last = x.polys.len() - 1;
                    x.polys[last][sel] = v;
                    add(self, format!("index={}", nm), &format!("polynomials/selector{}", sel), x.encode());
                }
            }
        }
        if !d.cons.is_empty() {
            let npolys = d.polys.len() as u64;
            for (nm, v) in [("0", 0u64), ("bound-1", npolys - 1), ("bound", npolys), ("bound+1", npolys + 1), ("2^64-1", u64::MAX)] {
                for which in [0usize, d.cons.len() - 1] {
                    let mut x = d.clone();
                    x.cons[which][0] = v;
                    add(self, format!("index={}", nm), "constraints/polynomial", x.encode());
                }
            }
            for wire in 1..5usize {
                for (nm, v) in [("0", 0u64), ("bound-1", d.witnesses - 1), ("bound", d.witnesses), ("bound+1", d.witnesses + 1), ("2^63", 1 << 63), ("2^64-1", u64::MAX)] {
                    let mut x = d.clone();
                    let last = x.cons.len() - 1;
                    x.cons[last][wire] = v;
                    add(self, format!("index={}", nm), &format!("constraints/wire{}", wire), x.encode());
                }
            }
            // sparse witness labels: huge but below the announced count
            let mut x = d.clone();
            x.witnesses = u64::MAX;
            let last = x.cons.len() - 1;
            x.cons[last] = [x.cons[last][0], u64::MAX - 1, u64::MAX - 2, 1 << 40, 0];
            add(self, "sparse-labels".into(), "constraints/wire", x.encode());
        }
        // scalars
        if !d.scalars.is_empty() {
            for (nm, s) in fmt::scalar_bad() {
                for which in [0usize, d.scalars.len() - 1] {
                    let mut x = d.clone();
                    x.scalars[which] = s;
                    add(self, format!("scalar={}", nm), "scalars/element", x.encode());
                }
            }
            let mut x = d.clone();
            x.scalars[0] = [0; 32];
            add(self, "scalar=0(valid)".into(), "scalars/element", x.encode());
        }
        // non-minimal integer widths (well-formed MessagePack)
        {
            let canonical = d.encode();
            let mut v = vec![canonical[0]];
            mp::put_array_hdr(&mut v, d.pis.len() as u64);
            for p in &d.pis {
                v.push(0xcf);
                v.extend_from_slice(&p.to_be_bytes());
            }
            let mut rest = Desc { pis: vec![], ..d.clone() }.encode();
            // rest = bool, empty-array header, then the remainder
            rest.drain(..2);
            v.extend_from_slice(&rest);
            add(self, "uint64-width".into(), "public_inputs/index", v);
        }
        // counts at the capacity limit: built from the largest valid description
        if w.objs_of(Class::Cc)[0] == oi {
            let m = &w.cc_max_desc;
            add(self, "max-valid".into(), "limits", m.encode());
            let mut x = m.clone();
            x.cons.push(*x.cons.last().unwrap());
            add(self, "constraints=limit+1".into(), "limits", x.encode());
            let mut x = m.clone();
            x.polys.push(*x.polys.last().unwrap());
            add(self, "polynomials=limit+1".into(), "limits", x.encode());
            let mut x = m.clone();
            x.scalars.push([7; 32]);
            add(self, "scalars=limit+1".into(), "limits", x.encode());
            let mut x = m.clone();
            x.pis.push(max);
            add(self, "public_inputs=limit+1".into(), "limits", x.encode());
            let mut x = m.clone();
            x.cons.pop();
            x.pis.pop();
            add(self, "constraints=limit-1".into(), "limits", x.encode());
            // empty and one-row descriptions
            let e = Desc { hades: false, pis: vec![], witnesses: 0, scalars: vec![], polys: vec![], cons: vec![] };
            add(self, "empty".into(), "limits", e.encode());
            let mut e1 = e.clone();
            e1.hades = true;
            add(self, "empty-hades".into(), "limits", e1.encode());
            let one = Desc { hades: false, pis: vec![0], witnesses: 1, scalars: vec![], polys: vec![[1, 0, 0, 2, 0, 0, 1, 0, 0, 0, 0]], cons: vec![[0, 0, 0, 0, 0]] };
            add(self, "one-row".into(), "limits", one.encode());
            let mut two = one.clone();
            two.cons.push([0, 0, 0, 0, 0]);
            add(self, "two-rows".into(), "limits", two.encode());
            for k in [3usize, 4, 7, 8, 9] {
                let mut x = one.clone();
                x.cons = vec![[0, 0, 0, 0, 0]; k];
                add(self, format!("{}-rows", k), "limits", x.encode());
            }
            // payload sizes around the inflate limit
            for (nm, n) in [("limit-1", w.cc_limit - 1), ("limit", w.cc_limit), ("limit+1", w.cc_limit + 1)] {
                self.push_at(oi, "bomb", format!("zeros={}", nm), "inflate-limit", "stream", Mut::Bomb { zeros: n, keep_prefix: false });
            }
            self.push_at(oi, "bomb", "zeros=64MiB".into(), "inflate-limit", "stream", Mut::Bomb { zeros: 64 << 20, keep_prefix: false });
            self.push_at(oi, "bomb", "zeros=1GiB".into(), "inflate-limit", "stream", Mut::Bomb { zeros: 1 << 30, keep_prefix: false });
            self.push_at(oi, "bomb", "valid+zeros=16MiB".into(), "inflate-limit", "stream", Mut::Bomb { zeros: 16 << 20, keep_prefix: true });
            self.push_at(oi, "bomb", "valid+zeros=1".into(), "inflate-limit", "stream", Mut::Bomb { zeros: 1, keep_prefix: true });
        }
        self.cover(o, "repack", "every listed inner-payload edit (announced lengths, index bounds, witness counts, scalars, tags, trailing bytes, widths, capacity limits)");
    }

    // ------------------------------------------------------------ depth 2 (thorough)
    fn depth2(&mut self, oi: usize) {
        let o = &self.w.objs[oi];
        let fields: Vec<Field> = o.fields.iter().filter(|f| is_int(f.kind) && f.section != "pi_indexes").cloned().collect();
        let mut singles: Vec<(usize, String, Mut)> = vec![];
        for (i, f) in fields.iter().enumerate() {
            let v = dec_int(f.kind, &o.bytes[f.off..f.off + f.len]);
            for (nm, x) in [("0", 0u64), ("v-1", v.wrapping_sub(1)), ("v+1", v.wrapping_add(1)), ("2^63", 1u64 << 63)] {
                if x == v || (f.kind == Kind::U32Le && nm == "2^63") {
                    continue;
                }
                singles.push((i, format!("{}={}", f.path, nm), Mut::Set { off: f.off, data: enc_int(f.kind, x) }));
            }
        }
        let mut n = 0u64;
        for a in 0..singles.len() {
            for b in a + 1..singles.len() {
                if singles[a].0 == singles[b].0 {
                    continue;
                }
                let fa = &fields[singles[a].0];
                self.push(oi, "depth2", format!("{}&{}", singles[a].1, singles[b].1), Some(fa), Mut::Seq(vec![singles[a].2.clone(), singles[b].2.clone()]));
                n += 1;
            }
        }
        // integer field edit x invalid element in the same object (structural x element)
        self.cover(o, "depth2", &format!("exhaustive: all {} pairs of integer-field edits over {{0,v-1,v+1,2^63}} on distinct fields", n));
    }
}

/// Number of built-in scalars when the hades flag is set (0, 1, -1, round constants, MDS).
pub fn hades_base() -> u64 {
    // 3 + 335 + 25 minus collisions; measured through the decoder's behaviour
    // would be circular, so it is derived from a valid description: the
    // smallest index the encoder assigns to a fresh scalar. Computed lazily.
    *HADES_BASE.get().expect("hades base set by World")
}
pub static HADES_BASE: std::sync::OnceLock<u64> = std::sync::OnceLock::new();

/// Collapse a position class to the kind of slot it denotes (drops polynomial / commitment names).
pub fn collapse(pos: &str) -> String {
    let mut s = pos.to_string();
    for nm in fmt::POLYS.iter().chain(["linear", "v_h"].iter()) {
        s = s.replace(&format!("/{}/", nm), "/*/");
        if s.ends_with(&format!("/{}", nm)) {
            let cut = s.len() - nm.len();
            s.truncate(cut);
            s.push('*');
        }
    }
    s
}

pub fn enumerate(w: &World) -> Plan {
    let mut g = Gen { w, tier: w.tier, plan: Plan::default() };
    let n = w.objs.len();
    // baselines first: the unmutated encodings
    for oi in 0..n {
        g.push_at(oi, "baseline", "valid".into(), "whole", "whole", Mut::None);
    }
    for oi in 0..n {
        let class = w.objs[oi].class;
        let name = w.objs[oi].name.clone();
        let donor_only = w.tier == Tier::Quick && name == "prover:A2";
        g.bitflips(oi);
        if donor_only {
            continue;
        }
        if class != Class::Cc && class != Class::Proof {
            g.lenfields(oi);
            g.resizes(oi);
        }
        g.truncext(oi);
        g.splices(oi);
        if class != Class::Cc {
            g.badelems(oi);
        } else {
            g.repacks(oi);
        }
        if w.tier == Tier::Thorough && matches!(class, Class::Prover | Class::Verifier) && (name.ends_with(":A") || name.ends_with(":B")) {
            g.depth2(oi);
        }
    }
    g.plan
}
