//! C08 — arithmetic, equality, boolean and selection components are exact.

use dusk_plonk::prelude::*;
use serde_json::json;

use crate::e2::Gadget;
use crate::ev::{Run, Tier};
use crate::fe::*;
use crate::gadget::*;
use crate::m1::{self, *};
use crate::prog::Prog;
use crate::rows::{self, Real};

fn constraint(q: &[Fe; 6], pi: Option<Fe>, w: [Witness; 4]) -> Constraint {
    let c = Constraint::new().mult(q[0]).left(q[1]).right(q[2]).output(q[3]).fourth(q[4]).constant(q[5]).a(w[0]).b(w[1]).c(w[2]).d(w[3]);
    match pi {
        Some(p) => c.public(p),
        None => c,
    }
}

/// relation of the general gate, stated from the documentation
fn relation(q: &[Fe; 6], pi: Fe, v: &[Fe; 4]) -> Fe {
    q[0] * v[0] * v[1] + q[1] * v[0] + q[2] * v[1] + q[3] * v[2] + q[4] * v[3] + q[5] + pi
}

const WIRINGS: [[usize; 4]; 5] = [[0, 1, 2, 3], [0, 0, 2, 3], [0, 1, 0, 3], [0, 0, 0, 0], [0, 1, 2, 0]];

/// (i) the emitted row of `append_gate` equals the documented one, for every
/// selector tuple x PI mode x wiring; (iv) model verdicts replayed on the prover.
fn general_gate(run: &mut Run, tier: Tier) {
    let sel: Vec<Fe> = tier.pick(vec![zero(), one(), neg1()], vec![zero(), one(), neg1(), fe(2)]);
    let ns = sel.len();
    let rho = Rho::new(seed(), 8).next_fe();
    let pis = [None, Some(zero()), Some(rho)];
    let vals = [fe(3), fe(5), fe(7), fe(11)];
    let mut tuples: Vec<[Fe; 6]> = vec![];
    for t in 0..ns.pow(6) {
        let mut idx = t;
        let mut q = [zero(); 6];
        for k in 0..6 {
            q[k] = sel[idx % ns];
            idx /= ns;
        }
        tuples.push(q);
    }
    // row emission
    let init_rows = Prog::new(|_| Ok(())).run().map(|s| s.gates.len()).unwrap_or(4);
    let mut layouts = std::collections::HashSet::new();
    for q in &tuples {
        for pi in &pis {
            for wiring in &WIRINGS {
                let (q, pi, wiring) = (*q, *pi, *wiring);
                let p = Prog::new(move |c| {
                    let ws: Vec<Witness> = vals.iter().map(|v| c.append_witness(*v)).collect();
                    let w = [ws[wiring[0]], ws[wiring[1]], ws[wiring[2]], ws[wiring[3]]];
                    c.append_gate(constraint(&q, pi, w));
                    Ok(())
                });
                run.transitions += 1;
                run.evaluations += 1;
                let s = match p.run() {
                    Ok(s) => s,
                    Err(e) => {
                        run.violation("general-gate/error", &format!("append_gate failed: {:?}", e), json!({"q": q.iter().map(hex).collect::<Vec<_>>()}));
                        continue;
                    }
                };
                layouts.insert(m1::layout_key(&s));
                let row = s.gates.last().unwrap();
                let mut want = [zero(); 11];
                want[..6].copy_from_slice(&q);
                want[QARITH] = one();
                // the four user witnesses are the last allocations (append_gate allocates none)
                let base = s.witnesses.len() - 4;
                let want_w = [base + wiring[0], base + wiring[1], base + wiring[2], base + wiring[3]];
                let pi_rows: Vec<(usize, Fe)> = s.public_inputs.clone();
                let want_pi: Vec<(usize, Fe)> = match pi {
                    Some(v) => vec![(s.gates.len() - 1, v)],
                    None => vec![],
                };
                if row.q != want || row.w != want_w || pi_rows != want_pi || s.gates.len() != init_rows + 1 {
                    run.violation(
                        &format!("general-gate/emitted-row-differs/{}", if pi.is_some() { "pi" } else { "nopi" }),
                        &format!("append_gate emitted q={:?} w={:?} pi={:?}, documented row is q={:?} w={:?} pi={:?}", row.q.iter().map(hex).collect::<Vec<_>>(), row.w, pi_rows.iter().map(|(r, v)| (*r, hex(v))).collect::<Vec<_>>(), want.iter().map(hex).collect::<Vec<_>>(), want_w, want_pi.iter().map(|(r, v)| (*r, hex(v))).collect::<Vec<_>>()),
                        json!({"q": q.iter().map(hex).collect::<Vec<_>>(), "pi": pi.map(|p| hex(&p)), "wiring": wiring}),
                    );
                } else {
                    run.outcome("general-gate:row-as-documented");
                }
                // M1 on the snapshot agrees with the documented relation
                let v = [vals[wiring[0]], vals[wiring[1]], vals[wiring[2]], vals[wiring[3]]];
                let rel = relation(&q, pi.unwrap_or(zero()), &v) == zero();
                if m1::decide_self(&s).satisfied() != rel {
                    run.violation("general-gate/model-vs-relation", "row model and documented relation disagree", json!({"q": q.iter().map(hex).collect::<Vec<_>>()}));
                }
                run.nontrivial(fnv(format!("{:?}{:?}{:?}", q, pi, wiring).as_bytes()));
            }
        }
    }
    run.states += layouts.len() as u64;

    // prover replay: one satisfied and one violated assignment per tuple
    let pp = crate::setup::pp(64);
    let items: Vec<([Fe; 6], Option<Fe>, [usize; 4])> = tuples
        .iter()
        .enumerate()
        .map(|(i, q)| (*q, pis[i % 3], WIRINGS[if tier == Tier::Quick { 0 } else { i % 5 }]))
        .collect();
    let outs = crate::par::par_map(&items, |(q, pi, wiring)| {
        let (q, pi, wiring) = (*q, *pi, *wiring);
        let mk = move |v: [Fe; 4]| {
            Prog::new(move |c| {
                let ws: Vec<Witness> = v.iter().map(|x| c.append_witness(*x)).collect();
                let w = [ws[wiring[0]], ws[wiring[1]], ws[wiring[2]], ws[wiring[3]]];
                c.append_gate(constraint(&q, pi, w));
                Ok(())
            })
        };
        let base = [fe(3), fe(5), fe(7), fe(11)];
        // try to solve for the c slot (index 2 of the slots) when it is wired independently
        let mut v = base;
        let eff = |v: &[Fe; 4]| [v[wiring[0]], v[wiring[1]], v[wiring[2]], v[wiring[3]]];
        if q[3] != zero() && wiring == [0, 1, 2, 3] {
            let mut e = eff(&v);
            e[2] = zero();
            let rest = relation(&q, pi.unwrap_or(zero()), &e);
            v[2] = -rest * inv(q[3]);
        }
        let keys = Compiler::compile_with_circuit(&pp, b"c08", &mk(base)).expect("compile");
        let snap0 = mk(base).run().unwrap();
        let keys: rows::Keys = std::sync::Arc::new((keys.0, keys.1, snap0));
        let mut res = vec![];
        for cand in [v, [v[0], v[1], v[2] + one(), v[3] + one()]] {
            let inst = mk(cand);
            let (real, _) = rows::run_real(&keys, &inst, 3);
            let rel = relation(&q, pi.unwrap_or(zero()), &eff(&cand)) == zero();
            res.push((rel, real));
        }
        res
    });
    let mut sat = 0;
    let mut unsat = 0;
    for ((q, pi, wiring), o) in items.iter().zip(outs) {
        match o {
            Err(p) => run.machinery(format!("general gate replay panicked: {}", p)),
            Ok(res) => {
                for (rel, real) in res {
                    run.traces_validated += 1;
                    run.transitions += 1;
                    run.evaluations += 1;
                    if rel {
                        sat += 1
                    } else {
                        unsat += 1
                    }
                    let ok = matches!((&real, rel), (Real::Accepted, true) | (Real::Unsatisfied, false));
                    if !ok {
                        run.violation(
                            &format!("general-gate/relation-{}-real-{}", if rel { "holds" } else { "fails" }, format!("{:?}", real).split('(').next().unwrap()),
                            &format!("documented relation {} but prover/verifier gave {:?}", if rel { "holds" } else { "fails" }, real),
                            json!({"q": q.iter().map(hex).collect::<Vec<_>>(), "pi": pi.map(|p| hex(&p)), "wiring": wiring}),
                        );
                    }
                }
            }
        }
    }
    run.gate("general gate: satisfied and violated replays", sat > 0 && unsat > 0);
    run.outcome_n("general-gate:prover-satisfied", sat);
    run.outcome_n("general-gate:prover-unsatisfied", unsat);
}

fn sel_constraint(q: [i64; 6], ins: &[Witness]) -> Constraint {
    let z = Composer::ZERO;
    let w = |i: usize| if i < ins.len() { ins[i] } else { z };
    Constraint::new().mult(fi(q[0])).left(fi(q[1])).right(fi(q[2])).output(fi(q[3])).fourth(fi(q[4])).constant(fi(q[5])).a(w(0)).b(w(1)).d(w(2))
}

pub fn cases(tier: Tier) -> Vec<GCase> {
    let fs = alphabet_fs(seed());
    let small: Vec<Fe> = tier.pick(fs.iter().take(8).cloned().collect(), fs.clone());
    let mut out = vec![];
    let rho = Rho::new(seed(), 81).next_fe();
    let mut push = |g: Gadget, e: Expect, class: &str| {
        let mut c = GCase::new(g, e, class);
        c.bound2 = true;
        c.rewire = true;
        // many small cases: one candidate per wire position is enough here
        c.rewire_confirm_cap = 12;
        out.push(c);
    };
    // gate_add / gate_mul / append_evaluated_output
    let tuples: Vec<[i64; 6]> = vec![[0, 1, 1, 0, 0, 0], [0, 1, -1, 0, 2, 3], [1, 0, 0, 0, 0, 0], [1, 0, 0, 0, 1, 5], [1, 2, 3, 0, -1, 7]];
    for (ti, t) in tuples.iter().enumerate() {
        for a in &small {
            for b in small.iter().take(5) {
                let d = rho;
                let t = *t;
                for (pi, ptag) in [(None, "nopi"), (Some(fe(9)), "pi")] {
                    let piv = pi.unwrap_or(zero());
                    let body = fi(t[0]) * a * b + fi(t[1]) * a + fi(t[2]) * b + fi(t[4]) * d + fi(t[5]) + piv;
                    for (name, is_mul) in [("gate_add", false), ("gate_mul", true)] {
                        let g = Gadget::new(&format!("{}/t{}/{}", name, ti, ptag), vec![*a, *b, d], move |c, ins| {
                            let mut s = sel_constraint(t, ins);
                            if let Some(p) = pi {
                                s = s.public(p);
                            }
                            Ok(vec![if is_mul { c.gate_mul(s) } else { c.gate_add(s) }])
                        });
                        push(g, Expect::Sat(vec![body]), name);
                    }
                    // append_evaluated_output with q_O in {1, -1, 2, 0}
                    for qo in [1i64, -1, 2, 0] {
                        let g = Gadget::new(&format!("evaluated_output/t{}/qo{}/{}", ti, qo, ptag), vec![*a, *b, d], move |c, ins| {
                            let mut s = sel_constraint(t, ins).output(fi(qo));
                            if let Some(p) = pi {
                                s = s.public(p);
                            }
                            Ok(match c.append_evaluated_output(s) {
                                Some(w) => vec![w],
                                None => vec![],
                            })
                        });
                        let e = if qo != 0 {
                            Expect::Sat(vec![-body * inv(fi(qo))])
                        } else if body == zero() {
                            // no output; the row enforces the polynomial on the inputs
                            Expect::Sat(vec![])
                        } else {
                            Expect::Unsat
                        };
                        push(g, e, &format!("append_evaluated_output/qo{}", qo));
                    }
                }
            }
        }
    }
    // assert_equal, assert_equal_constant, append_constant, append_public, boolean
    for a in &small {
        for b in &small {
            let (a, b) = (*a, *b);
            let g = Gadget::new("assert_equal", vec![a, b], |c, ins| {
                c.assert_equal(ins[0], ins[1]);
                Ok(vec![])
            });
            push(g, if a == b { Expect::Sat(vec![]) } else { Expect::Unsat }, "assert_equal");
            for (pi, ptag) in [(None, "nopi"), (Some(zero()), "pi0"), (Some(fe(4)), "pi4")] {
                let g = Gadget::new(&format!("assert_equal_constant/{}", ptag), vec![a, b], move |c, ins| {
                    c.assert_equal_constant(ins[0], b, pi);
                    Ok(vec![])
                });
                let holds = a == b + pi.unwrap_or(zero());
                push(g, if holds { Expect::Sat(vec![]) } else { Expect::Unsat }, "assert_equal_constant");
            }
        }
        let a = *a;
        push(Gadget::new("append_constant", vec![], move |c, _| Ok(vec![c.append_constant(a)])), Expect::Sat(vec![a]), "append_constant");
        push(Gadget::new("append_public", vec![], move |c, _| Ok(vec![c.append_public(a)])), Expect::Sat(vec![a]), "append_public");
        let g = Gadget::new("component_boolean", vec![a], |c, ins| {
            c.component_boolean(ins[0]);
            Ok(vec![])
        });
        push(g, if a == zero() || a == one() { Expect::Sat(vec![]) } else { Expect::Unsat }, "component_boolean");
    }
    // the composer's own constant witnesses as operands
    for (bit, a, b) in [(one(), fe(10), fe(20)), (zero(), fe(10), fe(20)), (one(), zero(), one()), (zero(), one(), zero()), (fe(7), one(), zero())] {
        push(Gadget::new("component_select", vec![bit, a, b], |c, ins| Ok(vec![c.component_select(ins[0], ins[1], ins[2])])).with_const_handles(), Expect::Sat(vec![bit * a + (one() - bit) * b]), "component_select/const-handles");
        push(Gadget::new("component_select_one", vec![bit, a], |c, ins| Ok(vec![c.component_select_one(ins[0], ins[1])])).with_const_handles(), Expect::Sat(vec![one() - bit + bit * a]), "component_select_one/const-handles");
        push(Gadget::new("component_select_zero", vec![bit, a], |c, ins| Ok(vec![c.component_select_zero(ins[0], ins[1])])).with_const_handles(), Expect::Sat(vec![bit * a]), "component_select_zero/const-handles");
        push(Gadget::new("gate_mul", vec![bit, a, b], |c, ins| Ok(vec![c.gate_mul(Constraint::new().mult(1).fourth(1).a(ins[0]).b(ins[1]).d(ins[2]))])).with_const_handles(), Expect::Sat(vec![bit * a + b]), "gate_mul/const-handles");
        push(Gadget::new("gate_add", vec![bit, a, b], |c, ins| Ok(vec![c.gate_add(Constraint::new().left(1).right(2).fourth(3).a(ins[0]).b(ins[1]).d(ins[2]))])).with_const_handles(), Expect::Sat(vec![bit + fe(2) * a + fe(3) * b]), "gate_add/const-handles");
        let holds = bit == zero() || bit == one();
        push(Gadget::new("component_boolean", vec![bit], |c, ins| { c.component_boolean(ins[0]); Ok(vec![]) }).with_const_handles(), if holds { Expect::Sat(vec![]) } else { Expect::Unsat }, "component_boolean/const-handles");
        push(Gadget::new("assert_equal", vec![a, b], |c, ins| { c.assert_equal(ins[0], ins[1]); Ok(vec![]) }).with_const_handles(), if a == b { Expect::Sat(vec![]) } else { Expect::Unsat }, "assert_equal/const-handles");
    }
    // aliased operands: the same witness on several inputs
    for a in small.iter().take(6) {
        let a = *a;
        push(Gadget::new("component_select/aliased-values", vec![one(), a], |c, ins| Ok(vec![c.component_select(ins[0], ins[1], ins[1])])), Expect::Sat(vec![a]), "component_select/aliased");
        push(Gadget::new("component_select/aliased-bit", vec![a], |c, ins| Ok(vec![c.component_select(ins[0], ins[0], ins[0])])), Expect::Sat(vec![a * a + (one() - a) * a]), "component_select/aliased");
        push(Gadget::new("component_select_one/aliased", vec![a], |c, ins| Ok(vec![c.component_select_one(ins[0], ins[0])])), Expect::Sat(vec![one() - a + a * a]), "component_select_one/aliased");
        push(Gadget::new("component_select_zero/aliased", vec![a], |c, ins| Ok(vec![c.component_select_zero(ins[0], ins[0])])), Expect::Sat(vec![a * a]), "component_select_zero/aliased");
        push(Gadget::new("assert_equal/aliased", vec![a], |c, ins| { c.assert_equal(ins[0], ins[0]); Ok(vec![]) }), Expect::Sat(vec![]), "assert_equal/aliased");
        push(Gadget::new("gate_mul/aliased", vec![a], |c, ins| Ok(vec![c.gate_mul(Constraint::new().mult(1).fourth(1).a(ins[0]).b(ins[0]).d(ins[0]))])), Expect::Sat(vec![a * a + a]), "gate_mul/aliased");
    }
    // selects: bit over the alphabet (incl. non-boolean), values over a smaller one
    for bit in &small {
        for a in small.iter().take(6) {
            for b in small.iter().rev().take(4) {
                let (bit, a, b) = (*bit, *a, *b);
                push(
                    Gadget::new("component_select", vec![bit, a, b], |c, ins| Ok(vec![c.component_select(ins[0], ins[1], ins[2])])),
                    Expect::Sat(vec![bit * a + (one() - bit) * b]),
                    "component_select",
                );
            }
            let (bit, a) = (*bit, *a);
            push(
                Gadget::new("component_select_one", vec![bit, a], |c, ins| Ok(vec![c.component_select_one(ins[0], ins[1])])),
                Expect::Sat(vec![one() - bit + bit * a]),
                "component_select_one",
            );
            push(
                Gadget::new("component_select_zero", vec![bit, a], |c, ins| Ok(vec![c.component_select_zero(ins[0], ins[1])])),
                Expect::Sat(vec![bit * a]),
                "component_select_zero",
            );
        }
    }
    // non-initial states, constants: every sequence (quick: length <= 2, thorough: <= 3) of
    // constant-carrying operations with the same and with other constants, followed by a
    // constant-carrying component whose documented relation must still hold exactly; the
    // history's own allocations belong to the adversary too
    {
        #[derive(Clone, Copy, Debug)]
        enum H {
            EqConst(u64, Option<u64>),
            Const(u64),
            Public(u64),
            AddConst(u64),
        }
        fn apply(c: &mut Composer, h: H) {
            match h {
                H::EqConst(k, pi) => {
                    let w = c.append_witness(fe(k + pi.unwrap_or(0)));
                    c.assert_equal_constant(w, fe(k), pi.map(fe));
                }
                H::Const(k) => {
                    c.append_constant(fe(k));
                }
                H::Public(v) => {
                    c.append_public(fe(v));
                }
                H::AddConst(k) => {
                    let a = c.append_witness(fe(2));
                    c.gate_add(Constraint::new().left(1).constant(fe(k)).a(a));
                }
            }
        }
        let alphabet: Vec<H> = vec![
            H::EqConst(5, Some(4)),
            H::EqConst(5, Some(0)),
            H::EqConst(5, None),
            H::EqConst(9, Some(4)),
            H::EqConst(9, None),
            H::EqConst(0, Some(5)),
            H::EqConst(1, Some(4)),
            H::Const(5),
            H::Const(9),
            H::Public(5),
            H::Public(9),
            H::AddConst(5),
        ];
        let max_len = tier.pick(2usize, 3usize);
        let mut histories: Vec<Vec<H>> = vec![vec![]];
        let mut frontier: Vec<Vec<H>> = vec![vec![]];
        for _ in 0..max_len {
            let mut next = vec![];
            for h in &frontier {
                for a in &alphabet {
                    let mut n = h.clone();
                    n.push(*a);
                    next.push(n);
                }
            }
            histories.extend(next.iter().cloned());
            frontier = next;
        }
        for hist in histories.iter().skip(1) {
            let hname = hist.iter().map(|h| format!("{:?}", h)).collect::<Vec<_>>().join(",");
            let with = |g: Gadget| {
                let hist = hist.clone();
                let mut g = g.with_prelude(&hname, move |c, _| {
                    for h in &hist {
                        apply(c, *h);
                    }
                    Ok(())
                });
                g.explore_prelude = true;
                g
            };
            let mut add = |g: Gadget, e: Expect, class: &str| {
                let mut c = GCase::new(with(g), e, class);
                c.confirm = true;
                out.push(c);
            };
            for k in [5u64, 9, 0, 1] {
                add(Gadget::new(&format!("append_constant({})", k), vec![], move |c, _| Ok(vec![c.append_constant(fe(k))])), Expect::Sat(vec![fe(k)]), "append_constant/after-constants");
            }
            for v in [5u64, 9] {
                add(Gadget::new(&format!("append_public({})", v), vec![], move |c, _| Ok(vec![c.append_public(fe(v))])), Expect::Sat(vec![fe(v)]), "append_public/after-constants");
            }
            for (x, k, pi) in [(9u64, 5u64, Some(4u64)), (5, 5, Some(4)), (5, 5, None), (9, 5, None), (5, 5, Some(0)), (9, 9, None)] {
                let holds = x == k + pi.unwrap_or(0);
                add(
                    Gadget::new(&format!("assert_equal_constant(x={},{},{:?})", x, k, pi), vec![fe(x)], move |c, ins| {
                        c.assert_equal_constant(ins[0], fe(k), pi.map(fe));
                        Ok(vec![])
                    }),
                    if holds { Expect::Sat(vec![]) } else { Expect::Unsat },
                    "assert_equal_constant/after-constants",
                );
            }
        }
    }
    // non-initial states: every named-component case once more after the component was
    // already applied to the same witnesses (quick: every 7th case)
    let stride = tier.pick(7, 1);
    let again: Vec<GCase> = out.iter().filter(|c| !c.g.name.starts_with("general") && c.g.prelude.is_none()).step_by(stride).map(|c| { let mut d = c.after_self_call(); d.confirm = true; d }).collect();
    out.extend(again);
    out
}

pub fn main(tier: Tier, replay: Option<serde_json::Value>) -> i32 {
    let mut run = Run::new("C08", tier, "model_checking");
    run.rule = "(i) append_gate over all selector tuples x {no PI, PI=0, PI=rho} x 5 wirings: emitted row equals the documented row (selectors kept, q_arith=1, PI row recorded even when zero) and the row model agrees with the documented relation; one satisfied and one violated assignment per tuple replayed on the real prover; (ii) every named component over input tuples from F_s: honest assignment + all bound-1 and bound-2 deviations through the real generator decided by M1; predicate: satisfiable iff the documented relation holds and every satisfying assignment returns the spec value; also aliased operands, the composer's constant witnesses ZERO / ONE as operands, and a second application to the same witnesses".into();
    let cs = cases(tier);
    let cache = ConfirmCache::new(crate::setup::pp(64));
    if let Some(r) = replay {
        return crate::gadget::replay(run, &cs, &cache, &r);
    }
    general_gate(&mut run, tier);
    let names: Vec<String> = cs.iter().map(|c| c.g.name.clone()).collect();
    let reps = crate::par::par_map(&cs, |c| run_case(c, &cache));
    absorb(&mut run, reps, &names);
    run.gate("honest satisfiable cases", run.count("honest:sat") > 0);
    run.gate("precondition-violating cases", run.count("honest:unsat") > 0);
    run.gate("deviations explored", run.count("deviations") > 1000);
    run.assumptions = vec![
        "M1 row model (bound to the prover by C05) decides satisfiability of deviations".into(),
        "documented relations are transcribed from the rustdoc of each component".into(),
        "witness values from F_s; selector tuples over {0,1,-1}(,2)".into(),
    ];
    run.finish()
}
