//! C16 — serialization round trips preserve keys, proofs and parameters.

use dusk_bytes::Serializable;
use dusk_plonk::prelude::*;
use serde_json::json;

use crate::c01::{sized, Shape};
use crate::c05::Fam;
use crate::c17::mp::{self, Desc};
use crate::e1;
use crate::ev::{Run, Tier};
use crate::fe::*;
use crate::prog::Prog;
use crate::rng::ScriptedRng;

struct Item {
    name: String,
    prog: Option<Prog>,
    /// compile from this compressed description instead (handcrafted layouts)
    compressed: Option<Vec<u8>>,
    tier: Tier,
}

#[derive(Default)]
struct Rep {
    layout: u64,
    constraints: usize,
    prover_len: usize,
    fails: Vec<(String, String)>,
    checks: u64,
}

fn prove_bytes(p: &Prover, prog: &Prog) -> Result<(Vec<u8>, Vec<Fe>), String> {
    let mut rng = ScriptedRng::base(seed(), 16);
    match std::panic::catch_unwind(std::panic::AssertUnwindSafe(|| p.prove(&mut rng, prog))) {
        Err(e) => Err(format!("panic: {}", crate::par::panic_msg(e))),
        Ok(Err(e)) => Err(format!("{:?}", e)),
        Ok(Ok((proof, pis))) => Ok((proof.to_bytes().to_vec(), pis)),
    }
}

fn roundtrip(it: &Item, pp: &PublicParameters) -> Rep {
    let t0 = std::time::Instant::now();
    let rep = roundtrip_inner(it, pp);
    if std::env::var("VERIF_PROFILE").is_ok() {
        eprintln!("profile {} {:.2}s", it.name, t0.elapsed().as_secs_f64());
    }
    rep
}

fn roundtrip_inner(it: &Item, pp: &PublicParameters) -> Rep {
    let mut rep = Rep::default();
    let label_v = e1::label_of(&it.name, it.tier, b"c16-label");
    let label: &[u8] = &label_v;
    let keys = match (&it.prog, &it.compressed) {
        (_, Some(z)) => Compiler::compile_with_compressed(pp, label, z),
        (Some(p), None) => Compiler::compile_with_circuit(pp, label, p),
        _ => unreachable!(),
    };
    let (prover, verifier) = match keys {
        Ok(k) => k,
        Err(e) => {
            rep.fails.push(("compile-failed".into(), format!("{:?}", e)));
            return rep;
        }
    };
    if let Some(p) = &it.prog {
        if let Some(s) = p.last_snapshot() {
            rep.layout = crate::m1::layout_key(&s);
            rep.constraints = s.gates.len();
        }
    }
    // ---- prover
    let pb = prover.to_bytes();
    rep.prover_len = pb.len();
    rep.checks += 1;
    if pb.len() != prover.serialized_size() {
        rep.fails.push(("prover/serialized_size-differs".into(), format!("to_bytes().len() = {} but serialized_size() = {}", pb.len(), prover.serialized_size())));
    }
    let p2 = match std::panic::catch_unwind(|| Prover::try_from_bytes(&pb)) {
        Err(e) => {
            rep.fails.push(("prover/decode-panic".into(), crate::par::panic_msg(e)));
            None
        }
        Ok(Err(e)) => {
            rep.fails.push(("prover/decode-rejects-own-encoding".into(), format!("{:?}", e)));
            None
        }
        Ok(Ok(p2)) => Some(p2),
    };
    if let Some(p2) = &p2 {
        rep.checks += 1;
        if p2.to_bytes() != pb {
            rep.fails.push(("prover/reencoding-differs".into(), "decode(encode(p)).encode() != encode(p)".into()));
        }
    }
    // ---- verifier
    let vb = verifier.to_bytes();
    rep.checks += 1;
    if vb.len() != verifier.serialized_size() {
        rep.fails.push(("verifier/serialized_size-differs".into(), format!("{} vs {}", vb.len(), verifier.serialized_size())));
    }
    let v2 = match std::panic::catch_unwind(|| Verifier::try_from_bytes(&vb)) {
        Err(e) => {
            rep.fails.push(("verifier/decode-panic".into(), crate::par::panic_msg(e)));
            None
        }
        Ok(Err(e)) => {
            rep.fails.push(("verifier/decode-rejects-own-encoding".into(), format!("{:?}", e)));
            None
        }
        Ok(Ok(v2)) => Some(v2),
    };
    if let Some(v2) = &v2 {
        rep.checks += 1;
        if v2.to_bytes() != vb {
            rep.fails.push(("verifier/reencoding-differs".into(), "decode(encode(v)).encode() != encode(v)".into()));
        }
    }
    // ---- behaviour (needs an instance)
    if let Some(prog) = &it.prog {
        let a = prove_bytes(&prover, prog);
        if let (Some(p2), Ok((proof_a, pis_a))) = (&p2, &a) {
            rep.checks += 1;
            match prove_bytes(p2, prog) {
                Ok((proof_b, pis_b)) => {
                    if proof_b != *proof_a || pis_b != *pis_a {
                        rep.fails.push(("prover/decoded-proves-differently".into(), "same RNG script, different proof or public inputs".into()));
                    }
                }
                Err(e) => rep.fails.push(("prover/decoded-fails-to-prove".into(), e)),
            }
        }
        if let (Some(v2), Ok((proof_a, pis_a))) = (&v2, &a) {
            // proof round trip
            let mut arr = [0u8; Proof::SIZE];
            arr.copy_from_slice(proof_a);
            match Proof::from_bytes(&arr) {
                Err(e) => rep.fails.push(("proof/decode-rejects-own-encoding".into(), format!("{:?}", e))),
                Ok(pr) => {
                    rep.checks += 1;
                    if pr.to_bytes().to_vec() != *proof_a {
                        rep.fails.push(("proof/reencoding-differs".into(), "".into()));
                    }
                    // decoded verifier accepts exactly what the original accepts:
                    // honest proof, one flipped bit per proof field, a PI edit
                    let mut presentations: Vec<(Vec<u8>, Vec<Fe>)> = vec![(proof_a.clone(), pis_a.clone())];
                    for f in 0..26usize {
                        let off = if f < 11 { f * 48 + 47 } else { 11 * 48 + (f - 11) * 32 };
                        let mut b = proof_a.clone();
                        b[off] ^= 1;
                        presentations.push((b, pis_a.clone()));
                    }
                    if !pis_a.is_empty() {
                        let mut pz = pis_a.clone();
                        pz[0] += one();
                        presentations.push((proof_a.clone(), pz));
                        presentations.push((proof_a.clone(), pis_a[1..].to_vec()));
                    }
                    for (pbytes, pis) in presentations {
                        let mut arr = [0u8; Proof::SIZE];
                        arr.copy_from_slice(&pbytes);
                        let Ok(pr) = Proof::from_bytes(&arr) else { continue };
                        rep.checks += 1;
                        let r1 = verifier.verify(&pr, &pis).is_ok();
                        let r2 = v2.verify(&pr, &pis).is_ok();
                        if r1 != r2 {
                            rep.fails.push(("verifier/decoded-verdict-differs".into(), format!("original {} decoded {}", r1, r2)));
                        }
                    }
                }
            }
        }
        if let Err(e) = &a {
            rep.fails.push(("prove-failed".into(), e.clone()));
        }
    }
    rep
}

/// A compressed description whose multiplication selector is identically zero
/// (so q_m is shorter than the other selector polynomials).
fn no_mul_description() -> Vec<u8> {
    let d = Desc {
        hades: false,
        pis: vec![],
        witnesses: 3,
        scalars: vec![],
        // q_l = 1 (index 1), q_r = -1 (index 2), q_arith = 1
        polys: vec![[0, 1, 2, 0, 0, 0, 1, 0, 0, 0, 0]],
        cons: vec![[0, 0, 0, 0, 0], [0, 1, 1, 0, 0], [0, 2, 2, 0, 0], [0, 1, 1, 2, 2], [0, 0, 0, 1, 1]],
    };
    mp::deflate(&d.encode())
}

fn proof_canonicity(run: &mut Run, tier: Tier, pp: &PublicParameters) {
    let progs = vec![sized(12, &Shape::Pi(vec![4, -1])), sized(20, &Shape::CustomLast(Fam::Range))];
    let n = tier.pick(1usize, 2usize);
    for prog in progs.iter().take(n) {
        let (prover, _) = Compiler::compile_with_circuit(pp, b"canon", prog).expect("compile");
        let (proof, _) = prove_bytes(&prover, prog).expect("prove");
        let bits: Vec<usize> = (0..proof.len() * 8).collect();
        let res = crate::par::par_map(&bits, |bit| {
            let mut b = proof.clone();
            b[bit / 8] ^= 1 << (bit % 8);
            let mut arr = [0u8; Proof::SIZE];
            arr.copy_from_slice(&b);
            match std::panic::catch_unwind(|| Proof::from_bytes(&arr)) {
                Err(_) => 3u8,
                Ok(Err(_)) => 0,
                Ok(Ok(p)) => {
                    if p.to_bytes() == arr {
                        1
                    } else {
                        2
                    }
                }
            }
        });
        for (bit, r) in bits.iter().zip(res) {
            run.transitions += 1;
            run.evaluations += 1;
            match r {
                Ok(0) => run.outcome("proof-flip:undecodable"),
                Ok(1) => {
                    run.outcome("proof-flip:decodable-canonical");
                    run.traces_validated += 1;
                    run.nontrivial(fnv(format!("flip{}", bit).as_bytes()));
                }
                Ok(2) => {
                    let field = if *bit / 8 < 11 * 48 { format!("commitment{}", bit / 8 / 48) } else { format!("evaluation{}", (bit / 8 - 11 * 48) / 32) };
                    run.violation(&format!("proof/non-canonical-accepted/{}", field), &format!("Proof::from_bytes accepts a string (bit {} flipped) that re-encodes differently", bit), json!({"name": "proof-canonicity", "bit": bit}));
                }
                _ => run.violation("proof/decode-panic", &format!("Proof::from_bytes panicked with bit {} flipped", bit), json!({"name": "proof-canonicity", "bit": bit})),
            }
        }
    }
    // hand-built non-canonical encodings: scalar >= r, x >= p, infinity with junk
    let prog = &progs[0];
    let (prover, _) = Compiler::compile_with_circuit(pp, b"canon", prog).expect("compile");
    let (proof, _) = prove_bytes(&prover, prog).expect("prove");
    let r_bytes = {
        let m = U320::modulus();
        let mut b = [0u8; 32];
        for i in 0..4 {
            b[i * 8..i * 8 + 8].copy_from_slice(&m.0[i].to_le_bytes());
        }
        b
    };
    let mut variants: Vec<(String, Vec<u8>)> = vec![];
    for e in 0..15usize {
        let off = 11 * 48 + e * 32;
        let mut b = proof.clone();
        // value + r (non-canonical alias) when it still fits 256 bits
        let mut carry = 0u16;
        let mut ok = true;
        for i in 0..32 {
            let s = b[off + i] as u16 + r_bytes[i] as u16 + carry;
            b[off + i] = s as u8;
            carry = s >> 8;
        }
        if carry != 0 {
            ok = false;
        }
        if ok {
            variants.push((format!("evaluation{}+r", e), b));
        }
        let mut b = proof.clone();
        b[off..off + 32].copy_from_slice(&r_bytes);
        variants.push((format!("evaluation{}=r", e), b));
    }
    for c in 0..11usize {
        let mut b = proof.clone();
        // infinity flag with junk x bits
        b[c * 48] |= 0x40;
        variants.push((format!("commitment{}/infinity+junk", c), b));
        let mut b = proof.clone();
        b[c * 48] &= 0x7f; // compression flag cleared
        variants.push((format!("commitment{}/uncompressed-flag", c), b));
    }
    for (name, b) in variants {
        run.transitions += 1;
        run.evaluations += 1;
        let mut arr = [0u8; Proof::SIZE];
        arr.copy_from_slice(&b);
        match std::panic::catch_unwind(|| Proof::from_bytes(&arr)) {
            Err(_) => run.violation("proof/decode-panic", &format!("Proof::from_bytes panicked on {}", name), json!({"name": "proof-canonicity", "variant": name})),
            Ok(Err(_)) => run.outcome("proof-handbuilt:rejected"),
            Ok(Ok(p)) => {
                if p.to_bytes() != arr {
                    run.violation(&format!("proof/non-canonical-accepted/{}", name.split('/').next().unwrap_or("").trim_end_matches(|c: char| c.is_ascii_digit() || c == '+' || c == '=' || c == 'r')), &format!("Proof::from_bytes accepts non-canonical {}", name), json!({"name": "proof-canonicity", "variant": name}));
                } else {
                    run.outcome("proof-handbuilt:accepted-canonical");
                }
            }
        }
    }
}

fn parameters(run: &mut Run, tier: Tier) {
    // small degrees, degrees around 256-point blocks, and parameter sets beyond a thousand points
    let degrees: Vec<usize> = tier.pick(vec![1, 2, 7, 16, 33, 249, 256, 1017, 1024, 1300], vec![1, 2, 3, 7, 8, 16, 17, 33, 64, 130, 249, 250, 255, 256, 505, 512, 1017, 1018, 1024, 1300, 2041, 2048, 4096, 5000]);
    for d in degrees {
        let mut rng = crate::rng::SeedRng(Rho::new(seed(), 1600 + d as u64));
        let pp = PublicParameters::setup(d, &mut rng).expect("setup");
        run.transitions += 1;
        run.evaluations += 1;
        run.traces_validated += 1;
        run.nontrivial(fnv(format!("pp{}", d).as_bytes()));
        let case = json!({"name": format!("pp/degree{}", d)});
        let vb = pp.to_var_bytes();
        match std::panic::catch_unwind(|| PublicParameters::from_slice(&vb)) {
            Err(e) => run.violation("pp/decode-panic", &crate::par::panic_msg(e), case.clone()),
            Ok(Err(e)) => run.violation("pp/decode-rejects-own-encoding", &format!("degree {}: {:?}", d, e), case.clone()),
            Ok(Ok(p2)) => {
                if p2.to_var_bytes() != vb || p2.max_degree() != pp.max_degree() {
                    run.violation("pp/reencoding-differs", &format!("degree {}", d), case.clone());
                } else {
                    run.outcome("pp:roundtrip-identical");
                }
                let rb = pp.to_raw_var_bytes();
                let p3 = unsafe { PublicParameters::from_slice_unchecked(&rb) };
                if p3.to_raw_var_bytes() != rb || p3.to_var_bytes() != vb {
                    run.violation("pp/raw-reencoding-differs", &format!("degree {}", d), case.clone());
                } else {
                    run.outcome("pp:raw-roundtrip-identical");
                }
                // identical behaviour: the decoded parameters compile to the same keys
                if d >= 16 {
                    let prog = sized(9, &Shape::Pi(vec![4]));
                    let k1 = Compiler::compile_with_circuit(&pp, b"pp", &prog).map(|(p, v)| (p.to_bytes(), v.to_bytes()));
                    let k2 = Compiler::compile_with_circuit(&p2, b"pp", &prog).map(|(p, v)| (p.to_bytes(), v.to_bytes()));
                    let k3 = Compiler::compile_with_circuit(&p3, b"pp", &prog).map(|(p, v)| (p.to_bytes(), v.to_bytes()));
                    if k1 != k2 || k1 != k3 {
                        run.violation("pp/decoded-behaves-differently", &format!("degree {}: keys compiled from decoded parameters differ", d), case);
                    } else {
                        run.outcome("pp:same-keys");
                    }
                }
            }
        }
    }
}

pub fn main(tier: Tier, replay: Option<serde_json::Value>) -> i32 {
    let mut run = Run::new("C16", tier, "model_checking");
    run.rule = "every E1 program state, size-sweep circuits and handcrafted layouts whose selector polynomials have different lengths: Prover / Verifier encode -> decode -> encode identical, serialized_size exact, the decoded prover produces the identical proof from the same RNG script, the decoded verifier returns the same verdict on the honest proof, one flipped bit per proof field and PI edits; Proof round trip; proof canonicity over all 8064 single-bit flips and hand-built non-canonical encodings (decodable => re-encodes to itself); PublicParameters (checked and raw forms) for several degrees: identical bytes and identical compiled keys".into();
    if replay.is_some() {
        run.set_replay_mode();
    }
    let replay_name: Option<String> = replay.as_ref().and_then(|r| r["case"]["name"].as_str().map(|s| s.to_string()));
    let full = crate::setup::pp((1usize << 13) + 64);
    let alpha = e1::alphabet();
    let mut items: Vec<Item> = vec![];
    items.push(Item { name: "handcrafted/no-multiplication-gate".into(), prog: None, compressed: Some(no_mul_description()), tier });
    for k in 3..=tier.pick(7usize, 10usize) {
        for c in [(1usize << k) - 7, (1 << k) - 6, (1 << k) - 1, 1 << k, (1 << k) + 1] {
            if c < 6 {
                continue;
            }
            items.push(Item { name: format!("sized/c{}/pi", c), prog: Some(sized(c, &Shape::Pi(vec![4, -1]))), compressed: None, tier });
            items.push(Item { name: format!("sized/c{}/custom-last", c), prog: Some(sized(c, &Shape::CustomLast(Fam::Xor))), compressed: None, tier });
        }
    }
    let progs = match tier {
        Tier::Quick => {
            let mut v = e1::programs(&alpha, 2, 0, 2);
            v.retain(|p| p.ops.len() == 1 || (p.ops[0] * 5 + p.ops[1]) % 6 == 0);
            v
        }
        Tier::Thorough => e1::programs(&alpha, 2, 0, 8),
    };
    for p in &progs {
        items.push(Item { name: format!("program/{}", p.name), prog: Some(e1::program_prog(&alpha, p)), compressed: None, tier });
    }
    // labels of boundary lengths / contents (the prover stores its label behind a length field)
    for (ln, _) in e1::label_menu(tier) {
        items.push(Item { name: ln, prog: Some(sized(9, &Shape::Pi(vec![4, -1]))), compressed: None, tier });
    }
    if let Some(n) = &replay_name {
        items.retain(|i| &i.name == n);
    }
    run.bound("circuits", json!(items.len()));
    let outs = crate::par::par_map(&items, |it| roundtrip(it, &full));
    let mut layouts = std::collections::HashSet::new();
    for (it, o) in items.iter().zip(outs) {
        run.transitions += 1;
        run.evaluations += 1;
        match o {
            Err(p) => run.machinery(format!("harness panic {}: {}", it.name, p)),
            Ok(rep) => {
                layouts.insert(rep.layout);
                run.traces_validated += rep.checks;
                run.nontrivial(fnv(it.name.as_bytes()));
                if run.samples.len() < 6 {
                    run.sample(json!({"name": it.name, "constraints": rep.constraints, "prover_bytes": rep.prover_len, "checks": rep.checks}));
                }
                if rep.fails.is_empty() {
                    run.outcome("circuit:all-roundtrips-identical");
                }
                let class = it.name.split('/').next().unwrap_or("").to_string();
                for (sig, what) in rep.fails {
                    run.violation(&format!("{}/{}", class, sig), &format!("{}: {} {}", it.name, sig, what), json!({"name": it.name}));
                }
            }
        }
    }
    run.states = layouts.len() as u64;
    if replay_name.is_none() || replay_name.as_deref() == Some("proof-canonicity") {
        proof_canonicity(&mut run, tier, &full);
    }
    if replay_name.is_none() || replay_name.as_deref().map(|n| n.starts_with("pp/")).unwrap_or(false) {
        parameters(&mut run, tier);
    }
    if replay_name.is_none() {
        run.gate("round trips ran", run.count("circuit:all-roundtrips-identical") > 50);
        run.gate("decodable flips seen", run.count("proof-flip:decodable-canonical") > 100);
        run.gate("undecodable flips seen", run.count("proof-flip:undecodable") > 100);
    }
    run.assumptions = vec!["behavioural equality is observed on the listed presentations (honest proof, one flipped bit per field, PI edits), not on all proofs".into()];
    run.finish()
}
