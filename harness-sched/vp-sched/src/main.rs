//! vp-sched — schedule explorer for C18 (DESIGN E5 + E5b).
//!
//! dusk-plonk and dusk-bls12_381 are compiled here against the `rayon` and
//! `hashbrown` stand-ins of this workspace, so every parallel region and every
//! hash-map iteration of the REAL code is a choice point owned by this binary.
//!
//! usage: vp-sched C18 <quick|thorough> [--replay <file>]
//! evidence: $VERIF_DIR/evidence/C18-sched.json (property_id "C18").

#[allow(dead_code)]
#[path = "../../../harness/src/ev.rs"]
mod ev;
#[allow(dead_code)]
#[path = "../../../harness/src/fe.rs"]
mod fe;
#[allow(dead_code)]
#[path = "../../../harness/src/prog.rs"]
mod prog;
#[allow(dead_code)]
#[path = "../../../harness/src/rng.rs"]
mod rng;
#[allow(dead_code)]
#[path = "../../../harness/src/setup.rs"]
mod setup;
mod subjects;

mod explore;

fn main() {
    let args: Vec<String> = std::env::args().collect();
    if args.len() < 3 || args[1] != "C18" {
        eprintln!("usage: vp-sched C18 <quick|thorough> [--replay <file>]");
        std::process::exit(2);
    }
    let tier = match args[2].as_str() {
        "quick" => ev::Tier::Quick,
        "thorough" => ev::Tier::Thorough,
        t => {
            eprintln!("unknown tier {}", t);
            std::process::exit(2);
        }
    };
    let replay = if args.len() >= 5 && args[3] == "--replay" {
        let s = match std::fs::read_to_string(&args[4]) {
            Ok(s) => s,
            Err(e) => {
                eprintln!("replay file {}: {}", args[4], e);
                std::process::exit(2);
            }
        };
        match serde_json::from_str::<serde_json::Value>(&s) {
            Ok(v) => Some(v),
            Err(e) => {
                eprintln!("replay json: {}", e);
                std::process::exit(2);
            }
        }
    } else {
        None
    };
    // panics inside explored executions are caught and reported per case
    std::panic::set_hook(Box::new(|_| {}));
    let code = explore::main(tier, replay);
    std::process::exit(code);
}
